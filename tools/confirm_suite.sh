#!/bin/bash
# tools/confirm_suite.sh [patch.diff]   — runs the pinned test-suite on a scratch worktree of /repo HEAD (+ optional patch)
# and compares the passing set with BASELINE.json's stable_pass. Scratch: /tmp/confirm-wt (warm target kept between calls;
# remove with: tools/confirm_suite.sh --clean)
set -u
W=${CONFIRM_WT:-/tmp/confirm-wt}
if [ "${1:-}" = "--clean" ]; then git -C /repo worktree remove --force $W 2>/dev/null; rm -rf $W; exit 0; fi
unset RUSTFLAGS; export CARGO_NET_OFFLINE=true
[ -d $W ] || git -C /repo worktree add -q --detach $W HEAD || exit 2
git -C $W reset -q --hard && git -C $W checkout -q --detach "$(git -C /repo rev-parse HEAD)" && git -C $W clean -fdq -e target
if [ -n "${1:-}" ]; then git -C $W apply "$(readlink -f "$1")" || { echo "patch does not apply"; exit 2; }; fi
cd $W && cargo nextest run --workspace --no-fail-fast --tool-config-file pb:/w/lib/nextest.toml --profile pb --test-threads 8 --offline > $W/target-nextest.log 2>&1
rc=$?
J=$(ls -t $W/target/nextest/pb/*.xml 2>/dev/null | head -1)
python3 - "$J" <<'P'
import json,sys,xml.etree.ElementTree as ET
base=set(json.load(open('/root/.vp/BASELINE.json'))['stable_pass'])
if not sys.argv[1]: print("no junit file"); sys.exit(2)
t=ET.parse(sys.argv[1]); ok=set(); bad=set()
for ts in t.getroot().iter('testsuite'):
    for tc in ts.iter('testcase'):
        name=f"{ts.get('name')}::{tc.get('name')}"
        (bad if (tc.find('failure') is not None or tc.find('error') is not None) else ok).add(name)
miss=sorted(base-ok)
print(f"passed {len(ok)} failed {len(bad)}; baseline {len(base)}; baseline tests not passing: {len(miss)}")
for m in miss[:20]: print("  NOT PASSING:", m)
sys.exit(1 if miss else 0)
P
