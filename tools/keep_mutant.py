#!/usr/bin/env python3
"""tools/keep_mutant.py <mutant dir> <seeded name> <property> <detected-by / missed note>
Copies a confirmed seeded change into /verif/seeded/<name>/ (patch.diff, demo/, meta.json with what was run)."""
import json, os, shutil, sys
src, name, prop, note = sys.argv[1:5]
dst = f"/verif/seeded/{name}"
os.makedirs(dst, exist_ok=True)
shutil.copy(f"{src}/patch.diff", f"{dst}/patch.diff")
if os.path.isfile(f"{src}/patch.rebased.diff"):
    shutil.copy(f"{src}/patch.rebased.diff", f"{dst}/patch.rebased.diff")
if os.path.isdir(f"{src}/demo"):
    if os.path.isdir(f"{dst}/demo"): shutil.rmtree(f"{dst}/demo")
    shutil.copytree(f"{src}/demo", f"{dst}/demo", ignore=shutil.ignore_patterns("target", "*.ttf", "*.log"))
meta = {}
if os.path.isfile(f"{src}/meta.json"):
    try: meta = json.load(open(f"{src}/meta.json"))
    except Exception: meta = {"raw": open(f"{src}/meta.json").read()}
out = {
    "property": prop,
    "by": "independent sub-agent given only the property text and a scratch worktree",
    "title": meta.get("title"),
    "what_it_breaks": meta.get("what_it_breaks"),
    "needs_to_manifest": meta.get("needs_to_manifest"),
    "why_tests_pass": meta.get("why_tests_pass"),
    "files_touched": meta.get("files_touched"),
    "demo_cmd": meta.get("demo_cmd"),
    "confirmed_by_lead": {
        "suite": "tools/confirm_suite.sh <patch>: all 1106 baseline tests pass with the change (scratch worktree /tmp/confirm-wt)",
        "demo": "fails with the change, passes without it (tools/mutant_eval.sh step 2)",
        "checks": note,
    },
}
json.dump(out, open(f"{dst}/meta.json", "w"), indent=1)
print("kept", dst)
