#!/bin/bash
# tools/mutant_run.sh <patch.diff> <ID> [quick|thorough]
# Runs one check against a SCRATCH copy of /repo with the patch applied (never touches /repo or /verif outputs).
# Scratch: $M-wt (worktree), $M-harness, $M-target*, $M-out. Remove with: tools/mutant_run.sh --clean
set -u
M=/tmp/${MUT_NAME:-mut}   # set MUT_NAME=<yourname> to get private scratch dirs /tmp/<yourname>-{wt,harness,target,...}
if [ "${1:-}" = "--clean" ]; then
  git -C /repo worktree remove --force $M-wt 2>/dev/null; rm -rf $M-wt $M-harness $M-target $M-target-repo $M-target-repo-oc $M-out; exit 0
fi
PATCH=$(readlink -f "$1"); ID=$2; TIER=${3:-quick}
unset RUSTFLAGS; export CARGO_NET_OFFLINE=true SOURCE_DATE_EPOCH=1700000000
if [ ! -d $M-wt ]; then git -C /repo worktree add -q --detach $M-wt HEAD || exit 2; fi
git -C $M-wt reset -q --hard && git -C $M-wt checkout -q --detach "$(git -C /repo rev-parse HEAD)" && git -C $M-wt clean -fdq
if [ "$PATCH" != "/dev/null" ]; then git -C $M-wt apply "$PATCH" || { echo "patch does not apply"; exit 2; }; fi
mkdir -p $M-harness $M-out
# no -t: a file whose content changed gets a fresh mtime (cargo compares mtimes), an unchanged one is left alone
rsync -rlp --checksum --delete --exclude Cargo.lock /verif/harness/ $M-harness/
[ -f $M-harness/Cargo.lock ] || cp /repo/Cargo.lock $M-harness/Cargo.lock
sed -i "s#\"/repo/#\"$M-wt/#g" $M-harness/Cargo.toml
sed -i "s#/verif/target#$M-target#" $M-harness/.cargo/config.toml
bin=$(echo "$ID" | tr 'A-Z' 'a-z')
feats=$(python3 /verif/tools/binfeatures.py "$bin")
rm -f $M-target/release/$bin
(cd $M-harness && cargo build --release --offline --bin "$bin" --features "$feats" 2>&1 | tail -3)
[ -x $M-target/release/$bin ] || { echo "MACHINERY ERROR: the check binary did not build against the patched tree"; exit 2; }
case "$ID" in C01|C05|C14|C15|C18|C19|C20)
  (cd $M-wt && CARGO_TARGET_DIR=$M-target-repo cargo build --release --offline -p fontc 2>&1 | tail -1) || exit 2
  export VERIF_FONTC_BIN=$M-target-repo/release/fontc;;
esac
if [ "$ID" = C19 ]; then
  (cd $M-wt && CARGO_TARGET_DIR=$M-target-repo-oc RUSTFLAGS="-C overflow-checks=on -C debug-assertions=on" cargo build --release --offline -p fontc 2>&1 | tail -1) || exit 2
  export VERIF_FONTC_BIN_OC=$M-target-repo-oc/release/fontc
fi
export VERIF_OUT=$M-out VERIF_BUDGET_SCALE=${VERIF_BUDGET_SCALE:-6}
$M-target/release/$bin $TIER
echo "exit status: $?"
