#!/bin/bash
# tools/mutant_run.sh <patch.diff> <ID> [quick|thorough]
# Runs one check against a SCRATCH copy of /repo with the patch applied (never touches /repo or /verif outputs).
# Scratch: /tmp/mut-wt (worktree), /tmp/mut-harness, /tmp/mut-target*, /tmp/mut-out. Remove with: tools/mutant_run.sh --clean
set -u
if [ "${1:-}" = "--clean" ]; then
  git -C /repo worktree remove --force /tmp/mut-wt 2>/dev/null; rm -rf /tmp/mut-wt /tmp/mut-harness /tmp/mut-target /tmp/mut-target-repo /tmp/mut-target-repo-oc /tmp/mut-out; exit 0
fi
PATCH=$(readlink -f "$1"); ID=$2; TIER=${3:-quick}
unset RUSTFLAGS; export CARGO_NET_OFFLINE=true SOURCE_DATE_EPOCH=1700000000
if [ ! -d /tmp/mut-wt ]; then git -C /repo worktree add -q --detach /tmp/mut-wt HEAD || exit 2; fi
git -C /tmp/mut-wt checkout -q --detach "$(git -C /repo rev-parse HEAD)" && git -C /tmp/mut-wt checkout -q -- . && git -C /tmp/mut-wt clean -fdq
if [ "$PATCH" != "/dev/null" ]; then git -C /tmp/mut-wt apply "$PATCH" || { echo "patch does not apply"; exit 2; }; fi
mkdir -p /tmp/mut-harness /tmp/mut-out
rsync -a --delete --exclude Cargo.lock /verif/harness/ /tmp/mut-harness/
[ -f /tmp/mut-harness/Cargo.lock ] || cp /repo/Cargo.lock /tmp/mut-harness/Cargo.lock
sed -i 's#"/repo/#"/tmp/mut-wt/#g' /tmp/mut-harness/Cargo.toml
sed -i 's#/verif/target#/tmp/mut-target#' /tmp/mut-harness/.cargo/config.toml
bin=$(echo "$ID" | tr 'A-Z' 'a-z')
feats=$(python3 /verif/tools/binfeatures.py "$bin")
(cd /tmp/mut-harness && cargo build --release --offline --bin "$bin" --features "$feats" 2>&1 | tail -3) || exit 2
case "$ID" in C01|C05|C14|C15|C19|C20)
  (cd /tmp/mut-wt && CARGO_TARGET_DIR=/tmp/mut-target-repo cargo build --release --offline -p fontc 2>&1 | tail -1) || exit 2
  export VERIF_FONTC_BIN=/tmp/mut-target-repo/release/fontc;;
esac
if [ "$ID" = C19 ]; then
  (cd /tmp/mut-wt && CARGO_TARGET_DIR=/tmp/mut-target-repo-oc RUSTFLAGS="-C overflow-checks=on -C debug-assertions=on" cargo build --release --offline -p fontc 2>&1 | tail -1) || exit 2
  export VERIF_FONTC_BIN_OC=/tmp/mut-target-repo-oc/release/fontc
fi
export VERIF_OUT=/tmp/mut-out
/tmp/mut-target/release/$bin $TIER
echo "exit status: $?"
