#!/usr/bin/env python3
"""tools/wave_prompt.py <PROPERTY ID> <worktree> <outdir> — prints the brief given to a mutant-writing sub-agent.
The brief holds only the property text, the scratch worktree and a one-line list of ideas earlier experiments
already used (so that the new change is different); nothing about how /verif checks the property."""
import json, os, sys
pid, wt, out = sys.argv[1:4]
prop = None
for l in open("/verif/properties.jsonl"):
    p = json.loads(l)
    if p["id"] == pid: prop = p
tried = []
for d in sorted(os.listdir("/verif/seeded")):
    m = f"/verif/seeded/{d}/meta.json"
    if os.path.isfile(m):
        j = json.load(open(m))
        if j.get("property") == pid and j.get("title"):
            tried.append("- " + j["title"])
print(f"""You are helping to evaluate a verification effort for googlefonts/fontc (a Rust font compiler). Your job is to
write ONE realistic change to fontc that BREAKS the property below while the code still compiles and the repository's
existing test suite still passes — the kind of regression a plausible refactor, optimisation or 'simplification'
could introduce and code review could miss.

## The property (this is all you are told about it)

```json
{json.dumps(prop, indent=1)}
```

## Where to work

* Your own scratch git worktree of the repository: `{wt}` (detached HEAD; `target/` there already holds a warm debug
  build of the workspace's tests, so `cargo test ... --offline` is incremental). Work ONLY inside `{wt}` and `{out}`.
  Never touch `/repo` or `/verif` and do not read anything under `/verif`.
* The sandbox is offline: always pass `--offline` to cargo (`CARGO_NET_OFFLINE=true`). The machine is shared with
  other jobs; use `-j 4` for cargo builds and `--test-threads 4` for tests.

## What to produce

A change that needs **something specific to manifest** — a particular input shape, a particular interleaving or hash
seed, a multi-step sequence, an unusual-but-valid source, two cooperating sites that each look fine alone — NOT one
that ordinary use or any fixture would expose at once. Keep it small (typically 1–15 changed lines) and realistic; no
`if name == "magic"` special-casing, no deleted functionality, no changed tests.

Ideas that earlier experiments already used for this property — pick a DIFFERENT mechanism / code site:
{chr(10).join(tried) if tried else '- (none)'}

Steps:
1. Read the anchored code, choose the change, make it in `{wt}`.
2. Confirm it compiles and the existing tests pass: at least `cargo test -p <every crate you touched> --offline -j 4`
   and `cargo test -p fontc --offline -j 4 -- --test-threads 4` (the end-to-end tests). If a test fails, choose another change.
3. Write a demonstration: a new integration test file or a small example program, plus any tiny source files it
   needs, that FAILS with your change and PASSES without it (check both: `git stash` / `git stash pop`, or apply the
   patch in reverse). The demonstration must exercise the real code (compile a small source / call the public API) and
   judge the property itself, not an implementation detail.
4. Write into `{out}/` (create it):
   * `patch.diff` — `git diff` of the change to fontc ONLY (no demonstration files in it);
   * `demo/` — the demonstration files, and `demo/demo.diff` = a patch that adds them to a clean worktree
     (`git add -N` the new files then `git diff -- <those files>`), and `demo/README.txt` with the exact command;
   * `meta.json` — {{"title": one line, "what_it_breaks": ..., "needs_to_manifest": ..., "why_tests_pass": ...,
     "files_touched": [...], "demo_cmd": "<command run inside a worktree that has patch.diff and demo.diff applied>"}}.
5. Leave the worktree with both patches applied. Reply with a short report: the change, what it needs to manifest,
   the commands you ran and their results.

Budget: about 30 minutes. If you cannot find a change that passes the existing tests in that time, say so.
""")
