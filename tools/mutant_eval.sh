#!/bin/bash
# tools/mutant_eval.sh <mutant dir with patch.diff [demo/demo.diff]> <CHECK ID> "<demo test command run inside the worktree>" [tier]
# 1. pinned suite with the patch (scratch worktree /tmp/confirm-wt)  2. demo fails with / passes without the patch
# 3. the check against a scratch copy of the patched tree (tools/mutant_run.sh, scratch /tmp/eval-*)
set -u
D=$(readlink -f "$1"); ID=$2; DEMO=${3:-}; TIER=${4:-quick}
SLOT=${EVAL_SLOT:-}
W=${EVAL_WT:-/tmp/confirm-wt$SLOT}
export CONFIRM_WT=$W
export CARGO_NET_OFFLINE=true; unset RUSTFLAGS
echo "== [3] (started in background) check $ID $TIER against the patched tree"
(MUT_NAME=eval$SLOT /verif/tools/mutant_run.sh $D/patch.diff $ID $TIER > /tmp/eval$SLOT-check.log 2>&1) &
CHK=$!
echo "== [1] suite with patch"
/verif/tools/confirm_suite.sh $D/patch.diff | tail -4
if [ -n "$DEMO" ]; then
  echo "== [2a] demo WITH patch (must fail)"
  [ -f $D/demo/demo.diff ] && (git -C $W apply $D/demo/demo.diff || echo "demo.diff does not apply")
  (cd $W && eval "$DEMO") > /tmp/eval$SLOT-demo-with.log 2>&1; echo "demo with patch: exit $?"; grep -E "^test result|panicked|FAILED" /tmp/eval$SLOT-demo-with.log | head -5
  echo "== [2b] demo WITHOUT patch (must pass)"
  git -C $W apply -R $D/patch.diff || echo "cannot reverse patch"
  (cd $W && eval "$DEMO") > /tmp/eval$SLOT-demo-without.log 2>&1; echo "demo without patch: exit $?"; grep -E "^test result|panicked|FAILED" /tmp/eval$SLOT-demo-without.log | head -5
fi
wait $CHK
echo "== [3] result of check $ID $TIER against the patched tree"
for f in $(ls /tmp/eval$SLOT-out/replays/$ID/*.json 2>/dev/null | head -4); do python3 -c "
import json,sys; d=json.load(open('$f')); print('   key:', d['key'][:200]); print('   what:', d['what'][:300])"; done
cat /tmp/eval$SLOT-check.log | grep -E "VIOLATION|exit status|tier done|MACHINERY|error(\[|:)" | cut -c1-400 | head -20
