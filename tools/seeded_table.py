#!/usr/bin/env python3
"""Prints the markdown table of DESIGN.md 10.4 from /verif/seeded/*/meta.json."""
import json, glob, os
rows = []
for d in sorted(glob.glob('/verif/seeded/*')):
    m = json.load(open(f'{d}/meta.json'))
    name = os.path.basename(d)
    title = m.get('title') or m.get('what') or ''
    needs = m.get('needs_to_manifest') or m.get('needs') or ''
    chk = (m.get('confirmed_by_lead') or {}).get('checks', '') if isinstance(m.get('confirmed_by_lead'), dict) else ''
    fin = m.get('final_matrix', '')
    cut = lambda s, n: (s[:n] + '…') if len(s) > n else s
    rows.append(f"| `{name}` | {m.get('property')} | {cut(title.replace('|','/'), 140)} | {cut(needs.replace('|','/'), 160)} | {cut(chk.replace('|','/'), 260)} | {fin} |")
print("| seeded change | prop | what it does | what it needs to manifest | outcome when first run / what was strengthened | final matrix (quick) |")
print("|---|---|---|---|---|---|")
print("\n".join(rows))
