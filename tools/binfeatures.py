#!/usr/bin/env python3
"""Prints the required-features of a bin of the checks crate (comma separated)."""
import re, sys
s = open("/verif/harness/checks/Cargo.toml").read()
for m in re.finditer(r'\[\[bin\]\]\s*name\s*=\s*"([^"]+)"\s*required-features\s*=\s*\[([^\]]*)\]', s):
    if m.group(1) == sys.argv[1]:
        print(",".join(x.strip().strip('"') for x in m.group(2).split(",") if x.strip()))
        break
else:
    print("")
