#!/usr/bin/env python3
"""Regenerates /verif/MANIFEST.json from the table below and validates it (and any evidence files)."""
import json, os, sys, glob

V = "/verif"
HOOK_COMMITS = ["0ceead4", "1461f0f", "3824c48", "e9167ce"]

# id -> (level, technique, engine, text, note, design_ref)
CHECKS = {
 "C07": ("exploration", "bounded-exhaustive enumeration of master-location sets at the fontdrasil API against an independent region-scalar evaluator",
         "pure-sweeps",
         "Every set of master locations over a stated coordinate alphabet up to a stated size, every listed value vector, every insertion order (small sets): deltas reproduce masters, regions valid, model order-independent. Exhaustive inside the bound; no sampling.",
         "Trusted: the harness's own implementation of the OpenType region scalar; f64 tolerance 1e-9. Not covered: coordinates outside the alphabets, more masters than the bound.",
         "DESIGN.md §3 C07"),
}

NOT_YET = {}  # id -> reason

def main():
    props = [json.loads(l) for l in open(f"{V}/properties.jsonl")]
    ids = [p["id"] for p in props]
    checks = []
    for i in ids:
        if i in CHECKS:
            level, tech, engine, text, note, ref = CHECKS[i]
            checks.append({
                "property_id": i,
                "quick_cmd": f"./check {i} quick",
                "thorough_cmd": f"./check {i} thorough",
                "evidence_file": f"/verif/evidence/{i}.json",
                "replay_cmd_template": f"./check {i} --replay {{path}}",
                "engine": engine,
                "level_claimed": {"category": level, "text": text, "design_ref": ref},
                "level_note": note,
                "technique": tech,
            })
    na = [{"property_id": i, "reason": NOT_YET.get(i, "check not built yet in this round (design in DESIGN.md §3); not claimed until it runs clean on the unchanged tree")}
          for i in ids if i not in CHECKS]
    m = {
        "version": 1,
        "setup_cmd": "./check setup",
        "hooks": {
            "guard": "cfg(fontc_verif)",
            "enable": "harness/.cargo/config.toml sets rustflags = [\"--cfg\", \"fontc_verif\"] for the harness workspace, which path-depends on the /repo crates (fontc with default-features = false)",
            "baseline_off_cmd": "cd /repo && cargo test --workspace --no-fail-fast --offline",
            "source_commits": HOOK_COMMITS,
            "add_only": True,
        },
        "engines": [
            {"name": "pure-sweeps", "path": "harness/checks/src/bin", "serves_properties": ["C07", "C08", "C13", "C14", "C16"], "kind_free_text": "bounded-exhaustive enumeration of inputs of a pure API against an independent reference"},
            {"name": "engine-A", "path": "harness/vrt", "serves_properties": ["C01", "C02"], "kind_free_text": "controlled scheduler over the real Workload::exec: stateful DFS by re-execution, demotion-bounded, happens-before monitor"},
            {"name": "small-scope-compile", "path": "harness/dgen + harness/otref,otvar,otlayout", "serves_properties": ["C03","C04","C05","C06","C09","C10","C11","C12","C15","C16","C17","C18","C19","C20"], "kind_free_text": "every design of a small alphabet compiled by the real compiler and judged by an independent OpenType evaluator"},
        ],
        "checks": checks,
        "not_applicable": na,
        "notes": "Exit codes: 0 held, 1 VIOLATION, 2 machinery error. known_findings.json lists genuine defects (known / fixed).",
    }
    json.dump(m, open(f"{V}/MANIFEST.json", "w"), indent=1)
    try:
        import jsonschema
        jsonschema.validate(m, json.load(open("/root/.vp/MANIFEST.schema.json")))
        es = json.load(open("/root/.vp/EVIDENCE.schema.json"))
        for f in sorted(glob.glob(f"{V}/evidence/*.json")):
            jsonschema.validate(json.load(open(f)), es)
            print("evidence ok:", os.path.basename(f))
        print("MANIFEST ok:", len(checks), "claimed,", len(na), "not claimed")
    except ImportError:
        print("jsonschema not available; not validated")

if __name__ == "__main__":
    main()
