#!/usr/bin/env python3
"""Regenerates /verif/MANIFEST.json from the table below and validates it (and any evidence files)."""
import json, os, sys, glob

V = "/verif"
HOOK_COMMITS = ["0ceead4", "1461f0f", "3824c48", "e9167ce", "c41f29e", "ba2410a"]

# id -> (level, technique, engine, text, note, design_ref)
CHECKS = {
 "C01": ("model_checking", "controlled-scheduler exploration of the real Workload::exec (all schedules within d demotions, harvest mode: every explored schedule yields a font) + exhaustive enumeration of owned hash seeds x pool sizes over every repo fixture",
         "engine-A",
         "Three owned dimensions: (1) every schedule of the real scheduler loop within d priority demotions of two base orders on generated sources — each yields a font, all bytes must agree with the inline build; (2) hash seeds 0..S through a getrandom interposer for every compilable repo fixture and the generated family under several option sets; (3) pool sizes with the real rayon pool (labelled uncontrolled). States/transitions/executions are reported.",
         "Sequentially consistent exploration; rayon replaced by a k-slot pool model in (1); real-pool schedules in (3) are sampled, the exhaustive schedule claim rests on (1). SOURCE_DATE_EPOCH fixed. Seeds outside the enumerated set and schedules beyond the demotion bound are not covered.",
         "DESIGN.md §2.1, §2.2, §3 C01"),
 "C02": ("model_checking", "stateful DFS by re-execution of the real Workload::exec under a controlled scheduler (all schedules within d demotions, visited-state matching, happens-before monitor on every context access) + explicit-state exploration, without a deviation bound, of an abstract scheduler model extracted from a recorded execution, every explored implementation execution replayed against the model, and a transition-label-covering set of model traces (plus every model counterexample) replayed on the implementation by a guided scheduler",
         "engine-A",
         "(1) Every schedule of the real scheduler loop and its worker closures within d priority demotions (two base orders, pool sizes k) for a family of tiny sources that exercise each dynamic rule of handle_success, plus a kitchen-sink source on the default schedules; on every execution: no scheduler failure on a valid source, no deadlock, every conflicting pair of context accesses of two jobs ordered by happens-before. (2) For each tiny source an abstract model of the scheduler (job statuses, re-implemented can_run, counters, the effect of every handle_success taken from scheduler snapshots) explored breadth-first over every interleaving of the dynamic jobs: whenever a job launches, every job whose conflicting access came first in the reference run has finished; no unable-to-proceed, no has-to-be-pending, no double completion. (3) Conformance: every execution of (1) is replayed against the model of (2) (launches allowed, pending sets, accesses and counters equal at every snapshot). (4) The other direction: model traces that between them take every distinct transition label are executed on the real scheduler under guidance (Scan / Finish / Batch steps); each must be followable to its end, launch what the model launches, conform, and end in the default schedule's font.",
         "Hooks (cfg fontc_verif) announce each synchronisation step and print scheduler snapshots; exploration is sequentially consistent; no preemption inside Work::exec (ordering is judged on launch/finish edges); state merging is sound while the race monitor holds. The model is explored for sources of <= 4 glyphs; its counterexamples carry a model trace, the guide derived from it and what the implementation did on that schedule; the replayed traces are a label cover, not every path of the model; accesses of the main thread are recorded, not judged. Implementation schedules needing more demotions than the completed d, other sources, weak memory are not covered.",
         "DESIGN.md §2.2, §2.2b, §2.2c, §3 C02"),
 "C03": ("exploration", "bounded-exhaustive enumeration of small variable designs (master sets x glyph kinds x perturbations x sparseness) compiled by the real compiler, judged by an independent gvar/IUP evaluator against the source drawing",
         "small-scope-compile",
         "Every design of the stated alphabet is compiled and every glyph instantiated at every master location by an evaluator written from the OpenType spec (cross-checked against skrifa); outlines must equal the master's drawing within the derived rounding/IUP bound, exactly at the default.",
         "Trusted: otvar (own decoder of glyf/gvar/IUP; skrifa disagreement = machinery error). Cubic sources are compared by sampled distance with a cu2qu allowance. More than 3 axes, larger master sets, open contours not covered.",
         "DESIGN.md §3 C03"),
 "C04": ("exploration", "bounded-exhaustive enumeration of advance/height/metric assignments per master, compiled by the real compiler, judged by an independent HVAR/VVAR/MVAR evaluator",
         "small-scope-compile",
         "Every per-master assignment of advances, heights and each MVAR-tagged metric over a small alphabet on all listed master sets; hmtx+HVAR, vmtx+VVAR, phantom points and MVAR values at every master must equal the rounded source value within the derived bound; default-location fields exact.",
         "Trusted: otvar ItemVariationStore / DeltaSetIndexMap evaluation (read-fonts and skrifa second opinion). Fallback-derived metrics are only judged for constancy. A third axis and composites with USE_MY_METRICS are not covered.",
         "DESIGN.md §3 C04"),
 "C05": ("exploration", "every compilable repo fixture x option sets (product binary) and the complete product of 11 structural toggles of a generated design x option sets (in process), each font checked by an independent structural OpenType checker (container, counts, every cross-table reference)",
         "small-scope-compile",
         "Each successfully compiled font is checked by a hand-written sfnt container checker plus a full traversal that range-checks every glyph id, lookup/feature index, name id, region/axis index, variation index, component graph and maxp bound; skrifa is a second reader.",
         "Trusted: otref (44 corruption tests show each defect class is reported). Sources: the repo fixtures and the generated kitchen family (7 488 designs x 4 option sets at quick); index consistency inside one layout subtable is not checked.",
         "DESIGN.md §2.4, §3 C05"),
 "C06": ("exploration", "bounded-exhaustive enumeration of glyph sets, declared orders, export flags, component patterns, codepoints and production names; reference order computed from the design",
         "small-scope-compile",
         "Every permutation of every subset of the names as declared order, every export subset, every acyclic component pattern, every codepoint assignment of the alphabet; glyph count, post names, cmap (own decoder), components, GSUB/GPOS references compared with a reference computed from the source alone.",
         "Trusted: own cmap/post readers; ufo2ft's production-name rule as reference. Glyphs-format twin not built; repeated names in glyphOrder outside the alphabet.",
         "DESIGN.md §3 C06"),
 "C07": ("exploration", "bounded-exhaustive enumeration of master-location sets at the fontdrasil API against an independent region-scalar evaluator",
         "pure-sweeps",
         "Every set of master locations over a stated coordinate alphabet up to a stated size, every listed value vector, every insertion order (small sets): deltas reproduce masters, regions valid, model order-independent. Exhaustive inside the bound; no sampling.",
         "Trusted: the harness's own implementation of the OpenType region scalar; f64 tolerance 1e-9. Not covered: coordinates outside the alphabets, more masters than the bound.",
         "DESIGN.md §3 C07"),
 "C08": ("exploration", "bounded-exhaustive enumeration of axis definitions (user nodes x design nodes) at the CoordConverter / avar / fvar work items and end to end through a designspace, against an own piecewise-linear reference",
         "pure-sweeps",
         "Every sorted node set and non-decreasing design assignment of the alphabet: conversions, round trips, avar segment maps (required entries, monotone) and fvar bounds compared with an independent piecewise-linear reference within 2^-14 (1+steepest slope).",
         "Trusted: own piecewise-linear reference; otvar normalisation for the font-level part. Known finding: axes with a flat segment at the default (listed).",
         "DESIGN.md §3 C08"),
 "C09": ("exploration", "bounded-exhaustive enumeration of kerning/group configurations per master, compiled by the real compiler, judged by applying the compiled kern feature with an independent GPOS engine against the UFO kerning lookup",
         "small-scope-compile",
         "Every set of kerning keys over {glyph,group}x{glyph,group}, every listed group pattern per master (incl. divergent groups), every subset of masters defining a pair; for every ordered glyph pair and master the applied adjustment (all lookups, VariationIndex deltas) equals the UFO lookup on that master's own data.",
         "Trusted: otlayout (own PairPos/ClassDef/IVS evaluation, 40 tests). Latin-only glyphs; masters without kerning are not judged.",
         "DESIGN.md §3 C09"),
 "C10": ("exploration", "bounded-exhaustive enumeration of anchor subsets, coordinates per master, categories and propagation modes, judged by enumerating the compiled mark/mkmk attachments with an independent GPOS engine",
         "small-scope-compile",
         "Every anchor subset per glyph kind, every coordinate assignment of the alphabet over 1-3 masters, explicit/inferred categories, propagate on/off: completeness, exact anchor coordinates at every master, GDEF classes and soundness (no spurious attachment).",
         "Trusted: otlayout mark-attachment enumeration and shaping. Known finding: explicitly classified marks without a usable underscore anchor are not mkmk bases (ufo2ft parity).",
         "DESIGN.md §3 C10"),
 "C11": ("exploration", "bounded-exhaustive enumeration of feature programs (rule alphabet x lookups x flags x script/language blocks) x all glyph strings up to a length, reference FEA interpreter vs independent application of the compiled tables",
         "small-scope-compile",
         "Every program of the stated families is printed to text, compiled by fea-rs, and every glyph string up to the bound is shaped with the compiled GSUB/GPOS by an independent engine and by a second table walker; results must equal a reference interpreter working on the AST under the FEA specification.",
         "Trusted: fearef interpreter (shares no code with fea-rs), otlayout + a second table walker (disagreement = machinery error). Constructs whose semantics the spec does not fix are excluded and listed.",
         "DESIGN.md §3 C11"),
 "C12": ("exploration", "bounded-exhaustive enumeration of component trees x transforms x glyph kinds under all 16 option subsets, resolved outlines compared by an independent glyf/gvar evaluator",
         "small-scope-compile",
         "Every acyclic component tree of the alphabet with every listed transform, under every subset of {flatten, decompose, decompose-transformed, prefer-simple off}: resolved contours (cyclic, flip-aware) and advances at both masters equal the default configuration's and the source's own resolution within one unit per nesting level.",
         "Trusted: otvar resolve_outline (skrifa cross-check). Cubic outlines excluded (cu2qu of transformed curves legitimately differs).",
         "DESIGN.md §3 C12"),
 "C13": ("exploration", "bounded-exhaustive enumeration of token sequences, character strings, single edits of every corpus file and include digraphs, each parsed in an isolated worker (CPU-time watchdog, memory cap)",
         "pure-sweeps",
         "Every sequence of <= N lexemes, every string of <= M characters, every single edit at every token of every test file, every include digraph on <= 3 files: terminates, no panic, tree text = input, diagnostics inside their source on char boundaries, validation does not panic, cycles and over-deep includes are errors.",
         "Trusted: the watchdog (CPU time per case) and the own include-graph DFS. Inputs outside the alphabets/lengths are not covered.",
         "DESIGN.md §3 C13"),
 "C14": ("exploration", "bounded-exhaustive enumeration of names/locations at the file-naming API (injectivity) plus IR-on/IR-off builds of a source family with read-back hooks on every persisted item",
         "pure-sweeps",
         "Every name of <= k symbols of the alphabet and every pair of kerning locations on a grid map to distinct files (also after ASCII case folding); every source of the family builds to identical bytes with and without IR emission; every item written reads back equal; distinct ids never share a file.",
         "Hooks read each item back inside ContextItem/ContextMap::set. Non-ASCII case-only differences are recorded, not asserted.",
         "DESIGN.md §3 C14"),
 "C15": ("fault_enumeration", "every fault of each listed class applied at every site of a small valid source (component digraphs, XML/plist structure, designspace, glif, FEA token soup, Glyphs text), each run with the unmodified binary under timeout and memory cap",
         "small-scope-compile",
         "All 512 component digraphs on 3 glyphs x flag sets, deletion/duplication/replacement/truncation at every element/number/file, degenerate designspaces, malformed glifs, token soup: outcome must be success with a structurally valid font or a clean failure status with a diagnostic and no font; never a signal, uncaught panic exit, hang or left-over font.",
         "Trusted: process exit status, otref structural check of produced fonts. 'A task panicked' with a clean exit is counted, not a violation of this property.",
         "DESIGN.md §3 C15"),
 "C16": ("exploration", "bounded-exhaustive enumeration of rule lists (boxes x substitution maps) at overlay_feature_variations and end to end through designspace rules, evaluated on an offset grid against a direct reading of the rules",
         "pure-sweeps",
         "Every list of 1-3 rules of 1-2 boxes over the interval alphabet on <= 2 axes with the listed maps: at every grid point the first output box carries exactly the union of the applicable rules' substitutions; end to end the FeatureVariations of the compiled font apply exactly the source's substitutions.",
         "Shared edges excluded (touching boxes are disjoint by convention); chaining semantics (tier T3) not asserted. Known finding: same-input precedence after rule merging (fontTools parity).",
         "DESIGN.md §3 C16"),
 "C17": ("exploration", "bounded-exhaustive enumeration of glyph sequences (kinds x side bearings x advances), cmaps, vertical metrics and feature programs; every summary field recomputed from the emitted tables by hand-written readers",
         "small-scope-compile",
         "All sequences of glyph options up to k, every subset of the codepoint alphabet, range-boundary codepoints, feature programs of known context length: head/hhea/vhea/maxp/loca/OS/2 summary fields must equal an own recomputation from glyf/hmtx/cmap/GSUB/GPOS; a built-in sensitivity self-test perturbs 78 fields.",
         "Trusted: own big-endian readers (cross-checked against read-fonts per glyph). Composite-of-empty boxes and unmodelled Unicode blocks are not asserted.",
         "DESIGN.md §3 C17"),
 "C18": ("exploration", "exhaustive enumeration of naming configurations (family/style/styleMap/instances/axis labels/FEA name blocks, static and variable) with hash-seed sweep on coinciding strings",
         "small-scope-compile",
         "Every combination of the naming alphabet: every name id referenced from fvar, STAT and feature parameters exists, is in the range the spec allows and carries the source's string; ids 1-6,16,17 follow the documented fallback chain on the judged configurations; output identical across owned hash seeds.",
         "Trusted: read-fonts typed tables; the ufo2ft fallback chain as stated in the check. The case where exactly one of 16/17 coincides is not asserted.",
         "DESIGN.md §3 C18"),
 "C19": ("exploration", "one field at a time pushed to each boundary value of its target type on a static and a variable base; both build profiles (optimised, overflow-checked) run per case; the field is decoded from the emitted font by own readers",
         "small-scope-compile",
         "Every listed field x every boundary value: both binaries must agree, and the result is either a clean error or a font in which the field decodes to the rounded source value (or an equal resolved shape after decomposition).",
         "Trusted: own glyf/gvar/IVS/GPOS readers with wide accumulators. Deliberate hhea extent clamps are not judged. Many fields are known findings (saturating OtRound in write-fonts); listed by field.",
         "DESIGN.md §3 C19"),
 "C20": ("exploration", "every Glyphs fixture and generated design through every route (CLI, library path, in-memory text, package) and every reformatting variant alone and pairwise; lone UFO vs one-source designspace",
         "small-scope-compile",
         "All 188 Glyphs fixtures, the file/package pairs and generated designs: byte equality across routes; 41 reformatting variants per source (own OpenStep parser/printer) must not change the bytes; UFO vs designspace with and without the UFO-only lib keys.",
         "The product binary (rayon) and the harness library (inline scheduler, verif cfg) are compared directly; version stamps are equal. Variants the reader rejects are counted.",
         "DESIGN.md §3 C20"),
}

READY = set(open('/verif/tools/ready.txt').read().split())
NOT_YET = {}  # id -> reason

def main():
    props = [json.loads(l) for l in open(f"{V}/properties.jsonl")]
    ids = [p["id"] for p in props]
    checks = []
    for i in ids:
        if i in CHECKS and i in READY:
            level, tech, engine, text, note, ref = CHECKS[i]
            checks.append({
                "property_id": i,
                "quick_cmd": f"./check {i} quick",
                "thorough_cmd": f"./check {i} thorough",
                "evidence_file": f"/verif/evidence/{i}.json",
                "replay_cmd_template": f"./check {i} --replay {{path}}",
                "engine": engine,
                "level_claimed": {"category": level, "text": text, "design_ref": ref},
                "level_note": note,
                "technique": tech,
            })
    na = [{"property_id": i, "reason": NOT_YET.get(i, "check not built yet in this round (design in DESIGN.md §3); not claimed until it runs clean on the unchanged tree")}
          for i in ids if i not in CHECKS or i not in READY]
    m = {
        "version": 1,
        "setup_cmd": "./check setup",
        "hooks": {
            "guard": "cfg(fontc_verif)",
            "enable": "harness/.cargo/config.toml sets rustflags = [\"--cfg\", \"fontc_verif\"] for the harness workspace, which path-depends on the /repo crates (fontc with default-features = false)",
            "baseline_off_cmd": "cd /repo && cargo test --workspace --no-fail-fast --offline",
            "source_commits": HOOK_COMMITS,
            "add_only": True,
        },
        "engines": [
            {"name": "pure-sweeps", "path": "harness/checks/src/bin", "serves_properties": ["C07", "C08", "C13", "C14", "C16"], "kind_free_text": "bounded-exhaustive enumeration of inputs of a pure API against an independent reference"},
            {"name": "engine-A", "path": "harness/vrt", "serves_properties": ["C01", "C02"], "kind_free_text": "controlled scheduler over the real Workload::exec: stateful DFS by re-execution, demotion-bounded, happens-before monitor"},
            {"name": "engine-A-prime", "path": "harness/vrt/src/absmodel.rs", "serves_properties": ["C02"], "kind_free_text": "abstract scheduler model extracted from scheduler snapshots of a recorded execution; explicit-state breadth-first exploration of every interleaving of the dynamic jobs; every explored implementation execution replayed against the model; model traces replayed on the implementation by a guided scheduler"},
            {"name": "small-scope-compile", "path": "harness/dgen + harness/otref,otvar,otlayout", "serves_properties": ["C03","C04","C05","C06","C09","C10","C11","C12","C15","C16","C17","C18","C19","C20"], "kind_free_text": "every design of a small alphabet compiled by the real compiler and judged by an independent OpenType evaluator"},
        ],
        "checks": checks,
        "not_applicable": na,
        "notes": "Exit codes: 0 held, 1 VIOLATION, 2 machinery error. known_findings.json lists genuine defects (known / fixed).",
    }
    json.dump(m, open(f"{V}/MANIFEST.json", "w"), indent=1)
    try:
        import jsonschema
        jsonschema.validate(m, json.load(open("/root/.vp/MANIFEST.schema.json")))
        es = json.load(open("/root/.vp/EVIDENCE.schema.json"))
        for f in sorted(glob.glob(f"{V}/evidence/*.json")):
            jsonschema.validate(json.load(open(f)), es)
            print("evidence ok:", os.path.basename(f))
        print("MANIFEST ok:", len(checks), "claimed,", len(na), "not claimed")
    except ImportError:
        print("jsonschema not available; not validated")

if __name__ == "__main__":
    main()
