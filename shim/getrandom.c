#define _GNU_SOURCE
#include <stddef.h>
#include <stdlib.h>
#include <sys/types.h>
ssize_t getrandom(void *buf, size_t len, unsigned int flags) {
  const char *s = getenv("VERIF_HASH_SEED");
  unsigned long long seed = s ? strtoull(s, 0, 10) : 0;
  unsigned char *p = buf;
  for (size_t i = 0; i < len; i++) { seed = seed * 6364136223846793005ULL + 1442695040888963407ULL; p[i] = (unsigned char)(seed >> 33); }
  return (ssize_t)len;
}
