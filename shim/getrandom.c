/* LD_PRELOAD interposer: std's RandomState takes its per-thread keys from getrandom();
 * this makes them a function of VERIF_HASH_SEED (or of verif_seed_override once set). */
#define _GNU_SOURCE
#include <stddef.h>
#include <stdlib.h>
#include <sys/types.h>
volatile unsigned long long verif_seed_override = 0;
volatile int verif_seed_set = 0;
ssize_t getrandom(void *buf, size_t len, unsigned int flags) {
  (void)flags;
  unsigned long long seed;
  if (verif_seed_set) seed = verif_seed_override;
  else { const char *s = getenv("VERIF_HASH_SEED"); seed = s ? strtoull(s, 0, 10) : 0; }
  unsigned char *p = buf;
  for (size_t i = 0; i < len; i++) { seed = seed * 6364136223846793005ULL + 1442695040888963407ULL; p[i] = (unsigned char)(seed >> 33); }
  return (ssize_t)len;
}
