//! [`VFont`]: the variation evaluator over one font binary.

use crate::axes::{Axes, AxisInfo};
use crate::glyf::{self, RawGlyph, RawGlyphKind};
use crate::gvar::{Gvar, GvarStats, TupleVar, iup_contour_1d};
use crate::ivs::{DeltaSetIndexMap, ItemVarStore};
use crate::rd::Rd;
use serde::Serialize;
use write_fonts::read::types::{GlyphId16, Tag};
use write_fonts::read::{FontRef, TableProvider};

/// Maximum component nesting accepted by [`VFont::resolve`].
pub const MAX_COMPONENT_DEPTH: usize = 32;

#[derive(Clone, Debug, PartialEq, Serialize)]
pub struct Pt {
    pub x: f64,
    pub y: f64,
    pub on: bool,
}

pub type Contour = Vec<Pt>;

#[derive(Clone, Debug, PartialEq, Serialize)]
pub struct Comp {
    pub gid: u16,
    /// Offset after deltas (ARGS_ARE_XY_VALUES), otherwise 0 (see `arg1`/`arg2`).
    pub dx: f64,
    pub dy: f64,
    /// x' = xx*x + xy*y ; y' = yx*x + yy*y
    pub xx: f64,
    pub yx: f64,
    pub xy: f64,
    pub yy: f64,
    pub flags: u16,
    /// Raw arguments (point numbers when ARGS_ARE_XY_VALUES is not set).
    pub arg1: i32,
    pub arg2: i32,
}

#[derive(Clone, Debug, PartialEq, Serialize)]
pub enum InstKind {
    Empty,
    Simple { contours: Vec<Contour> },
    Composite { components: Vec<Comp> },
}

/// One glyph (not resolved through components) at a normalized location.
#[derive(Clone, Debug, PartialEq, Serialize)]
pub struct InstGlyph {
    pub kind: InstKind,
    /// The four phantom points after deltas: left, right (horizontal origin and advance
    /// point), top, bottom.
    pub phantoms: [(f64, f64); 4],
    /// The accumulated deltas of the phantom points alone.
    pub phantom_deltas: [(f64, f64); 4],
    /// `phantoms[1].x - phantoms[0].x`
    pub advance_from_phantoms: f64,
    /// `phantoms[2].y - phantoms[3].y`
    pub v_advance_from_phantoms: f64,
    /// Scalar of every tuple variation of the glyph at this location (0 = inactive), in
    /// table order. Callers derive rounding allowances from the active ones.
    pub tuple_scalars: Vec<f64>,
}

/// OpenType rounding as used for deltas by fontTools (`otRound`) and FreeType:
/// floor(x + 0.5).
pub fn ot_round(v: f64) -> f64 {
    (v + 0.5).floor()
}

impl InstGlyph {
    /// All coordinates rounded with [`ot_round`].
    pub fn rounded(&self) -> InstGlyph {
        let mut g = self.clone();
        match &mut g.kind {
            InstKind::Empty => {}
            InstKind::Simple { contours } => {
                for p in contours.iter_mut().flatten() {
                    p.x = ot_round(p.x);
                    p.y = ot_round(p.y);
                }
            }
            InstKind::Composite { components } => {
                for c in components {
                    c.dx = ot_round(c.dx);
                    c.dy = ot_round(c.dy);
                }
            }
        }
        for p in g.phantoms.iter_mut() {
            *p = (ot_round(p.0), ot_round(p.1));
        }
        g.advance_from_phantoms = g.phantoms[1].0 - g.phantoms[0].0;
        g.v_advance_from_phantoms = g.phantoms[2].1 - g.phantoms[3].1;
        g
    }

    pub fn points(&self) -> Vec<&Pt> {
        match &self.kind {
            InstKind::Simple { contours } => contours.iter().flatten().collect(),
            _ => vec![],
        }
    }
}

/// A glyph resolved through its component graph.
///
/// Coordinates are in the glyf coordinate system. A rasteriser places the first phantom
/// point at the pen origin, i.e. draws the outline shifted by `-phantoms[0].0`; that value
/// is 0 whenever hmtx.lsb == xMin (which is what fontc writes) and is *not* applied here;
/// see [`Resolved::rendered_contours`].
#[derive(Clone, Debug, PartialEq, Serialize)]
pub struct Resolved {
    pub contours: Vec<Contour>,
    /// Phantom points, honouring USE_MY_METRICS (taken from that component, untransformed).
    pub phantoms: [(f64, f64); 4],
    /// `phantoms[1].x - phantoms[0].x`
    pub advance: f64,
    /// Deepest nesting reached (0 = simple glyph).
    pub depth: usize,
    /// A component with a transform and SCALED_COMPONENT_OFFSET was met (rasterisers
    /// disagree on that flag; see [`VFont::resolve`]).
    pub used_scaled_offset: bool,
    /// A component positioned by point matching was met.
    pub used_point_matching: bool,
    /// A component with a non-identity 2x2 was met.
    pub used_transform: bool,
}

impl Resolved {
    /// The contours as a rasteriser draws them: shifted so that the first phantom point is
    /// at x = 0.
    pub fn rendered_contours(&self) -> Vec<Contour> {
        let shift = self.phantoms[0].0;
        self.contours
            .iter()
            .map(|c| {
                c.iter()
                    .map(|p| Pt { x: p.x - shift, y: p.y, on: p.on })
                    .collect()
            })
            .collect()
    }
}

#[derive(Clone, Debug)]
struct MetricsVar {
    store: ItemVarStore,
    advance_map: Option<DeltaSetIndexMap>,
    /// lsb (HVAR) / tsb (VVAR)
    sb1_map: Option<DeltaSetIndexMap>,
    /// rsb (HVAR) / bsb (VVAR)
    sb2_map: Option<DeltaSetIndexMap>,
    vorg_map: Option<DeltaSetIndexMap>,
}

/// Description of HVAR/VVAR for non-vacuity reporting.
#[derive(Clone, Debug, Default, PartialEq, Serialize)]
pub struct MetricsVarInfo {
    pub present: bool,
    /// An advance DeltaSetIndexMap is present (indirect store).
    pub indirect: bool,
    pub map_format: Option<u8>,
    pub map_entry_format: Option<u8>,
    pub map_count: usize,
    pub subtables: usize,
    pub regions: usize,
    pub has_side_bearing_maps: bool,
}

#[derive(Clone, Debug)]
struct LongMetrics {
    /// (advance, side bearing) for the first numberOfLongMetrics glyphs
    long: Vec<(u16, i16)>,
    /// trailing side bearings
    bearings: Vec<i16>,
}

impl LongMetrics {
    fn parse(data: &[u8], n_long: usize, num_glyphs: usize) -> Result<Self, String> {
        let r = Rd::new(data);
        let mut long = Vec::with_capacity(n_long);
        for i in 0..n_long {
            long.push((r.u16(4 * i)?, r.i16(4 * i + 2)?));
        }
        let mut bearings = vec![];
        for i in 0..num_glyphs.saturating_sub(n_long) {
            // The trailing array is optional in practice; stop at the end of the table.
            match r.i16(4 * n_long + 2 * i) {
                Ok(v) => bearings.push(v),
                Err(_) => break,
            }
        }
        Ok(LongMetrics { long, bearings })
    }
    fn advance(&self, gid: u16) -> u16 {
        match self.long.get(gid as usize) {
            Some(m) => m.0,
            // glyphs beyond numberOfLongMetrics have the last advance
            None => self.long.last().map(|m| m.0).unwrap_or(0),
        }
    }
    fn bearing(&self, gid: u16) -> i16 {
        match self.long.get(gid as usize) {
            Some(m) => m.1,
            None => self
                .bearings
                .get(gid as usize - self.long.len())
                .copied()
                .unwrap_or(0),
        }
    }
}

pub struct VFont<'a> {
    font: FontRef<'a>,
    num_glyphs: u16,
    units_per_em: u16,
    axes: Axes,
    glyf: Option<&'a [u8]>,
    loca: Option<&'a [u8]>,
    loca_long: bool,
    gvar: Option<Gvar<'a>>,
    hmtx: Option<LongMetrics>,
    vmtx: Option<LongMetrics>,
    hvar: Option<MetricsVar>,
    vvar: Option<MetricsVar>,
    mvar: Option<(ItemVarStore, Vec<(String, u16, u16)>)>,
    gdef_store: Option<ItemVarStore>,
}

fn table<'a>(font: &FontRef<'a>, tag: &[u8; 4]) -> Option<&'a [u8]> {
    font.table_data(Tag::new(tag)).map(|d| d.as_bytes())
}

fn parse_metrics_var(data: &[u8], vertical: bool) -> Result<MetricsVar, String> {
    let r = Rd::new(data);
    let major = r.u16(0)?;
    if major != 1 {
        return Err(format!("HVAR/VVAR major version {major}"));
    }
    let store_off = r.u32(4)? as usize;
    if store_off == 0 {
        return Err("HVAR/VVAR without an ItemVariationStore".into());
    }
    let store = ItemVarStore::parse(r.from(store_off)?.data)?;
    let map_at = |field_off: usize| -> Result<Option<DeltaSetIndexMap>, String> {
        let o = r.u32(field_off)? as usize;
        if o == 0 {
            return Ok(None);
        }
        Ok(Some(DeltaSetIndexMap::parse(r.from(o)?.data)?))
    };
    Ok(MetricsVar {
        store,
        advance_map: map_at(8)?,
        sb1_map: map_at(12)?,
        sb2_map: map_at(16)?,
        vorg_map: if vertical { map_at(20)? } else { None },
    })
}

impl MetricsVar {
    fn info(&self) -> MetricsVarInfo {
        MetricsVarInfo {
            present: true,
            indirect: self.advance_map.is_some(),
            map_format: self.advance_map.as_ref().map(|m| m.format),
            map_entry_format: self.advance_map.as_ref().map(|m| m.entry_format),
            map_count: self.advance_map.as_ref().map(|m| m.entries.len()).unwrap_or(0),
            subtables: self.store.data.len(),
            regions: self.store.regions.len(),
            has_side_bearing_maps: self.sb1_map.is_some() || self.sb2_map.is_some(),
        }
    }
    /// Advance delta: through the map if there is one, else implicit (outer 0, inner gid).
    fn advance_indices(&self, gid: u16) -> Option<(u16, u16)> {
        match &self.advance_map {
            Some(m) => m.get(gid as u32),
            None => Some((0, gid)),
        }
    }
    fn advance_delta(&self, gid: u16, coords: &[f64]) -> Option<f64> {
        let (o, i) = self.advance_indices(gid)?;
        self.store.delta(o, i, coords)
    }
    fn mapped_delta(
        &self,
        map: &Option<DeltaSetIndexMap>,
        gid: u16,
        coords: &[f64],
    ) -> Option<f64> {
        let (o, i) = map.as_ref()?.get(gid as u32)?;
        self.store.delta(o, i, coords)
    }
}

impl<'a> VFont<'a> {
    pub fn new(bytes: &'a [u8]) -> Result<Self, String> {
        let font = FontRef::new(bytes).map_err(|e| format!("sfnt: {e}"))?;
        let maxp = table(&font, b"maxp").ok_or("no maxp")?;
        let num_glyphs = Rd::new(maxp).u16(4)?;
        let head = table(&font, b"head").ok_or("no head")?;
        let units_per_em = Rd::new(head).u16(18)?;
        let loca_long = match Rd::new(head).i16(50)? {
            0 => false,
            1 => true,
            v => return Err(format!("head.indexToLocFormat {v}")),
        };
        let axes = Axes::parse(table(&font, b"fvar"), table(&font, b"avar"))?;
        let glyf = table(&font, b"glyf");
        let loca = table(&font, b"loca");
        let gvar = match table(&font, b"gvar") {
            Some(d) => {
                let g = Gvar::parse(d)?;
                if g.axis_count != axes.axes.len() {
                    return Err(format!(
                        "gvar axisCount {} != fvar axisCount {}",
                        g.axis_count,
                        axes.axes.len()
                    ));
                }
                if g.glyph_count != num_glyphs as usize {
                    return Err(format!(
                        "gvar glyphCount {} != maxp numGlyphs {num_glyphs}",
                        g.glyph_count
                    ));
                }
                Some(g)
            }
            None => None,
        };
        let hmtx = match (table(&font, b"hhea"), table(&font, b"hmtx")) {
            (Some(hhea), Some(hmtx)) => {
                let n = Rd::new(hhea).u16(34)? as usize;
                Some(LongMetrics::parse(hmtx, n, num_glyphs as usize)?)
            }
            _ => None,
        };
        let vmtx = match (table(&font, b"vhea"), table(&font, b"vmtx")) {
            (Some(vhea), Some(vmtx)) => {
                let n = Rd::new(vhea).u16(34)? as usize;
                Some(LongMetrics::parse(vmtx, n, num_glyphs as usize)?)
            }
            _ => None,
        };
        let hvar = table(&font, b"HVAR")
            .map(|d| parse_metrics_var(d, false))
            .transpose()?;
        let vvar = table(&font, b"VVAR")
            .map(|d| parse_metrics_var(d, true))
            .transpose()?;
        let mvar = match table(&font, b"MVAR") {
            Some(d) => {
                let r = Rd::new(d);
                let rec_size = r.u16(6)? as usize;
                let rec_count = r.u16(8)? as usize;
                let store_off = r.u16(10)? as usize;
                if rec_count > 0 && rec_size < 8 {
                    return Err(format!("MVAR valueRecordSize {rec_size} < 8"));
                }
                let mut recs = Vec::with_capacity(rec_count);
                for i in 0..rec_count {
                    let o = 12 + i * rec_size;
                    recs.push((r.tag(o)?, r.u16(o + 4)?, r.u16(o + 6)?));
                }
                if store_off == 0 {
                    if rec_count > 0 {
                        return Err("MVAR has value records but no ItemVariationStore".into());
                    }
                    None
                } else {
                    Some((ItemVarStore::parse(r.from(store_off)?.data)?, recs))
                }
            }
            None => None,
        };
        let gdef_store = match table(&font, b"GDEF") {
            Some(d) => {
                let r = Rd::new(d);
                let (major, minor) = (r.u16(0)?, r.u16(2)?);
                if major == 1 && minor >= 3 {
                    let o = r.u32(14)? as usize;
                    if o != 0 {
                        Some(ItemVarStore::parse(r.from(o)?.data)?)
                    } else {
                        None
                    }
                } else {
                    None
                }
            }
            None => None,
        };
        Ok(VFont {
            font,
            num_glyphs,
            units_per_em,
            axes,
            glyf,
            loca,
            loca_long,
            gvar,
            hmtx,
            vmtx,
            hvar,
            vvar,
            mvar,
            gdef_store,
        })
    }

    pub fn num_glyphs(&self) -> u16 {
        self.num_glyphs
    }

    pub fn units_per_em(&self) -> u16 {
        self.units_per_em
    }

    /// Glyph names from post (version 2 strings or the standard Macintosh set); "gidN" when
    /// post has no name for a glyph. (post decoding is delegated to read-fonts: it is table
    /// parsing, not evaluation.)
    pub fn glyph_names(&self) -> Vec<String> {
        let post = self.font.post().ok();
        (0..self.num_glyphs)
            .map(|g| {
                post.as_ref()
                    .and_then(|p| p.glyph_name(GlyphId16::new(g)))
                    .map(|s| s.to_string())
                    .unwrap_or_else(|| format!("gid{g}"))
            })
            .collect()
    }

    pub fn gid_for_name(&self, name: &str) -> Option<u16> {
        self.glyph_names()
            .iter()
            .position(|n| n == name)
            .map(|i| i as u16)
    }

    pub fn axes(&self) -> Vec<AxisInfo> {
        self.axes.axes.clone()
    }

    /// The decoded fvar/avar data (instances, raw segment maps).
    pub fn axes_data(&self) -> &Axes {
        &self.axes
    }

    /// User location (missing axes at default) -> normalized coordinates per fvar axis,
    /// already quantised to F2Dot14. Order of operations per the spec: 16.16 default
    /// normalisation, avar in 16.16, then conversion to 2.14. See [`crate::axes`].
    pub fn normalize(&self, user: &[(String, f64)]) -> Vec<f64> {
        self.axes.normalize(user)
    }

    pub fn normalize_no_avar(&self, user: &[(String, f64)]) -> Vec<f64> {
        self.axes.normalize_no_avar(user)
    }

    /// avar segment map of `axis_index` applied to a normalized value, exact f64.
    pub fn avar_map(&self, axis_index: usize, v: f64) -> f64 {
        self.axes.avar_map(axis_index, v)
    }

    pub fn has_gvar(&self) -> bool {
        self.gvar.is_some()
    }

    /// Decoded glyf entry of `gid`.
    pub fn raw_glyph(&self, gid: u16) -> Result<RawGlyph, String> {
        if gid >= self.num_glyphs {
            return Err(format!("gid {gid} >= numGlyphs {}", self.num_glyphs));
        }
        let (glyf, loca) = match (self.glyf, self.loca) {
            (Some(g), Some(l)) => (g, l),
            _ => return Err("no glyf/loca".into()),
        };
        let (a, b) = glyf::loca_range(loca, self.loca_long, gid)?;
        let data = glyf
            .get(a..b)
            .ok_or_else(|| format!("loca range {a}..{b} of gid {gid} outside glyf"))?;
        glyf::parse_glyph(data)
    }

    /// Decoded tuple variations of `gid` (empty without gvar data).
    pub fn glyph_tuples(&self, gid: u16) -> Result<Vec<TupleVar>, String> {
        let raw = self.raw_glyph(gid)?;
        match &self.gvar {
            Some(g) => g.glyph_tuples(gid, raw.gvar_point_count() + 4),
            None => Ok(vec![]),
        }
    }

    /// Default phantom points (spec, "Phantom points"): pp1 = (xMin - lsb, 0),
    /// pp2 = (pp1.x + advanceWidth, 0), pp3 = (0, yMax + tsb), pp4 = (0, pp3.y - advanceHeight).
    /// Without vmtx the vertical pair uses tsb = 0 and advanceHeight = 0 (the spec leaves the
    /// fallback to the rasteriser; only their deltas are meaningful then).
    fn default_phantoms(&self, gid: u16, raw: &RawGlyph) -> [(f64, f64); 4] {
        let (adv, lsb) = match &self.hmtx {
            Some(m) => (m.advance(gid) as f64, m.bearing(gid) as f64),
            None => (0.0, 0.0),
        };
        let (vadv, tsb) = match &self.vmtx {
            Some(m) => (m.advance(gid) as f64, m.bearing(gid) as f64),
            None => (0.0, 0.0),
        };
        let p1x = raw.x_min as f64 - lsb;
        let p3y = raw.y_max as f64 + tsb;
        [(p1x, 0.0), (p1x + adv, 0.0), (0.0, p3y), (0.0, p3y - vadv)]
    }

    /// One glyph at normalized `coords` (missing trailing axes = 0; values are used as given,
    /// pass [`VFont::normalize`] output or other k/16384 values): simple glyph points
    /// after gvar deltas, or component offsets after deltas, plus the phantom points. No
    /// rounding is applied; see [`InstGlyph::rounded`].
    ///
    /// Per tuple: scalar from peak/intermediate region; deltas of unreferenced points of a
    /// simple glyph are inferred per contour and per coordinate from the ORIGINAL outline
    /// (IUP); unreferenced components and phantom points get no delta; then
    /// `scalar * delta` is accumulated, unrounded, over all tuples.
    pub fn glyph_at(&self, gid: u16, coords: &[f64]) -> Result<InstGlyph, String> {
        let raw = self.raw_glyph(gid)?;
        let n_real = raw.gvar_point_count();
        let n = n_real + 4;
        let ph0 = self.default_phantoms(gid, &raw);

        // Original coordinates of everything gvar addresses.
        let mut ox = Vec::with_capacity(n);
        let mut oy = Vec::with_capacity(n);
        match &raw.kind {
            RawGlyphKind::Empty => {}
            RawGlyphKind::Simple { points, .. } => {
                for p in points {
                    ox.push(p.x as f64);
                    oy.push(p.y as f64);
                }
            }
            RawGlyphKind::Composite { components } => {
                for c in components {
                    if c.flags & glyf::ARGS_ARE_XY_VALUES != 0 {
                        ox.push(c.arg1 as f64);
                        oy.push(c.arg2 as f64);
                    } else {
                        ox.push(0.0);
                        oy.push(0.0);
                    }
                }
            }
        }
        for p in ph0 {
            ox.push(p.0);
            oy.push(p.1);
        }

        let tuples = match &self.gvar {
            Some(g) => g.glyph_tuples(gid, n)?,
            None => vec![],
        };
        let mut tx = vec![0.0f64; n];
        let mut ty = vec![0.0f64; n];
        let mut tuple_scalars = Vec::with_capacity(tuples.len());
        for t in &tuples {
            let scalar = t.scalar(coords);
            tuple_scalars.push(scalar);
            if scalar == 0.0 {
                continue;
            }
            // explicit deltas
            let mut ex: Vec<Option<f64>> = vec![None; n];
            let mut ey: Vec<Option<f64>> = vec![None; n];
            match &t.points {
                None => {
                    for i in 0..n {
                        ex[i] = Some(t.dx[i] as f64);
                        ey[i] = Some(t.dy[i] as f64);
                    }
                }
                Some(pts) => {
                    for (k, &p) in pts.iter().enumerate() {
                        ex[p as usize] = Some(t.dx[k] as f64);
                        ey[p as usize] = Some(t.dy[k] as f64);
                    }
                }
            }
            // full per-point deltas for this tuple
            let mut fx = vec![0.0f64; n];
            let mut fy = vec![0.0f64; n];
            if let RawGlyphKind::Simple { end_pts, .. } = &raw.kind {
                let mut start = 0usize;
                for &e in end_pts {
                    let end = e as usize + 1;
                    let ix = iup_contour_1d(&ox[start..end], &ex[start..end]);
                    let iy = iup_contour_1d(&oy[start..end], &ey[start..end]);
                    fx[start..end].copy_from_slice(&ix);
                    fy[start..end].copy_from_slice(&iy);
                    start = end;
                }
                // phantom points belong to no contour: explicit delta or nothing
                for i in n_real..n {
                    fx[i] = ex[i].unwrap_or(0.0);
                    fy[i] = ey[i].unwrap_or(0.0);
                }
            } else {
                for i in 0..n {
                    fx[i] = ex[i].unwrap_or(0.0);
                    fy[i] = ey[i].unwrap_or(0.0);
                }
            }
            for i in 0..n {
                tx[i] += scalar * fx[i];
                ty[i] += scalar * fy[i];
            }
        }

        let kind = match &raw.kind {
            RawGlyphKind::Empty => InstKind::Empty,
            RawGlyphKind::Simple { points, end_pts } => {
                let mut contours = Vec::with_capacity(end_pts.len());
                let mut start = 0usize;
                for &e in end_pts {
                    let end = e as usize + 1;
                    contours.push(
                        (start..end)
                            .map(|i| Pt {
                                x: ox[i] + tx[i],
                                y: oy[i] + ty[i],
                                on: points[i].on,
                            })
                            .collect(),
                    );
                    start = end;
                }
                InstKind::Simple { contours }
            }
            RawGlyphKind::Composite { components } => InstKind::Composite {
                components: components
                    .iter()
                    .enumerate()
                    .map(|(i, c)| {
                        // Deltas move the offset only when the arguments are offsets.
                        let is_xy = c.flags & glyf::ARGS_ARE_XY_VALUES != 0;
                        Comp {
                            gid: c.gid,
                            dx: if is_xy { ox[i] + tx[i] } else { 0.0 },
                            dy: if is_xy { oy[i] + ty[i] } else { 0.0 },
                            xx: c.xx,
                            yx: c.yx,
                            xy: c.xy,
                            yy: c.yy,
                            flags: c.flags,
                            arg1: c.arg1,
                            arg2: c.arg2,
                        }
                    })
                    .collect(),
            },
        };
        let mut phantoms = [(0.0, 0.0); 4];
        let mut phantom_deltas = [(0.0, 0.0); 4];
        for k in 0..4 {
            let i = n_real + k;
            phantoms[k] = (ox[i] + tx[i], oy[i] + ty[i]);
            phantom_deltas[k] = (tx[i], ty[i]);
        }
        Ok(InstGlyph {
            kind,
            advance_from_phantoms: phantoms[1].0 - phantoms[0].0,
            v_advance_from_phantoms: phantoms[2].1 - phantoms[3].1,
            phantoms,
            phantom_deltas,
            tuple_scalars,
        })
    }

    /// Fully resolved outline of `gid` through the component graph at `coords`.
    pub fn resolve_outline(&self, gid: u16, coords: &[f64]) -> Result<Vec<Contour>, String> {
        Ok(self.resolve(gid, coords)?.contours)
    }

    /// Outline, phantom points and advance through the component graph.
    ///
    /// Per component (spec, glyf "Composite glyph description"): the component's own
    /// resolved outline is transformed by the 2x2 (x' = xx*x + xy*y, y' = yx*x + yy*y) and
    /// then translated by the offset. With ARGS_ARE_XY_VALUES the offset is (arg1, arg2)
    /// plus gvar deltas; if the component has a transform and SCALED_COMPONENT_OFFSET is set
    /// (and UNSCALED_COMPONENT_OFFSET is not) the offset vector is itself put through the
    /// 2x2 (the spec's "offset in the component's coordinate system"; FreeType and skrifa use
    /// an approximation instead, so [`Resolved::used_scaled_offset`] is reported). Without
    /// ARGS_ARE_XY_VALUES the offset makes point `arg2` of the transformed component
    /// coincide with point `arg1` of the parent outline built so far.
    /// USE_MY_METRICS replaces the parent's phantom points by the component's.
    /// No rounding anywhere (ROUND_XY_TO_GRID concerns grid-fitting only).
    /// Errors on a component cycle or nesting deeper than [`MAX_COMPONENT_DEPTH`].
    pub fn resolve(&self, gid: u16, coords: &[f64]) -> Result<Resolved, String> {
        let mut stack = Vec::new();
        self.resolve_inner(gid, coords, &mut stack)
    }

    fn resolve_inner(
        &self,
        gid: u16,
        coords: &[f64],
        stack: &mut Vec<u16>,
    ) -> Result<Resolved, String> {
        if stack.contains(&gid) {
            return Err(format!("component cycle: {stack:?} -> {gid}"));
        }
        if stack.len() > MAX_COMPONENT_DEPTH {
            return Err(format!("component nesting deeper than {MAX_COMPONENT_DEPTH}: {stack:?}"));
        }
        let g = self.glyph_at(gid, coords)?;
        let mut out = Resolved {
            contours: vec![],
            phantoms: g.phantoms,
            advance: 0.0,
            depth: 0,
            used_scaled_offset: false,
            used_point_matching: false,
            used_transform: false,
        };
        match g.kind {
            InstKind::Empty => {}
            InstKind::Simple { contours } => out.contours = contours,
            InstKind::Composite { components } => {
                stack.push(gid);
                for c in &components {
                    let sub = self.resolve_inner(c.gid, coords, stack)?;
                    out.depth = out.depth.max(sub.depth + 1);
                    out.used_scaled_offset |= sub.used_scaled_offset;
                    out.used_point_matching |= sub.used_point_matching;
                    out.used_transform |= sub.used_transform;
                    let has_xf = c.flags
                        & (glyf::WE_HAVE_A_SCALE
                            | glyf::WE_HAVE_AN_X_AND_Y_SCALE
                            | glyf::WE_HAVE_A_TWO_BY_TWO)
                        != 0;
                    if has_xf && (c.xx, c.yx, c.xy, c.yy) != (1.0, 0.0, 0.0, 1.0) {
                        out.used_transform = true;
                    }
                    let xf = |x: f64, y: f64| (c.xx * x + c.xy * y, c.yx * x + c.yy * y);
                    let mut sub_contours: Vec<Contour> = sub
                        .contours
                        .iter()
                        .map(|ct| {
                            ct.iter()
                                .map(|p| {
                                    let (x, y) = xf(p.x, p.y);
                                    Pt { x, y, on: p.on }
                                })
                                .collect()
                        })
                        .collect();
                    let (ox, oy) = if c.flags & glyf::ARGS_ARE_XY_VALUES != 0 {
                        let scaled = c.flags & glyf::SCALED_COMPONENT_OFFSET != 0
                            && c.flags & glyf::UNSCALED_COMPONENT_OFFSET == 0;
                        if has_xf && scaled {
                            out.used_scaled_offset = true;
                            xf(c.dx, c.dy)
                        } else {
                            (c.dx, c.dy)
                        }
                    } else {
                        out.used_point_matching = true;
                        let parent_pt = out
                            .contours
                            .iter()
                            .flatten()
                            .nth(c.arg1 as usize)
                            .ok_or_else(|| {
                                format!("gid {gid}: anchor point {} not in parent", c.arg1)
                            })?;
                        let child_pt = sub_contours
                            .iter()
                            .flatten()
                            .nth(c.arg2 as usize)
                            .ok_or_else(|| {
                                format!("gid {gid}: anchor point {} not in component {}", c.arg2, c.gid)
                            })?;
                        (parent_pt.x - child_pt.x, parent_pt.y - child_pt.y)
                    };
                    for p in sub_contours.iter_mut().flatten() {
                        p.x += ox;
                        p.y += oy;
                    }
                    out.contours.extend(sub_contours);
                    if c.flags & glyf::USE_MY_METRICS != 0 {
                        out.phantoms = sub.phantoms;
                    }
                }
                stack.pop();
            }
        }
        out.advance = out.phantoms[1].0 - out.phantoms[0].0;
        Ok(out)
    }

    /// hmtx advance of `gid` (glyphs past numberOfHMetrics repeat the last advance).
    pub fn h_advance_default(&self, gid: u16) -> f64 {
        self.hmtx.as_ref().map(|m| m.advance(gid) as f64).unwrap_or(0.0)
    }

    pub fn h_lsb_default(&self, gid: u16) -> f64 {
        self.hmtx.as_ref().map(|m| m.bearing(gid) as f64).unwrap_or(0.0)
    }

    /// HVAR advance delta (through the advance DeltaSetIndexMap if present, else implicit
    /// outer 0 / inner gid); `None` without HVAR or when the indices address no delta set.
    pub fn h_advance_delta(&self, gid: u16, coords: &[f64]) -> Option<f64> {
        self.hvar.as_ref()?.advance_delta(gid, coords)
    }

    /// The (outer, inner) delta-set indices HVAR uses for the advance of `gid`.
    pub fn h_advance_var_index(&self, gid: u16) -> Option<(u16, u16)> {
        self.hvar.as_ref()?.advance_indices(gid)
    }

    /// hmtx advance + HVAR delta, unrounded. Without HVAR this is the hmtx advance.
    pub fn h_advance_at(&self, gid: u16, coords: &[f64]) -> f64 {
        self.h_advance_default(gid) + self.h_advance_delta(gid, coords).unwrap_or(0.0)
    }

    /// hmtx lsb + HVAR lsb delta; `None` unless HVAR has an lsb mapping.
    pub fn h_lsb_at(&self, gid: u16, coords: &[f64]) -> Option<f64> {
        let h = self.hvar.as_ref()?;
        let d = h.mapped_delta(&h.sb1_map, gid, coords)?;
        Some(self.h_lsb_default(gid) + d)
    }

    /// HVAR rsb delta; `None` unless HVAR has an rsb mapping.
    pub fn h_rsb_delta(&self, gid: u16, coords: &[f64]) -> Option<f64> {
        let h = self.hvar.as_ref()?;
        h.mapped_delta(&h.sb2_map, gid, coords)
    }

    pub fn v_advance_default(&self, gid: u16) -> Option<f64> {
        self.vmtx.as_ref().map(|m| m.advance(gid) as f64)
    }

    pub fn v_tsb_default(&self, gid: u16) -> Option<f64> {
        self.vmtx.as_ref().map(|m| m.bearing(gid) as f64)
    }

    pub fn v_advance_delta(&self, gid: u16, coords: &[f64]) -> Option<f64> {
        self.vvar.as_ref()?.advance_delta(gid, coords)
    }

    /// vmtx advance + VVAR delta, unrounded; `None` without vmtx.
    pub fn v_advance_at(&self, gid: u16, coords: &[f64]) -> Option<f64> {
        Some(self.v_advance_default(gid)? + self.v_advance_delta(gid, coords).unwrap_or(0.0))
    }

    /// vmtx tsb + VVAR tsb delta; `None` unless VVAR has a tsb mapping.
    pub fn v_tsb_at(&self, gid: u16, coords: &[f64]) -> Option<f64> {
        let v = self.vvar.as_ref()?;
        let d = v.mapped_delta(&v.sb1_map, gid, coords)?;
        Some(self.v_tsb_default(gid)? + d)
    }

    /// VVAR vertical-origin delta; `None` unless VVAR has a vOrg mapping.
    pub fn v_org_delta(&self, gid: u16, coords: &[f64]) -> Option<f64> {
        let v = self.vvar.as_ref()?;
        v.mapped_delta(&v.vorg_map, gid, coords)
    }

    pub fn hvar_info(&self) -> MetricsVarInfo {
        self.hvar.as_ref().map(|h| h.info()).unwrap_or_default()
    }

    pub fn vvar_info(&self) -> MetricsVarInfo {
        self.vvar.as_ref().map(|h| h.info()).unwrap_or_default()
    }

    pub fn hvar_store(&self) -> Option<&ItemVarStore> {
        self.hvar.as_ref().map(|h| &h.store)
    }

    /// MVAR delta of a value tag at `coords`; 0 when the tag (or MVAR) is absent.
    pub fn mvar_delta(&self, tag: &str, coords: &[f64]) -> f64 {
        let Some((store, recs)) = &self.mvar else {
            return 0.0;
        };
        match recs.iter().find(|(t, _, _)| t == tag) {
            Some(&(_, o, i)) => store.delta(o, i, coords).unwrap_or(0.0),
            None => 0.0,
        }
    }

    /// Value tags present in MVAR, in table order.
    pub fn mvar_tags(&self) -> Vec<String> {
        match &self.mvar {
            Some((_, recs)) => recs.iter().map(|(t, _, _)| t.clone()).collect(),
            None => vec![],
        }
    }

    pub fn mvar_store(&self) -> Option<&ItemVarStore> {
        self.mvar.as_ref().map(|m| &m.0)
    }

    /// Delta for a VariationIndex (outer, inner) from the GDEF ItemVariationStore, as used
    /// by GDEF/GPOS VariationIndex tables. `None` without a store or for indices that
    /// address nothing (0xFFFF/0xFFFF included).
    pub fn gdef_delta(&self, outer: u16, inner: u16, coords: &[f64]) -> Option<f64> {
        self.gdef_store.as_ref()?.delta(outer, inner, coords)
    }

    pub fn gdef_store(&self) -> Option<&ItemVarStore> {
        self.gdef_store.as_ref()
    }

    /// Counters about the glyph's gvar data. A glyph that cannot be decoded yields zeros.
    pub fn gvar_stats(&self, gid: u16) -> GvarStats {
        let mut s = GvarStats::default();
        let Ok(raw) = self.raw_glyph(gid) else {
            return s;
        };
        let Ok(tuples) = self.glyph_tuples(gid) else {
            return s;
        };
        let n_real = raw.gvar_point_count();
        let is_simple = matches!(raw.kind, RawGlyphKind::Simple { .. });
        for t in &tuples {
            s.tuples += 1;
            if t.intermediate.is_some() {
                s.intermediate += 1;
            }
            if t.embedded_peak {
                s.embedded_peak += 1;
            }
            if t.private_points {
                s.private_points += 1;
            } else {
                s.shared_points += 1;
            }
            match &t.points {
                None => s.all_points += 1,
                Some(p) => {
                    if t.private_points {
                        s.private_explicit += 1;
                    } else {
                        s.shared_explicit += 1;
                    }
                    if is_simple {
                        let referenced = p.iter().filter(|&&p| (p as usize) < n_real).count();
                        let omitted = n_real - referenced;
                        s.points_omitted += omitted;
                        if omitted > 0 {
                            s.tuples_with_omitted += 1;
                        }
                    }
                }
            }
        }
        s
    }

    /// Sum of [`VFont::gvar_stats`] over all glyphs, plus gvar header facts.
    pub fn gvar_stats_total(&self) -> (GvarStats, bool, usize) {
        let mut t = GvarStats::default();
        for g in 0..self.num_glyphs {
            let s = self.gvar_stats(g);
            t.tuples += s.tuples;
            t.intermediate += s.intermediate;
            t.embedded_peak += s.embedded_peak;
            t.private_points += s.private_points;
            t.shared_points += s.shared_points;
            t.all_points += s.all_points;
            t.private_explicit += s.private_explicit;
            t.shared_explicit += s.shared_explicit;
            t.points_omitted += s.points_omitted;
            t.tuples_with_omitted += s.tuples_with_omitted;
        }
        let (long, shared) = match &self.gvar {
            Some(g) => (g.long_offsets, g.shared_tuples.len()),
            None => (false, 0),
        };
        (t, long, shared)
    }
}
