//! Second opinion: the same glyph at the same location through skrifa, compared with
//! [`VFont::resolve`]. skrifa is used *only* here; a disagreement beyond the derived
//! tolerance means one of the two evaluators is wrong and must be treated as a machinery
//! error by callers, never as a property violation.
//!
//! Two skrifa code paths are compared:
//!
//! * **unrounded** (`PathStyle::HarfBuzz`, `Size::unscaled()`): skrifa accumulates deltas in
//!   f32 with tuple scalars computed in 16.16 and applies no rounding. The difference to our
//!   f64 result is bounded by the 16.16 scalar error times the delta magnitudes plus a few
//!   f32 ulps: see [`CrossCheck::unrounded_tolerance`].
//! * **rounded** (`PathStyle::FreeType`, `Size::unscaled()`): skrifa, like FreeType,
//!   accumulates a glyph's deltas in 16.16 and rounds the *sum* to an integer per point;
//!   component offset deltas are rounded as well, and a component 2x2 is applied in integer
//!   arithmetic (every product rounded). So each nesting level contributes at most 0.5 (+0.5
//!   per non-zero 2x2 entry of a row), scaled by the transforms above it:
//!   [`CrossCheck::rounded_tolerance`].
//!
//! Advances: `GlyphMetrics::advance_width` is hmtx + the HVAR delta rounded to an integer
//! (read-fonts `compute_delta`; skrifa's subsequent truncation is then a no-op), or, without
//! HVAR, + the separately rounded gvar deltas of the two horizontal phantom points; so it
//! differs from our unrounded advance by <= 0.5 (resp. 1) + the 16.16 error.

use crate::font::{Contour, InstKind, VFont};
use crate::glyf;
use skrifa::instance::{LocationRef, Size};
use skrifa::outline::pen::PathStyle;
use skrifa::outline::{DrawSettings, OutlinePen};
use skrifa::raw::types::F2Dot14;
use skrifa::{FontRef, GlyphId, MetadataProvider};

/// Result of comparing one glyph at one location.
#[derive(Clone, Debug, Default)]
pub struct CrossCheck {
    /// max |ours - skrifa| over all outline coordinates, skrifa unrounded (f32) path.
    pub unrounded_diff: f64,
    /// Derived allowance for `unrounded_diff`.
    pub unrounded_tolerance: f64,
    /// max |ours(unrounded) - skrifa| over all outline coordinates, skrifa FreeType path.
    pub rounded_diff: f64,
    /// Derived allowance for `rounded_diff`.
    pub rounded_tolerance: f64,
    /// |ours - skrifa| for the advance taken from the phantom points of the drawn outline
    /// (USE_MY_METRICS honoured). skrifa's FreeType path is used (its HarfBuzz-style scaler
    /// does not carry the gvar phantom deltas of a simple glyph into the reported advance),
    /// which rounds both phantom points: allowance 1 + `unrounded_tolerance`.
    pub phantom_advance_diff: f64,
    /// |ours - skrifa| for the x of the first phantom point (the rendering origin), skrifa's
    /// FreeType path (rounded): allowance 0.5 + `unrounded_tolerance`.
    pub phantom_origin_diff: f64,
    /// |h_advance_at (hmtx+HVAR, or hmtx + gvar phantom delta without HVAR) -
    /// skrifa glyph_metrics.advance_width|. read-fonts rounds the HVAR delta to an integer
    /// (16.16 accumulation), so the allowance is 0.5 + `metrics_advance_tolerance`.
    pub metrics_advance_diff: f64,
    /// 16.16 error allowance of the HVAR (or gvar phantom) delta of this glyph.
    pub metrics_advance_tolerance: f64,
    /// False when the advance delta is beyond +-32767: read-fonts carries it as Fixed 16.16
    /// and wraps, so skrifa's advance is meaningless there and is not compared.
    pub metrics_advance_comparable: bool,
    /// Number of outline points compared (after making implied on-curve points explicit).
    pub points: usize,
    /// The glyph tree contains a component with SCALED_COMPONENT_OFFSET and a transform.
    /// skrifa (both paths) multiplies the *static* offset by a length of the transform's
    /// columns and adds the gvar delta unscaled, whereas the spec ("the offset is in the
    /// component's coordinate system") and HarfBuzz put the varied offset through the
    /// transform, as we do. The outline diffs are reported but not expected to be small.
    pub scaled_offset_differs: bool,
    /// The glyph tree contains a point-matched (anchored) component that also has a
    /// transform. skrifa's HarfBuzz-style scaler computes the anchor from the component's
    /// *untransformed* point (HarfBuzz itself, FreeType and skrifa's FreeType path match the
    /// transformed point, as we do), so `unrounded_diff` is not expected to be small there.
    pub anchored_transformed: bool,
}

impl CrossCheck {
    pub fn ok(&self) -> bool {
        (self.scaled_offset_differs
            || self.anchored_transformed
            || self.unrounded_diff <= self.unrounded_tolerance)
            && (self.scaled_offset_differs || self.rounded_diff <= self.rounded_tolerance)
            && self.phantom_advance_diff <= 1.0 + self.unrounded_tolerance
            && self.phantom_origin_diff <= 0.5 + self.unrounded_tolerance
            && (!self.metrics_advance_comparable
                || self.metrics_advance_diff <= 0.5 + self.metrics_advance_tolerance)
    }
}

#[derive(Default)]
struct CollectPen {
    contours: Vec<Vec<(f64, f64, bool)>>,
    cubic: bool,
}

impl OutlinePen for CollectPen {
    fn move_to(&mut self, x: f32, y: f32) {
        self.contours.push(vec![(x as f64, y as f64, true)]);
    }
    fn line_to(&mut self, x: f32, y: f32) {
        if let Some(c) = self.contours.last_mut() {
            c.push((x as f64, y as f64, true));
        }
    }
    fn quad_to(&mut self, cx0: f32, cy0: f32, x: f32, y: f32) {
        if let Some(c) = self.contours.last_mut() {
            c.push((cx0 as f64, cy0 as f64, false));
            c.push((x as f64, y as f64, true));
        }
    }
    fn curve_to(&mut self, _: f32, _: f32, _: f32, _: f32, _: f32, _: f32) {
        self.cubic = true;
    }
    fn close(&mut self) {}
}

/// Our contour as a cyclic sequence of tagged points with the implied on-curve points
/// (midpoints of consecutive off-curve points) made explicit, which is what a pen sees.
fn expand_implied(c: &Contour) -> Vec<(f64, f64, bool)> {
    let n = c.len();
    let mut out = Vec::with_capacity(2 * n);
    for i in 0..n {
        let p = &c[i];
        out.push((p.x, p.y, p.on));
        let q = &c[(i + 1) % n];
        if !p.on && !q.on {
            out.push(((p.x + q.x) / 2.0, (p.y + q.y) / 2.0, true));
        }
    }
    out
}

/// Drop cyclically consecutive duplicates of on-curve points (a pen path returns to its
/// start point explicitly; a source contour may or may not repeat it).
fn dedup_cyclic(mut v: Vec<(f64, f64, bool)>) -> Vec<(f64, f64, bool)> {
    let mut i = 0;
    while v.len() > 1 && i < v.len() {
        let j = (i + 1) % v.len();
        if v[i].2 && v[j].2 && v[i].0 == v[j].0 && v[i].1 == v[j].1 {
            v.remove(j);
            if j < i {
                i -= 1;
            }
        } else {
            i += 1;
        }
    }
    v
}

fn pt_dist(a: &(f64, f64, bool), b: &(f64, f64, bool)) -> f64 {
    (a.0 - b.0).abs().max((a.1 - b.1).abs())
}

/// Distance between two closed contours given as cyclic tagged point sequences: the best
/// rotation when lengths agree, otherwise the symmetric nearest-same-tag-point distance.
fn contour_diff(a: &[(f64, f64, bool)], b: &[(f64, f64, bool)]) -> Result<f64, String> {
    if a.len() == b.len() {
        let n = a.len();
        let mut best: Option<f64> = None;
        for r in 0..n {
            if (0..n).any(|i| a[i].2 != b[(i + r) % n].2) {
                continue;
            }
            let d = (0..n).map(|i| pt_dist(&a[i], &b[(i + r) % n])).fold(0.0, f64::max);
            if best.is_none_or(|b| d < b) {
                best = Some(d);
            }
        }
        if let Some(d) = best {
            return Ok(d);
        }
    }
    let one_way = |p: &[(f64, f64, bool)], q: &[(f64, f64, bool)]| -> Result<f64, String> {
        let mut worst = 0.0f64;
        for x in p {
            let m = q
                .iter()
                .filter(|y| y.2 == x.2)
                .map(|y| pt_dist(x, y))
                .fold(f64::INFINITY, f64::min);
            if !m.is_finite() {
                return Err(format!("no counterpart for point {x:?}"));
            }
            worst = worst.max(m);
        }
        Ok(worst)
    };
    Ok(one_way(a, b)?.max(one_way(b, a)?))
}

fn outline_diff(ours: &[Contour], theirs: &[Vec<(f64, f64, bool)>]) -> Result<(f64, usize), String> {
    let ours: Vec<_> = ours
        .iter()
        .filter(|c| !c.is_empty())
        .map(|c| dedup_cyclic(expand_implied(c)))
        .collect();
    let theirs: Vec<_> = theirs
        .iter()
        .filter(|c| !c.is_empty())
        .map(|c| dedup_cyclic(c.clone()))
        .collect();
    if ours.len() != theirs.len() {
        return Err(format!(
            "contour count: ours {} skrifa {}",
            ours.len(),
            theirs.len()
        ));
    }
    let mut worst = 0.0f64;
    let mut n = 0;
    for (i, (a, b)) in ours.iter().zip(&theirs).enumerate() {
        let d = contour_diff(a, b).map_err(|e| format!("contour {i}: {e}"))?;
        worst = worst.max(d);
        n += a.len();
    }
    Ok((worst, n))
}

fn draw(
    font: &FontRef,
    gid: u16,
    coords: &[F2Dot14],
    style: PathStyle,
) -> Result<(Vec<Vec<(f64, f64, bool)>>, Option<f64>, Option<f64>), String> {
    let glyph = font
        .outline_glyphs()
        .get(GlyphId::new(gid as u32))
        .ok_or_else(|| format!("skrifa: no outline for gid {gid}"))?;
    let mut pen = CollectPen::default();
    let settings =
        DrawSettings::unhinted(Size::unscaled(), LocationRef::new(coords)).with_path_style(style);
    let m = glyph
        .draw(settings, &mut pen)
        .map_err(|e| format!("skrifa draw gid {gid}: {e}"))?;
    if pen.cubic {
        return Err("skrifa emitted a cubic for a glyf outline".into());
    }
    Ok((
        pen.contours,
        m.advance_width.map(|v| v as f64),
        m.lsb.map(|v| v as f64),
    ))
}

/// Error allowances for the glyph tree under `gid`: (unrounded, rounded,
/// scaled_offset_differs, anchored_transformed).
fn tolerances(
    f: &VFont,
    gid: u16,
    coords: &[f64],
    max_coord: f64,
    depth: usize,
) -> Result<(f64, f64, bool, bool), String> {
    if depth > crate::font::MAX_COMPONENT_DEPTH {
        return Err("component nesting too deep".into());
    }
    let n_axes = f.axes().len().max(1) as f64;
    let g = f.glyph_at(gid, coords)?;
    let tuples = f.glyph_tuples(gid)?;
    // 16.16 scalar error (< n_axes * 2^-16) times the largest delta of each active tuple.
    let mut own = 0.0;
    let mut active = 0usize;
    for (t, s) in tuples.iter().zip(&g.tuple_scalars) {
        if *s != 0.0 {
            active += 1;
            let m = t.dx.iter().chain(&t.dy).map(|d| d.abs()).max().unwrap_or(0) as f64;
            own += n_axes * m / 65536.0;
        }
    }
    // f32 arithmetic on coordinates of magnitude max_coord: a few ulps per active tuple.
    let ulp = max_coord.max(1.0) * 2f64.powi(-23);
    own += 8.0 * ulp * (active as f64 + 1.0);
    match &g.kind {
        InstKind::Composite { components } => {
            let mut worst_u = own;
            let mut worst_r: f64 = 0.0;
            let mut scaled_differs = false;
            let mut anchored_xf = false;
            for c in components {
                let (cu, cr, cs, ca) = tolerances(f, c.gid, coords, max_coord, depth + 1)?;
                scaled_differs |= cs;
                anchored_xf |= ca;
                let has_xf = c.flags
                    & (glyf::WE_HAVE_A_SCALE
                        | glyf::WE_HAVE_AN_X_AND_Y_SCALE
                        | glyf::WE_HAVE_A_TWO_BY_TWO)
                    != 0;
                let norm = if has_xf {
                    (c.xx.abs() + c.xy.abs()).max(c.yx.abs() + c.yy.abs()).max(1.0)
                } else {
                    1.0
                };
                if has_xf
                    && c.flags & glyf::ARGS_ARE_XY_VALUES != 0
                    && c.flags & glyf::SCALED_COMPONENT_OFFSET != 0
                    && c.flags & glyf::UNSCALED_COMPONENT_OFFSET == 0
                {
                    scaled_differs = true;
                }
                let anchored = c.flags & glyf::ARGS_ARE_XY_VALUES == 0;
                if anchored && has_xf {
                    anchored_xf = true;
                }
                // an anchored component inherits the error of the parent point it sits on
                let anchor_u = if anchored { worst_u } else { 0.0 };
                // ... and in the rounded path both matched points are rounded values
                let anchor_r = if anchored { worst_r + 1.0 } else { 0.0 };
                worst_u = worst_u
                    .max(norm * cu + own + anchor_u + if has_xf { 4.0 * ulp } else { 0.0 });
                // child error scaled by the transform, + integer transform rounding,
                // + rounding of this level's offset delta
                // (skrifa's FreeType path multiplies integer coordinates by each 2x2 entry
                // separately and rounds every product to an integer: 0.5 per non-zero entry
                // of a row)
                let nz = |v: f64| -> f64 { if v != 0.0 { 0.5 } else { 0.0 } };
                let xf_round = if has_xf {
                    (nz(c.xx) + nz(c.xy)).max(nz(c.yx) + nz(c.yy))
                } else {
                    0.0
                };
                worst_r = worst_r.max(norm * cr + xf_round + 0.5 + own + anchor_r);
            }
            Ok((worst_u, worst_r, scaled_differs, anchored_xf))
        }
        _ => Ok((own, 0.5 + own, false, false)),
    }
}

/// Compare `gid` at normalized `coords` (values are taken as F2Dot14, i.e. rounded to
/// 1/16384) between this crate and skrifa.
pub fn crosscheck_skrifa_detail(bytes: &[u8], gid: u16, coords: &[f64]) -> Result<CrossCheck, String> {
    let vf = VFont::new(bytes)?;
    let font = FontRef::new(bytes).map_err(|e| format!("skrifa: {e}"))?;
    let n_axes = vf.axes().len();
    // Both sides must see the very same F2Dot14 coordinates.
    let mut bits: Vec<i16> = coords
        .iter()
        .map(|c| (c * 16384.0).round().clamp(-16384.0, 16384.0) as i16)
        .collect();
    bits.resize(n_axes, 0);
    let qcoords: Vec<f64> = bits.iter().map(|b| *b as f64 / 16384.0).collect();
    let scoords: Vec<F2Dot14> = bits.iter().map(|b| F2Dot14::from_bits(*b)).collect();

    let ours = vf.resolve(gid, &qcoords)?;
    let max_coord = ours
        .contours
        .iter()
        .flatten()
        .map(|p| p.x.abs().max(p.y.abs()))
        .fold(0.0, f64::max)
        .max(ours.phantoms[1].0.abs())
        .max(ours.phantoms[0].0.abs());
    let (tol_u, tol_r, scaled_offset_differs, anchored_transformed) =
        tolerances(&vf, gid, &qcoords, max_coord, 0)?;

    let (mut hb, _, hb_lsb) = draw(&font, gid, &scoords, PathStyle::HarfBuzz)?;
    let (mut ft, ft_adv, ft_lsb) = draw(&font, gid, &scoords, PathStyle::FreeType)?;
    // A rasteriser puts the first phantom point at the pen origin: skrifa shifts the drawn
    // outline by -pp1.x (non-zero only when hmtx.lsb != xMin) and reports that pp1.x as
    // "lsb". Undo the shift; `resolve` stays in glyf coordinates.
    for (outline, lsb) in [(&mut hb, hb_lsb), (&mut ft, ft_lsb)] {
        if let Some(l) = lsb {
            for p in outline.iter_mut().flatten() {
                p.0 += l;
            }
        }
    }
    let phantom_origin_diff = match ft_lsb {
        Some(l) => (l - ours.phantoms[0].0).abs(),
        None => 0.0,
    };
    let (unrounded_diff, points) = outline_diff(&ours.contours, &hb)?;
    let (rounded_diff, _) = outline_diff(&ours.contours, &ft)?;
    let phantom_advance_diff = match ft_adv {
        Some(a) => (a - ours.advance).abs(),
        None => 0.0,
    };

    let metrics = font.glyph_metrics(Size::unscaled(), LocationRef::new(&scoords));
    let sk_adv = metrics
        .advance_width(GlyphId::new(gid as u32))
        .ok_or("skrifa: no advance")? as f64;
    let n_axes_f = n_axes.max(1) as f64;
    let mut metrics_advance_tolerance = 1e-6;
    let our_adv = match vf.h_advance_delta(gid, &qcoords) {
        Some(d) => {
            if let (Some(store), Some((o, i))) = (vf.hvar_store(), vf.h_advance_var_index(gid)) {
                let mass: f64 = store.data[o as usize].delta_sets[i as usize]
                    .iter()
                    .map(|v| (*v as f64).abs())
                    .sum();
                metrics_advance_tolerance += n_axes_f * mass / 65536.0;
            }
            vf.h_advance_default(gid) + d
        }
        None if vf.hvar_info().present => vf.h_advance_default(gid),
        // Without HVAR a rasteriser takes the advance change from the gvar phantom points
        // of the glyph itself (not of a USE_MY_METRICS component).
        None => {
            let g = vf.glyph_at(gid, &qcoords)?;
            metrics_advance_tolerance += 0.5 + tol_u;
            vf.h_advance_default(gid) + (g.phantom_deltas[1].0 - g.phantom_deltas[0].0)
        }
    };
    Ok(CrossCheck {
        unrounded_diff,
        unrounded_tolerance: tol_u,
        rounded_diff,
        rounded_tolerance: tol_r,
        phantom_advance_diff,
        phantom_origin_diff,
        metrics_advance_diff: (sk_adv - our_adv).abs(),
        metrics_advance_tolerance,
        metrics_advance_comparable: (our_adv - vf.h_advance_default(gid)).abs() < 32767.0,
        points,
        scaled_offset_differs,
        anchored_transformed,
    })
}

/// Max abs coordinate difference between [`VFont::resolve_outline`] and skrifa's unrounded
/// (f32, `PathStyle::HarfBuzz`) outline of `gid` at `coords`. No rounding is involved on
/// either side, so the expected value is tiny (see [`CrossCheck::unrounded_tolerance`] for
/// the exact allowance; 0.01 is ample for glyphs with |delta| < 100 per tuple).
pub fn crosscheck_skrifa(bytes: &[u8], gid: u16, coords: &[f64]) -> Result<f64, String> {
    Ok(crosscheck_skrifa_detail(bytes, gid, coords)?.unrounded_diff)
}
