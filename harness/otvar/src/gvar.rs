//! gvar decoding and per-glyph delta computation, from the OpenType spec chapters "gvar —
//! Glyph Variations Table" and "Tuple Variation Store" (common table formats).

use crate::ivs::axis_scalar;
use crate::rd::Rd;
use serde::Serialize;

// tupleVariationCount
const SHARED_POINT_NUMBERS: u16 = 0x8000;
const COUNT_MASK: u16 = 0x0FFF;
// tupleIndex
const EMBEDDED_PEAK_TUPLE: u16 = 0x8000;
const INTERMEDIATE_REGION: u16 = 0x4000;
const PRIVATE_POINT_NUMBERS: u16 = 0x2000;
const TUPLE_INDEX_MASK: u16 = 0x0FFF;
// packed point numbers
const POINTS_ARE_WORDS: u8 = 0x80;
const POINT_RUN_COUNT_MASK: u8 = 0x7F;
// packed deltas
const DELTAS_ARE_ZERO: u8 = 0x80;
const DELTAS_ARE_WORDS: u8 = 0x40;
const DELTA_RUN_COUNT_MASK: u8 = 0x3F;

/// gvar header, shared tuples and the per-glyph data locations.
#[derive(Clone, Debug)]
pub struct Gvar<'a> {
    table: Rd<'a>,
    pub axis_count: usize,
    /// `shared_tuples[i][axis]` (normalized peak coordinates).
    pub shared_tuples: Vec<Vec<f64>>,
    pub glyph_count: usize,
    pub long_offsets: bool,
    data_array_offset: usize,
}

/// One decoded tuple variation of one glyph.
#[derive(Clone, Debug, PartialEq)]
pub struct TupleVar {
    pub peak: Vec<f64>,
    /// Explicit intermediate region, when INTERMEDIATE_REGION is set.
    pub intermediate: Option<(Vec<f64>, Vec<f64>)>,
    pub embedded_peak: bool,
    pub private_points: bool,
    /// `None` = all points (including phantoms); otherwise ascending point numbers.
    pub points: Option<Vec<u16>>,
    /// x deltas then y deltas, one per referenced point, in point-number order.
    pub dx: Vec<i32>,
    pub dy: Vec<i32>,
}

impl TupleVar {
    /// Scalar of this tuple at `coords` (spec: product of per-axis scalars; when no
    /// intermediate region is given the implied region is start = min(peak,0),
    /// end = max(peak,0)).
    pub fn scalar(&self, coords: &[f64]) -> f64 {
        let mut s = 1.0;
        for (a, &peak) in self.peak.iter().enumerate() {
            let c = coords.get(a).copied().unwrap_or(0.0);
            let (start, end) = match &self.intermediate {
                Some((st, en)) => (st[a], en[a]),
                None => (peak.min(0.0), peak.max(0.0)),
            };
            let v = axis_scalar(c, start, peak, end);
            if v == 0.0 {
                return 0.0;
            }
            s *= v;
        }
        s
    }
}

/// Counters describing a glyph's variation data, for non-vacuity reporting.
#[derive(Clone, Debug, Default, PartialEq, Serialize)]
pub struct GvarStats {
    pub tuples: usize,
    pub intermediate: usize,
    pub embedded_peak: usize,
    pub private_points: usize,
    /// Tuples that use the glyph's shared point-number list.
    pub shared_points: usize,
    /// Tuples whose point list is "all points".
    pub all_points: usize,
    /// Tuples with an explicit (not "all") private point-number list.
    pub private_explicit: usize,
    /// Tuples using an explicit (not "all") shared point-number list.
    pub shared_explicit: usize,
    /// Over all tuples, the number of outline points (phantoms excluded) of a *simple*
    /// glyph that are not referenced, i.e. whose delta is inferred (IUP).
    pub points_omitted: usize,
    /// Tuples with at least one omitted outline point.
    pub tuples_with_omitted: usize,
}

/// Decode packed point numbers at the start of `r`. Returns (points or None for "all",
/// bytes consumed).
pub fn parse_packed_points(r: Rd) -> Result<(Option<Vec<u16>>, usize), String> {
    let b0 = r.u8(0)?;
    let mut off = 1;
    let count = if b0 & 0x80 != 0 {
        let b1 = r.u8(1)?;
        off = 2;
        (((b0 & 0x7F) as usize) << 8) | b1 as usize
    } else {
        b0 as usize
    };
    if count == 0 {
        return Ok((None, off));
    }
    let mut pts = Vec::with_capacity(count);
    let mut cur: u32 = 0;
    while pts.len() < count {
        let control = r.u8(off)?;
        off += 1;
        let run = (control & POINT_RUN_COUNT_MASK) as usize + 1;
        for _ in 0..run {
            if pts.len() == count {
                return Err("packed point run overruns the declared count".into());
            }
            let d = if control & POINTS_ARE_WORDS != 0 {
                let v = r.u16(off)? as u32;
                off += 2;
                v
            } else {
                let v = r.u8(off)? as u32;
                off += 1;
                v
            };
            // Each value is the difference from the previous point number (the first from 0).
            cur += d;
            if cur > 0xFFFF {
                return Err("packed point number exceeds 65535".into());
            }
            pts.push(cur as u16);
        }
    }
    Ok((Some(pts), off))
}

/// Decode exactly `count` packed deltas from the start of `r`. Returns (deltas, bytes consumed).
pub fn parse_packed_deltas(r: Rd, count: usize) -> Result<(Vec<i32>, usize), String> {
    let mut out = Vec::with_capacity(count);
    let mut off = 0;
    while out.len() < count {
        let control = r.u8(off)?;
        off += 1;
        let run = (control & DELTA_RUN_COUNT_MASK) as usize + 1;
        let zero = control & DELTAS_ARE_ZERO != 0;
        let words = control & DELTAS_ARE_WORDS != 0;
        for _ in 0..run {
            if out.len() == count {
                // A run may not extend past the x/y array pair. (The x and y arrays are one
                // continuous stream, so a run may span the x/y boundary, which the caller
                // handles by asking for 2n values at once.)
                return Err("packed delta run overruns the expected count".into());
            }
            let v = match (zero, words) {
                (true, false) => 0,
                (false, false) => {
                    let v = r.i8(off)? as i32;
                    off += 1;
                    v
                }
                (false, true) => {
                    let v = r.i16(off)? as i32;
                    off += 2;
                    v
                }
                // Both bits: 32-bit values (later spec revisions; not used by gvar writers).
                (true, true) => {
                    let v = r.i32(off)?;
                    off += 4;
                    v
                }
            };
            out.push(v);
        }
    }
    Ok((out, off))
}

impl<'a> Gvar<'a> {
    pub fn parse(data: &'a [u8]) -> Result<Self, String> {
        let r = Rd::new(data);
        let major = r.u16(0)?;
        if major != 1 {
            return Err(format!("gvar major version {major}"));
        }
        let axis_count = r.u16(4)? as usize;
        let shared_tuple_count = r.u16(6)? as usize;
        let shared_tuples_offset = r.u32(8)? as usize;
        let glyph_count = r.u16(12)? as usize;
        let flags = r.u16(14)?;
        let data_array_offset = r.u32(16)? as usize;
        let mut shared_tuples = Vec::with_capacity(shared_tuple_count);
        for i in 0..shared_tuple_count {
            let mut t = Vec::with_capacity(axis_count);
            for a in 0..axis_count {
                t.push(r.f2dot14(shared_tuples_offset + 2 * (i * axis_count + a))?);
            }
            shared_tuples.push(t);
        }
        Ok(Gvar {
            table: r,
            axis_count,
            shared_tuples,
            glyph_count,
            long_offsets: flags & 1 != 0,
            data_array_offset,
        })
    }

    /// The GlyphVariationData bytes of `gid` (empty when the glyph has none).
    pub fn glyph_data(&self, gid: u16) -> Result<Rd<'a>, String> {
        let g = gid as usize;
        if g >= self.glyph_count {
            return Ok(Rd::new(&[]));
        }
        let (a, b) = if self.long_offsets {
            (
                self.table.u32(20 + 4 * g)? as usize,
                self.table.u32(20 + 4 * g + 4)? as usize,
            )
        } else {
            // short offsets store offset / 2
            (
                self.table.u16(20 + 2 * g)? as usize * 2,
                self.table.u16(20 + 2 * g + 2)? as usize * 2,
            )
        };
        if b < a {
            return Err(format!("gvar offsets not monotonic at gid {gid}"));
        }
        self.table.slice(self.data_array_offset + a, b - a)
    }

    /// Decode all tuple variations of a glyph. `n_points` is the number of points gvar
    /// addresses *including* the four phantom points.
    pub fn glyph_tuples(&self, gid: u16, n_points: usize) -> Result<Vec<TupleVar>, String> {
        let d = self.glyph_data(gid)?;
        if d.is_empty() {
            return Ok(vec![]);
        }
        let tvc = d.u16(0)?;
        let count = (tvc & COUNT_MASK) as usize;
        let data_offset = d.u16(2)? as usize;
        let mut ser = d.from(data_offset)?;
        let shared_points: Option<Option<Vec<u16>>> = if tvc & SHARED_POINT_NUMBERS != 0 {
            let (pts, used) = parse_packed_points(ser)?;
            ser = ser.from(used)?;
            Some(pts)
        } else {
            None
        };

        let mut out = Vec::with_capacity(count);
        let mut hoff = 4;
        for ti in 0..count {
            let size = d.u16(hoff)? as usize;
            let tuple_index = d.u16(hoff + 2)?;
            hoff += 4;
            let read_tuple = |off: &mut usize| -> Result<Vec<f64>, String> {
                let mut t = Vec::with_capacity(self.axis_count);
                for _ in 0..self.axis_count {
                    t.push(d.f2dot14(*off)?);
                    *off += 2;
                }
                Ok(t)
            };
            let embedded_peak = tuple_index & EMBEDDED_PEAK_TUPLE != 0;
            let peak = if embedded_peak {
                read_tuple(&mut hoff)?
            } else {
                let i = (tuple_index & TUPLE_INDEX_MASK) as usize;
                self.shared_tuples
                    .get(i)
                    .cloned()
                    .ok_or_else(|| format!("gid {gid} tuple {ti}: shared tuple index {i} out of range"))?
            };
            let intermediate = if tuple_index & INTERMEDIATE_REGION != 0 {
                let st = read_tuple(&mut hoff)?;
                let en = read_tuple(&mut hoff)?;
                Some((st, en))
            } else {
                None
            };
            if hoff > data_offset {
                return Err(format!("gid {gid}: tuple headers overrun the serialized data offset"));
            }

            // This tuple's serialized data: [private point numbers] x deltas, y deltas.
            let body = ser.slice(0, size)?;
            ser = ser.from(size)?;
            let private_points = tuple_index & PRIVATE_POINT_NUMBERS != 0;
            let (points, used) = if private_points {
                parse_packed_points(body)?
            } else {
                match &shared_points {
                    Some(p) => (p.clone(), 0),
                    None => {
                        return Err(format!(
                            "gid {gid} tuple {ti}: no private point numbers and the glyph has no shared point numbers"
                        ));
                    }
                }
            };
            let n = match &points {
                None => n_points,
                Some(p) => {
                    if let Some(&bad) = p.iter().find(|&&p| p as usize >= n_points) {
                        return Err(format!(
                            "gid {gid} tuple {ti}: point number {bad} >= point count {n_points}"
                        ));
                    }
                    for w in p.windows(2) {
                        if w[1] <= w[0] {
                            return Err(format!(
                                "gid {gid} tuple {ti}: point numbers not strictly increasing"
                            ));
                        }
                    }
                    p.len()
                }
            };
            let (deltas, dused) = parse_packed_deltas(body.from(used)?, 2 * n)?;
            if used + dused != size {
                return Err(format!(
                    "gid {gid} tuple {ti}: variationDataSize {size} but decoded {} bytes",
                    used + dused
                ));
            }
            out.push(TupleVar {
                peak,
                intermediate,
                embedded_peak,
                private_points,
                points,
                dx: deltas[..n].to_vec(),
                dy: deltas[n..].to_vec(),
            });
        }
        Ok(out)
    }
}

/// Inferred deltas for the unreferenced points of one contour along one coordinate (spec:
/// "Inferred deltas for un-referenced point numbers").
///
/// `coords[i]` are the ORIGINAL (default-outline) coordinates of the contour's points,
/// `deltas[i]` is `Some(d)` for referenced points. Returns a delta for every point.
pub fn iup_contour_1d(coords: &[f64], deltas: &[Option<f64>]) -> Vec<f64> {
    let n = coords.len();
    assert_eq!(n, deltas.len());
    let touched: Vec<usize> = (0..n).filter(|&i| deltas[i].is_some()).collect();
    // No referenced point: no movement at all in this contour.
    if touched.is_empty() {
        return vec![0.0; n];
    }
    // Exactly one: every point moves by that delta.
    if touched.len() == 1 {
        return vec![deltas[touched[0]].unwrap(); n];
    }
    let mut out = vec![0.0; n];
    for i in 0..n {
        if let Some(d) = deltas[i] {
            out[i] = d;
            continue;
        }
        // Nearest referenced points before and after, cyclically within the contour.
        let prev = touched
            .iter()
            .rev()
            .find(|&&t| t < i)
            .copied()
            .unwrap_or(*touched.last().unwrap());
        let next = touched
            .iter()
            .find(|&&t| t > i)
            .copied()
            .unwrap_or(touched[0]);
        let (pc, fc) = (coords[prev], coords[next]);
        let (pd, fd) = (deltas[prev].unwrap(), deltas[next].unwrap());
        let tc = coords[i];
        out[i] = if pc == fc {
            if pd == fd { pd } else { 0.0 }
        } else if tc <= pc.min(fc) {
            // at or beyond the lesser reference coordinate: take that reference's delta
            if pc < fc { pd } else { fd }
        } else if tc >= pc.max(fc) {
            if pc > fc { pd } else { fd }
        } else {
            // strictly between: linear interpolation
            let t = (tc - pc) / (fc - pc);
            (1.0 - t) * pd + t * fd
        };
    }
    out
}

#[cfg(test)]
mod tests {
    use super::*;

    #[test]
    fn packed_deltas_spec_example() {
        // OpenType spec, "Packed Deltas" example.
        let bytes = [0x03, 0x0A, 0x97, 0x00, 0xC6, 0x87, 0x41, 0x10, 0x22, 0xFB, 0x34];
        let (d, used) = parse_packed_deltas(Rd::new(&bytes), 14).unwrap();
        assert_eq!(d, vec![10, -105, 0, -58, 0, 0, 0, 0, 0, 0, 0, 0, 4130, -1228]);
        assert_eq!(used, bytes.len());
        // asking for fewer values than the runs provide is an error
        assert!(parse_packed_deltas(Rd::new(&bytes), 13).is_err());
        // asking for more is out of bounds
        assert!(parse_packed_deltas(Rd::new(&bytes), 15).is_err());
        // 32-bit run
        let bytes = [0xC0, 0x00, 0x01, 0x00, 0x00];
        assert_eq!(parse_packed_deltas(Rd::new(&bytes), 1).unwrap().0, vec![65536]);
    }

    #[test]
    fn packed_points() {
        // count 0 = all points
        assert_eq!(parse_packed_points(Rd::new(&[0])).unwrap(), (None, 1));
        // 4 points, one byte run: 1, +2, +3, +10
        let (p, used) = parse_packed_points(Rd::new(&[4, 3, 1, 2, 3, 10])).unwrap();
        assert_eq!(p, Some(vec![1, 3, 6, 16]));
        assert_eq!(used, 6);
        // word run followed by byte run: 0x0100, then +1, +1
        let (p, used) =
            parse_packed_points(Rd::new(&[3, 0x80, 0x01, 0x00, 0x01, 1, 1])).unwrap();
        assert_eq!(p, Some(vec![256, 257, 258]));
        assert_eq!(used, 7);
        // two-byte count: 0x80|0x01, 0x00 = 256 points, in runs of 128 ones
        let mut b = vec![0x81, 0x00];
        for _ in 0..2 {
            b.push(0x7F);
            b.extend(std::iter::repeat(1).take(128));
        }
        let (p, used) = parse_packed_points(Rd::new(&b)).unwrap();
        let p = p.unwrap();
        assert_eq!(p.len(), 256);
        assert_eq!(p[0], 1);
        assert_eq!(p[255], 256);
        assert_eq!(used, b.len());
        // run overrunning the count
        assert!(parse_packed_points(Rd::new(&[1, 1, 1, 1])).is_err());
    }

    #[test]
    fn iup_spec_example() {
        // Spec example: points (245,630) (260,700) (305,680); deltas (28,-62), -, (-42,-57)
        let xs = [245.0, 260.0, 305.0];
        let ys = [630.0, 700.0, 680.0];
        let dx = iup_contour_1d(&xs, &[Some(28.0), None, Some(-42.0)]);
        let dy = iup_contour_1d(&ys, &[Some(-62.0), None, Some(-57.0)]);
        assert_eq!(dx, vec![28.0, 10.5, -42.0]);
        assert_eq!(dy, vec![-62.0, -57.0, -57.0]);
    }

    #[test]
    fn iup_rules() {
        // none referenced
        assert_eq!(iup_contour_1d(&[0.0, 1.0], &[None, None]), vec![0.0, 0.0]);
        // one referenced: shift
        assert_eq!(iup_contour_1d(&[0.0, 1.0, 5.0], &[None, Some(3.0), None]), vec![3.0; 3]);
        // equal reference coordinates: same delta -> that delta, different -> 0
        assert_eq!(
            iup_contour_1d(&[10.0, 50.0, 10.0, 7.0], &[Some(4.0), None, Some(4.0), None]),
            vec![4.0, 4.0, 4.0, 4.0]
        );
        assert_eq!(
            iup_contour_1d(&[10.0, 50.0, 10.0, 7.0], &[Some(4.0), None, Some(5.0), None]),
            vec![4.0, 0.0, 5.0, 0.0]
        );
        // outside the reference interval: delta of the nearer reference (by coordinate)
        // refs at 0 (d=1) and 100 (d=3); targets -5, 100, 150, 25; wrap-around neighbours
        let c = [0.0, -5.0, 100.0, 150.0, 25.0];
        let d = [Some(1.0), None, Some(3.0), None, None];
        assert_eq!(iup_contour_1d(&c, &d), vec![1.0, 1.0, 3.0, 3.0, 1.5]);
        // reversed order of reference coordinates
        let c = [100.0, 150.0, 0.0, -5.0, 25.0];
        let d = [Some(3.0), None, Some(1.0), None, None];
        assert_eq!(iup_contour_1d(&c, &d), vec![3.0, 3.0, 1.0, 1.0, 1.5]);
    }

    #[test]
    fn tuple_scalar_implied_and_intermediate() {
        let t = TupleVar {
            peak: vec![1.0, -1.0],
            intermediate: None,
            embedded_peak: true,
            private_points: false,
            points: None,
            dx: vec![],
            dy: vec![],
        };
        assert_eq!(t.scalar(&[1.0, -1.0]), 1.0);
        assert_eq!(t.scalar(&[0.5, -0.5]), 0.25);
        assert_eq!(t.scalar(&[0.5, 0.5]), 0.0);
        assert_eq!(t.scalar(&[0.0, -1.0]), 0.0);
        let t = TupleVar {
            peak: vec![0.5, 0.0],
            intermediate: Some((vec![0.0, 0.0], vec![1.0, 0.0])),
            ..t
        };
        assert_eq!(t.scalar(&[0.5, 0.3]), 1.0);
        assert_eq!(t.scalar(&[0.25, -1.0]), 0.5);
        assert_eq!(t.scalar(&[0.75, 0.0]), 0.5);
        assert_eq!(t.scalar(&[1.0, 0.0]), 0.0);
        // implied region of a 0.5 peak is (0, 0.5, 0.5): nothing beyond the peak
        let t = TupleVar {
            peak: vec![0.5, 0.0],
            intermediate: None,
            ..t
        };
        assert_eq!(t.scalar(&[0.5, 0.0]), 1.0);
        assert_eq!(t.scalar(&[0.75, 0.0]), 0.0);
        assert_eq!(t.scalar(&[0.25, 0.0]), 0.5);
    }
}
