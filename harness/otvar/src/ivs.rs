//! ItemVariationStore and DeltaSetIndexMap, decoded and evaluated from the OpenType spec
//! ("OpenType Font Variations Common Table Formats").
//!
//! All arithmetic is f64. Region coordinates are F2Dot14 (k/16384, exact in f64), deltas
//! are integers below 2^31, so a delta is a sum of at most a few hundred products of exact
//! values; the accumulated float error is below 1e-9 for any font this crate is used on
//! and is ignored in every bound stated by callers.

use crate::rd::Rd;

/// Scalar contribution of one axis of a variation region (spec: "Algorithm for
/// interpolation of instance values", per-axis scalar).
///
/// `coord` is the instance's normalized coordinate; `start <= peak <= end` the region.
pub fn axis_scalar(coord: f64, start: f64, peak: f64, end: f64) -> f64 {
    // Invalid region on this axis: the axis is ignored.
    if start > peak || peak > end {
        return 1.0;
    }
    // A region that spans zero without peaking there is invalid: ignored.
    if start < 0.0 && end > 0.0 && peak != 0.0 {
        return 1.0;
    }
    // Peak at zero: the axis does not participate.
    if peak == 0.0 {
        return 1.0;
    }
    if coord < start || coord > end {
        return 0.0;
    }
    if coord == peak {
        return 1.0;
    }
    if coord < peak {
        (coord - start) / (peak - start)
    } else {
        (end - coord) / (end - peak)
    }
}

/// Product of [`axis_scalar`] over all axes. Axes of the region beyond `coords.len()` see
/// coordinate 0 (spec: unspecified axes are at their default).
pub fn region_scalar(coords: &[f64], region: &[(f64, f64, f64)]) -> f64 {
    let mut s = 1.0;
    for (i, &(start, peak, end)) in region.iter().enumerate() {
        let c = coords.get(i).copied().unwrap_or(0.0);
        let a = axis_scalar(c, start, peak, end);
        if a == 0.0 {
            return 0.0;
        }
        s *= a;
    }
    s
}

/// One ItemVariationData subtable.
#[derive(Clone, Debug)]
pub struct ItemVarData {
    pub region_indexes: Vec<u16>,
    /// `delta_sets[inner][k]` is the delta for `region_indexes[k]`.
    pub delta_sets: Vec<Vec<i32>>,
    /// LONG_WORDS flag was set (reported for non-vacuity only).
    pub long_words: bool,
    pub word_delta_count: u16,
}

/// A decoded ItemVariationStore.
#[derive(Clone, Debug)]
pub struct ItemVarStore {
    pub axis_count: u16,
    /// `regions[r][axis] = (start, peak, end)`.
    pub regions: Vec<Vec<(f64, f64, f64)>>,
    pub data: Vec<ItemVarData>,
}

impl ItemVarStore {
    /// `bytes` starts at the ItemVariationStore header (offsets inside are relative to it).
    pub fn parse(bytes: &[u8]) -> Result<Self, String> {
        let r = Rd::new(bytes);
        let format = r.u16(0)?;
        if format != 1 {
            return Err(format!("ItemVariationStore format {format} != 1"));
        }
        let region_list_off = r.u32(2)? as usize;
        let data_count = r.u16(6)? as usize;

        // VariationRegionList: axisCount, regionCount, regions[regionCount][axisCount]{start,peak,end}
        let rl = r.from(region_list_off)?;
        let axis_count = rl.u16(0)?;
        let region_count = rl.u16(2)? as usize;
        let mut regions = Vec::with_capacity(region_count);
        let mut off = 4;
        for _ in 0..region_count {
            let mut axes = Vec::with_capacity(axis_count as usize);
            for _ in 0..axis_count {
                axes.push((rl.f2dot14(off)?, rl.f2dot14(off + 2)?, rl.f2dot14(off + 4)?));
                off += 6;
            }
            regions.push(axes);
        }

        let mut data = Vec::with_capacity(data_count);
        for i in 0..data_count {
            let doff = r.u32(8 + 4 * i)? as usize;
            if doff == 0 {
                // A null offset: an empty subtable (no items).
                data.push(ItemVarData {
                    region_indexes: vec![],
                    delta_sets: vec![],
                    long_words: false,
                    word_delta_count: 0,
                });
                continue;
            }
            let d = r.from(doff)?;
            let item_count = d.u16(0)? as usize;
            let wdc_raw = d.u16(2)?;
            let long_words = wdc_raw & 0x8000 != 0;
            let word_count = (wdc_raw & 0x7FFF) as usize;
            let region_index_count = d.u16(4)? as usize;
            if word_count > region_index_count {
                return Err(format!(
                    "ItemVariationData {i}: wordDeltaCount {word_count} > regionIndexCount {region_index_count}"
                ));
            }
            let mut region_indexes = Vec::with_capacity(region_index_count);
            for k in 0..region_index_count {
                let ri = d.u16(6 + 2 * k)?;
                if ri as usize >= region_count {
                    return Err(format!(
                        "ItemVariationData {i}: region index {ri} >= regionCount {region_count}"
                    ));
                }
                region_indexes.push(ri);
            }
            let mut off = 6 + 2 * region_index_count;
            let mut delta_sets = Vec::with_capacity(item_count);
            for _ in 0..item_count {
                let mut row = Vec::with_capacity(region_index_count);
                for k in 0..region_index_count {
                    let is_word = k < word_count;
                    // LONG_WORDS: "words" are int32 and the rest int16; otherwise int16 / int8.
                    let v = match (long_words, is_word) {
                        (false, true) => {
                            let v = d.i16(off)? as i32;
                            off += 2;
                            v
                        }
                        (false, false) => {
                            let v = d.i8(off)? as i32;
                            off += 1;
                            v
                        }
                        (true, true) => {
                            let v = d.i32(off)?;
                            off += 4;
                            v
                        }
                        (true, false) => {
                            let v = d.i16(off)? as i32;
                            off += 2;
                            v
                        }
                    };
                    row.push(v);
                }
                delta_sets.push(row);
            }
            data.push(ItemVarData {
                region_indexes,
                delta_sets,
                long_words,
                word_delta_count: word_count as u16,
            });
        }
        Ok(ItemVarStore {
            axis_count,
            regions,
            data,
        })
    }

    /// Scalars of all regions at `coords`.
    pub fn region_scalars(&self, coords: &[f64]) -> Vec<f64> {
        self.regions
            .iter()
            .map(|r| region_scalar(coords, r))
            .collect()
    }

    /// Interpolated delta for the delta set `(outer, inner)`; `None` if the indices do not
    /// address a delta set (the spec's 0xFFFF/0xFFFF "no variation" included).
    pub fn delta(&self, outer: u16, inner: u16, coords: &[f64]) -> Option<f64> {
        let d = self.data.get(outer as usize)?;
        let row = d.delta_sets.get(inner as usize)?;
        let mut sum = 0.0;
        for (k, &ri) in d.region_indexes.iter().enumerate() {
            let s = region_scalar(coords, &self.regions[ri as usize]);
            if s != 0.0 {
                sum += s * row[k] as f64;
            }
        }
        Some(sum)
    }

    /// Sum of the scalars of the regions that are active (scalar > 0) for this delta set and
    /// have a non-zero delta; callers use it to scale their rounding allowance.
    pub fn active_scalar_sum(&self, outer: u16, inner: u16, coords: &[f64]) -> Option<f64> {
        let d = self.data.get(outer as usize)?;
        let row = d.delta_sets.get(inner as usize)?;
        let mut sum = 0.0;
        for (k, &ri) in d.region_indexes.iter().enumerate() {
            if row[k] != 0 {
                sum += region_scalar(coords, &self.regions[ri as usize]);
            }
        }
        Some(sum)
    }
}

/// A decoded DeltaSetIndexMap (formats 0 and 1).
#[derive(Clone, Debug)]
pub struct DeltaSetIndexMap {
    pub format: u8,
    pub entry_format: u8,
    /// `(outer, inner)` per map entry.
    pub entries: Vec<(u16, u16)>,
}

impl DeltaSetIndexMap {
    pub fn parse(bytes: &[u8]) -> Result<Self, String> {
        let r = Rd::new(bytes);
        let format = r.u8(0)?;
        let entry_format = r.u8(1)?;
        let (map_count, mut off) = match format {
            0 => (r.u16(2)? as usize, 4usize),
            1 => (r.u32(2)? as usize, 6usize),
            f => return Err(format!("DeltaSetIndexMap format {f} unknown")),
        };
        // entryFormat: bits 0-3 = (inner index bit count) - 1, bits 4-5 = (entry size) - 1.
        let inner_bits = (entry_format & 0x0F) as u32 + 1;
        let entry_size = ((entry_format & 0x30) >> 4) as usize + 1;
        let mut entries = Vec::with_capacity(map_count);
        for _ in 0..map_count {
            let mut v: u32 = 0;
            for b in 0..entry_size {
                v = (v << 8) | r.u8(off + b)? as u32;
            }
            off += entry_size;
            let outer = v >> inner_bits;
            let inner = v & ((1u32 << inner_bits) - 1);
            if outer > 0xFFFF {
                return Err(format!("DeltaSetIndexMap outer index {outer} exceeds 16 bits"));
            }
            entries.push((outer as u16, inner as u16));
        }
        Ok(DeltaSetIndexMap {
            format,
            entry_format,
            entries,
        })
    }

    /// Spec: "If a given glyph ID is greater than mapCount - 1, then the last entry is used."
    /// An empty map addresses nothing.
    pub fn get(&self, index: u32) -> Option<(u16, u16)> {
        if self.entries.is_empty() {
            return None;
        }
        let i = (index as usize).min(self.entries.len() - 1);
        Some(self.entries[i])
    }
}

#[cfg(test)]
mod tests {
    use super::*;

    #[test]
    fn axis_scalar_cases() {
        // non-intermediate, positive peak
        assert_eq!(axis_scalar(0.0, 0.0, 1.0, 1.0), 0.0);
        assert_eq!(axis_scalar(0.5, 0.0, 1.0, 1.0), 0.5);
        assert_eq!(axis_scalar(1.0, 0.0, 1.0, 1.0), 1.0);
        assert_eq!(axis_scalar(-0.5, 0.0, 1.0, 1.0), 0.0);
        // negative peak
        assert_eq!(axis_scalar(-0.25, -1.0, -1.0, 0.0), 0.25);
        assert_eq!(axis_scalar(0.25, -1.0, -1.0, 0.0), 0.0);
        // intermediate
        assert_eq!(axis_scalar(0.25, 0.0, 0.5, 1.0), 0.5);
        assert_eq!(axis_scalar(0.75, 0.0, 0.5, 1.0), 0.5);
        assert_eq!(axis_scalar(0.5, 0.0, 0.5, 1.0), 1.0);
        assert_eq!(axis_scalar(1.0, 0.0, 0.5, 1.0), 0.0);
        assert_eq!(axis_scalar(0.0, 0.0, 0.5, 1.0), 0.0);
        assert_eq!(axis_scalar(0.6, 0.5, 1.0, 1.0), (0.6 - 0.5) / 0.5);
        // peak 0: ignored
        assert_eq!(axis_scalar(0.7, 0.0, 0.0, 0.0), 1.0);
        assert_eq!(axis_scalar(0.7, -1.0, 0.0, 1.0), 1.0);
        // invalid: ignored
        assert_eq!(axis_scalar(0.7, 0.5, 0.2, 1.0), 1.0);
        assert_eq!(axis_scalar(0.7, -0.5, 0.2, 1.0), 1.0);
    }

    fn be16(v: &mut Vec<u8>, x: u16) {
        v.extend_from_slice(&x.to_be_bytes());
    }
    fn be32(v: &mut Vec<u8>, x: u32) {
        v.extend_from_slice(&x.to_be_bytes());
    }

    /// Hand-assembled store: 2 axes, 3 regions, 2 subtables (one short, one LONG_WORDS).
    fn sample_store() -> Vec<u8> {
        let mut v = Vec::new();
        be16(&mut v, 1); // format
        be32(&mut v, 16); // region list offset
        be16(&mut v, 2); // data count
        be32(&mut v, 0); // patched below
        be32(&mut v, 0);
        assert_eq!(v.len(), 16);
        // region list
        be16(&mut v, 2);
        be16(&mut v, 3);
        let f = |x: f64| (x * 16384.0) as i16 as u16;
        // r0: axis0 (0,1,1) axis1 (0,0,0)
        for x in [0.0, 1.0, 1.0, 0.0, 0.0, 0.0] {
            be16(&mut v, f(x));
        }
        // r1: axis0 (0,0.5,1) axis1 (0,0,0)
        for x in [0.0, 0.5, 1.0, 0.0, 0.0, 0.0] {
            be16(&mut v, f(x));
        }
        // r2: axis0 (0,1,1) axis1 (-1,-1,0)
        for x in [0.0, 1.0, 1.0, -1.0, -1.0, 0.0] {
            be16(&mut v, f(x));
        }
        let d0 = v.len() as u32;
        // subtable 0: 2 items, wordDeltaCount 1, 3 regions [0,1,2]
        be16(&mut v, 2);
        be16(&mut v, 1);
        be16(&mut v, 3);
        for x in [0, 1, 2] {
            be16(&mut v, x);
        }
        // item 0: 300 (i16), -5 (i8), 7 (i8)
        be16(&mut v, 300);
        v.push((-5i8) as u8);
        v.push(7);
        // item 1: -1000, 100, -100
        be16(&mut v, (-1000i16) as u16);
        v.push(100);
        v.push((-100i8) as u8);
        let d1 = v.len() as u32;
        // subtable 1: 1 item, LONG_WORDS | 1, 2 regions [2, 0]
        be16(&mut v, 1);
        be16(&mut v, 0x8001);
        be16(&mut v, 2);
        be16(&mut v, 2);
        be16(&mut v, 0);
        be32(&mut v, 100_000);
        be16(&mut v, (-20_000i16) as u16);
        v[8..12].copy_from_slice(&d0.to_be_bytes());
        v[12..16].copy_from_slice(&d1.to_be_bytes());
        v
    }

    #[test]
    fn ivs_decode_and_eval() {
        let s = ItemVarStore::parse(&sample_store()).unwrap();
        assert_eq!(s.axis_count, 2);
        assert_eq!(s.regions.len(), 3);
        assert_eq!(s.data.len(), 2);
        assert_eq!(s.data[0].delta_sets, vec![vec![300, -5, 7], vec![-1000, 100, -100]]);
        assert!(s.data[1].long_words);
        assert_eq!(s.data[1].delta_sets, vec![vec![100_000, -20_000]]);
        // at (1, 0): r0 = 1, r1 = 0, r2 = 0
        assert_eq!(s.delta(0, 0, &[1.0, 0.0]), Some(300.0));
        // at (0.5, 0): r0 = 0.5, r1 = 1, r2 = 0
        assert_eq!(s.delta(0, 0, &[0.5, 0.0]), Some(150.0 - 5.0));
        // at (0.5, -0.5): r2 = 0.5*0.5
        assert_eq!(s.delta(0, 1, &[0.5, -0.5]), Some(-500.0 + 100.0 - 25.0));
        assert_eq!(s.delta(1, 0, &[1.0, -1.0]), Some(100_000.0 - 20_000.0));
        assert_eq!(s.delta(1, 1, &[1.0, -1.0]), None);
        assert_eq!(s.delta(2, 0, &[1.0, -1.0]), None);
        assert_eq!(s.delta(0xFFFF, 0xFFFF, &[1.0, -1.0]), None);
        // default location: everything zero
        assert_eq!(s.delta(0, 1, &[0.0, 0.0]), Some(0.0));
        // short coords: missing axes are at 0
        assert_eq!(s.delta(0, 0, &[1.0]), Some(300.0));
    }

    #[test]
    fn delta_set_index_map_formats() {
        // format 0, entry size 1, inner bits 4: entries 0x12 -> (1,2), 0x03 -> (0,3)
        let m = DeltaSetIndexMap::parse(&[0, 0x03, 0, 2, 0x12, 0x03]).unwrap();
        assert_eq!(m.entries, vec![(1, 2), (0, 3)]);
        assert_eq!(m.get(0), Some((1, 2)));
        assert_eq!(m.get(1), Some((0, 3)));
        assert_eq!(m.get(99), Some((0, 3)));
        // format 1, entry size 2 (0x10), inner bits 16 (0x0F): entry 0x0102 -> (0, 0x0102)
        let m = DeltaSetIndexMap::parse(&[1, 0x1F, 0, 0, 0, 1, 0x01, 0x02]).unwrap();
        assert_eq!(m.entries, vec![(0, 0x0102)]);
        // format 0, entry size 3 (0x20), inner bits 8 (0x07): 0x000201 -> outer 2, inner 1
        let m = DeltaSetIndexMap::parse(&[0, 0x27, 0, 1, 0x00, 0x02, 0x01]).unwrap();
        assert_eq!(m.entries, vec![(2, 1)]);
        // format 0, entry size 4 (0x30), inner bits 16: 0x00030004 -> (3,4)
        let m = DeltaSetIndexMap::parse(&[0, 0x3F, 0, 1, 0, 3, 0, 4]).unwrap();
        assert_eq!(m.entries, vec![(3, 4)]);
        // entry size 2, inner bits 1 (0x10): 0x0005 -> outer 2, inner 1
        let m = DeltaSetIndexMap::parse(&[0, 0x10, 0, 1, 0, 5]).unwrap();
        assert_eq!(m.entries, vec![(2, 1)]);
        // empty map
        let m = DeltaSetIndexMap::parse(&[0, 0, 0, 0]).unwrap();
        assert_eq!(m.get(0), None);
        assert!(DeltaSetIndexMap::parse(&[2, 0, 0, 0]).is_err());
        assert!(DeltaSetIndexMap::parse(&[0, 0, 0, 1]).is_err());
    }
}
