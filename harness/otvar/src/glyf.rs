//! glyf/loca decoding from the OpenType spec ("glyf — Glyph Data", "loca — Index to
//! Location"). Only what instancing needs: points, contour ends, component records.

use crate::rd::Rd;
use serde::Serialize;

// Simple glyph flags.
pub const ON_CURVE_POINT: u8 = 0x01;
pub const X_SHORT_VECTOR: u8 = 0x02;
pub const Y_SHORT_VECTOR: u8 = 0x04;
pub const REPEAT_FLAG: u8 = 0x08;
pub const X_IS_SAME_OR_POSITIVE_X_SHORT_VECTOR: u8 = 0x10;
pub const Y_IS_SAME_OR_POSITIVE_Y_SHORT_VECTOR: u8 = 0x20;

// Component flags.
pub const ARG_1_AND_2_ARE_WORDS: u16 = 0x0001;
pub const ARGS_ARE_XY_VALUES: u16 = 0x0002;
pub const ROUND_XY_TO_GRID: u16 = 0x0004;
pub const WE_HAVE_A_SCALE: u16 = 0x0008;
pub const MORE_COMPONENTS: u16 = 0x0020;
pub const WE_HAVE_AN_X_AND_Y_SCALE: u16 = 0x0040;
pub const WE_HAVE_A_TWO_BY_TWO: u16 = 0x0080;
pub const WE_HAVE_INSTRUCTIONS: u16 = 0x0100;
pub const USE_MY_METRICS: u16 = 0x0200;
pub const OVERLAP_COMPOUND: u16 = 0x0400;
pub const SCALED_COMPONENT_OFFSET: u16 = 0x0800;
pub const UNSCALED_COMPONENT_OFFSET: u16 = 0x1000;

#[derive(Clone, Debug, PartialEq, Serialize)]
pub struct RawPoint {
    pub x: i32,
    pub y: i32,
    pub on: bool,
}

#[derive(Clone, Debug, PartialEq, Serialize)]
pub struct RawComponent {
    pub flags: u16,
    pub gid: u16,
    /// For ARGS_ARE_XY_VALUES: signed offsets. Otherwise: unsigned point numbers
    /// (`arg1` = point in the parent built so far, `arg2` = point in the component).
    pub arg1: i32,
    pub arg2: i32,
    /// Transform with the spec's field names mapped as: `xx` = xscale, `yx` = scale01,
    /// `xy` = scale10, `yy` = yscale, so that x' = xx*x + xy*y, y' = yx*x + yy*y.
    pub xx: f64,
    pub yx: f64,
    pub xy: f64,
    pub yy: f64,
}

impl RawComponent {
    pub fn has_transform(&self) -> bool {
        self.flags & (WE_HAVE_A_SCALE | WE_HAVE_AN_X_AND_Y_SCALE | WE_HAVE_A_TWO_BY_TWO) != 0
    }
}

#[derive(Clone, Debug, PartialEq)]
pub enum RawGlyphKind {
    /// Zero-length glyf entry.
    Empty,
    Simple {
        points: Vec<RawPoint>,
        /// Index of the last point of each contour.
        end_pts: Vec<u16>,
    },
    Composite {
        components: Vec<RawComponent>,
    },
}

#[derive(Clone, Debug, PartialEq)]
pub struct RawGlyph {
    pub kind: RawGlyphKind,
    /// Header bounding box (0 for an empty glyph).
    pub x_min: i16,
    pub y_min: i16,
    pub x_max: i16,
    pub y_max: i16,
}

impl RawGlyph {
    /// Number of "points" gvar addresses, excluding the four phantom points.
    pub fn gvar_point_count(&self) -> usize {
        match &self.kind {
            RawGlyphKind::Empty => 0,
            RawGlyphKind::Simple { points, .. } => points.len(),
            RawGlyphKind::Composite { components } => components.len(),
        }
    }
}

/// Byte range of glyph `gid` in glyf. `long` = head.indexToLocFormat == 1.
pub fn loca_range(loca: &[u8], long: bool, gid: u16) -> Result<(usize, usize), String> {
    let r = Rd::new(loca);
    let g = gid as usize;
    let (a, b) = if long {
        (r.u32(4 * g)? as usize, r.u32(4 * g + 4)? as usize)
    } else {
        (r.u16(2 * g)? as usize * 2, r.u16(2 * g + 2)? as usize * 2)
    };
    if b < a {
        return Err(format!("loca not monotonic at gid {gid}: {a} > {b}"));
    }
    Ok((a, b))
}

pub fn parse_glyph(data: &[u8]) -> Result<RawGlyph, String> {
    if data.is_empty() {
        return Ok(RawGlyph {
            kind: RawGlyphKind::Empty,
            x_min: 0,
            y_min: 0,
            x_max: 0,
            y_max: 0,
        });
    }
    let r = Rd::new(data);
    let n_contours = r.i16(0)?;
    let (x_min, y_min, x_max, y_max) = (r.i16(2)?, r.i16(4)?, r.i16(6)?, r.i16(8)?);
    let kind = if n_contours >= 0 {
        parse_simple(r, n_contours as usize)?
    } else {
        parse_composite(r)?
    };
    Ok(RawGlyph {
        kind,
        x_min,
        y_min,
        x_max,
        y_max,
    })
}

fn parse_simple(r: Rd, n_contours: usize) -> Result<RawGlyphKind, String> {
    let mut off = 10;
    let mut end_pts = Vec::with_capacity(n_contours);
    for _ in 0..n_contours {
        end_pts.push(r.u16(off)?);
        off += 2;
    }
    for w in end_pts.windows(2) {
        if w[1] <= w[0] {
            return Err(format!("endPtsOfContours not increasing: {end_pts:?}"));
        }
    }
    let n_points = end_pts.last().map(|&e| e as usize + 1).unwrap_or(0);
    let ins_len = r.u16(off)? as usize;
    off += 2 + ins_len;

    // flags, with REPEAT_FLAG expansion
    let mut flags = Vec::with_capacity(n_points);
    while flags.len() < n_points {
        let f = r.u8(off)?;
        off += 1;
        flags.push(f);
        if f & REPEAT_FLAG != 0 {
            let n = r.u8(off)? as usize;
            off += 1;
            for _ in 0..n {
                flags.push(f);
            }
        }
    }
    if flags.len() != n_points {
        return Err("flag repeat overruns the point count".into());
    }
    // x coordinates (relative), then y coordinates
    let mut xs = Vec::with_capacity(n_points);
    let mut x = 0i32;
    for &f in &flags {
        if f & X_SHORT_VECTOR != 0 {
            let d = r.u8(off)? as i32;
            off += 1;
            x += if f & X_IS_SAME_OR_POSITIVE_X_SHORT_VECTOR != 0 { d } else { -d };
        } else if f & X_IS_SAME_OR_POSITIVE_X_SHORT_VECTOR == 0 {
            x += r.i16(off)? as i32;
            off += 2;
        }
        xs.push(x);
    }
    let mut points = Vec::with_capacity(n_points);
    let mut y = 0i32;
    for (i, &f) in flags.iter().enumerate() {
        if f & Y_SHORT_VECTOR != 0 {
            let d = r.u8(off)? as i32;
            off += 1;
            y += if f & Y_IS_SAME_OR_POSITIVE_Y_SHORT_VECTOR != 0 { d } else { -d };
        } else if f & Y_IS_SAME_OR_POSITIVE_Y_SHORT_VECTOR == 0 {
            y += r.i16(off)? as i32;
            off += 2;
        }
        points.push(RawPoint {
            x: xs[i],
            y,
            on: f & ON_CURVE_POINT != 0,
        });
    }
    Ok(RawGlyphKind::Simple { points, end_pts })
}

fn parse_composite(r: Rd) -> Result<RawGlyphKind, String> {
    let mut off = 10;
    let mut components = Vec::new();
    loop {
        let flags = r.u16(off)?;
        let gid = r.u16(off + 2)?;
        off += 4;
        let xy = flags & ARGS_ARE_XY_VALUES != 0;
        let (arg1, arg2) = if flags & ARG_1_AND_2_ARE_WORDS != 0 {
            let v = if xy {
                (r.i16(off)? as i32, r.i16(off + 2)? as i32)
            } else {
                (r.u16(off)? as i32, r.u16(off + 2)? as i32)
            };
            off += 4;
            v
        } else {
            let v = if xy {
                (r.i8(off)? as i32, r.i8(off + 1)? as i32)
            } else {
                (r.u8(off)? as i32, r.u8(off + 1)? as i32)
            };
            off += 2;
            v
        };
        let (mut xx, mut yx, mut xy_, mut yy) = (1.0, 0.0, 0.0, 1.0);
        if flags & WE_HAVE_A_SCALE != 0 {
            xx = r.f2dot14(off)?;
            yy = xx;
            off += 2;
        } else if flags & WE_HAVE_AN_X_AND_Y_SCALE != 0 {
            xx = r.f2dot14(off)?;
            yy = r.f2dot14(off + 2)?;
            off += 4;
        } else if flags & WE_HAVE_A_TWO_BY_TWO != 0 {
            // spec order: xscale, scale01, scale10, yscale
            xx = r.f2dot14(off)?;
            yx = r.f2dot14(off + 2)?;
            xy_ = r.f2dot14(off + 4)?;
            yy = r.f2dot14(off + 6)?;
            off += 8;
        }
        components.push(RawComponent {
            flags,
            gid,
            arg1,
            arg2,
            xx,
            yx,
            xy: xy_,
            yy,
        });
        if flags & MORE_COMPONENTS == 0 {
            break;
        }
        if components.len() > 0xFFFF {
            return Err("component list does not terminate".into());
        }
    }
    Ok(RawGlyphKind::Composite { components })
}

#[cfg(test)]
mod tests {
    use super::*;

    #[test]
    fn simple_glyph_flag_paths() {
        // one contour, 4 points, exercising: short +, short -, same (no bytes), word, repeat
        let mut g: Vec<u8> = vec![];
        g.extend_from_slice(&1i16.to_be_bytes());
        for v in [0i16, 0, 300, 300] {
            g.extend_from_slice(&v.to_be_bytes());
        }
        g.extend_from_slice(&3u16.to_be_bytes()); // endPts
        g.extend_from_slice(&0u16.to_be_bytes()); // instructions
        // flags: p0 on, x short positive, y same ; p1 (repeat 1 => p1,p2) x word, y short neg/pos
        g.push(ON_CURVE_POINT | X_SHORT_VECTOR | X_IS_SAME_OR_POSITIVE_X_SHORT_VECTOR
            | Y_IS_SAME_OR_POSITIVE_Y_SHORT_VECTOR);
        g.push(REPEAT_FLAG | Y_SHORT_VECTOR);
        g.push(1);
        g.push(ON_CURVE_POINT | X_SHORT_VECTOR | Y_SHORT_VECTOR | Y_IS_SAME_OR_POSITIVE_Y_SHORT_VECTOR);
        // xs: +10 ; word 290 ; word -300 ; short negative 5
        g.push(10);
        g.extend_from_slice(&290i16.to_be_bytes());
        g.extend_from_slice(&(-300i16).to_be_bytes());
        g.push(5);
        // ys: same ; -7 ; -8 ; +100
        g.push(7);
        g.push(8);
        g.push(100);
        let p = parse_glyph(&g).unwrap();
        match p.kind {
            RawGlyphKind::Simple { points, end_pts } => {
                assert_eq!(end_pts, vec![3]);
                let got: Vec<_> = points.iter().map(|p| (p.x, p.y, p.on)).collect();
                assert_eq!(
                    got,
                    vec![(10, 0, true), (300, -7, false), (0, -15, false), (-5, 85, true)]
                );
            }
            _ => panic!(),
        }
    }

    #[test]
    fn composite_records() {
        let mut g: Vec<u8> = vec![];
        g.extend_from_slice(&(-1i16).to_be_bytes());
        for v in [0i16, 0, 10, 10] {
            g.extend_from_slice(&v.to_be_bytes());
        }
        // comp 1: bytes, xy, scale, more
        let f1 = ARGS_ARE_XY_VALUES | WE_HAVE_A_SCALE | MORE_COMPONENTS;
        g.extend_from_slice(&f1.to_be_bytes());
        g.extend_from_slice(&5u16.to_be_bytes());
        g.push((-3i8) as u8);
        g.push(4);
        g.extend_from_slice(&0x2000i16.to_be_bytes()); // 0.5
        // comp 2: words, xy, 2x2, use my metrics
        let f2 = ARG_1_AND_2_ARE_WORDS | ARGS_ARE_XY_VALUES | WE_HAVE_A_TWO_BY_TWO | USE_MY_METRICS
            | MORE_COMPONENTS;
        g.extend_from_slice(&f2.to_be_bytes());
        g.extend_from_slice(&6u16.to_be_bytes());
        g.extend_from_slice(&(-300i16).to_be_bytes());
        g.extend_from_slice(&400i16.to_be_bytes());
        for v in [0x4000i16, 0x1000, -0x1000, 0x2000] {
            g.extend_from_slice(&v.to_be_bytes());
        }
        // comp 3: point matching with byte args, x&y scale
        let f3 = WE_HAVE_AN_X_AND_Y_SCALE;
        g.extend_from_slice(&f3.to_be_bytes());
        g.extend_from_slice(&7u16.to_be_bytes());
        g.push(200);
        g.push(3);
        for v in [0x4000i16, -0x4000] {
            g.extend_from_slice(&v.to_be_bytes());
        }
        let p = parse_glyph(&g).unwrap();
        match p.kind {
            RawGlyphKind::Composite { components } => {
                assert_eq!(components.len(), 3);
                let c = &components[0];
                assert_eq!((c.gid, c.arg1, c.arg2, c.xx, c.yx, c.xy, c.yy), (5, -3, 4, 0.5, 0.0, 0.0, 0.5));
                let c = &components[1];
                assert_eq!(
                    (c.gid, c.arg1, c.arg2, c.xx, c.yx, c.xy, c.yy),
                    (6, -300, 400, 1.0, 0.25, -0.25, 0.5)
                );
                let c = &components[2];
                assert_eq!((c.gid, c.arg1, c.arg2, c.xx, c.yy), (7, 200, 3, 1.0, -1.0));
            }
            _ => panic!(),
        }
    }
}
