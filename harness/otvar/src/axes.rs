//! fvar axis records, default normalisation and avar (version 1) segment maps.
//!
//! The spec ("OpenType Font Variations Overview: Coordinate scales and normalization" and
//! the avar chapter) defines the pipeline as
//!
//!   user value (Fixed 16.16) -> clamp to [min,max] -> default normalisation (16.16)
//!   -> avar segment map (16.16) -> convert to F2Dot14 by `(x + 2) >> 2`.
//!
//! [`Axes::normalize`] follows exactly that order in integer 16.16 arithmetic (divisions
//! round to nearest, as FreeType's FT_DivFix/FT_MulDiv and read-fonts' `Fixed` do), which
//! is what a rasteriser sees. [`Axes::avar_map`] is the same piecewise-linear map in
//! plain f64 for callers that want to bound errors themselves.

use crate::rd::Rd;
use serde::Serialize;

#[derive(Clone, Debug, PartialEq, Serialize)]
pub struct AxisInfo {
    pub tag: String,
    pub min: f64,
    pub default: f64,
    pub max: f64,
    pub name_id: u16,
    pub hidden: bool,
    /// Raw Fixed 16.16 bits of min/default/max.
    pub min_fx: i32,
    pub default_fx: i32,
    pub max_fx: i32,
}

/// fvar named instance (coordinates in user space).
#[derive(Clone, Debug, PartialEq, Serialize)]
pub struct InstanceInfo {
    pub subfamily_name_id: u16,
    pub flags: u16,
    pub coords: Vec<f64>,
    pub postscript_name_id: Option<u16>,
}

/// avar segment map of one axis: `(from, to)` pairs as F2Dot14 raw bits.
pub type SegmentMap = Vec<(i16, i16)>;

#[derive(Clone, Debug, Default)]
pub struct Axes {
    pub axes: Vec<AxisInfo>,
    pub instances: Vec<InstanceInfo>,
    /// `None` when the font has no avar table; otherwise one map per avar axis.
    pub avar: Option<Vec<SegmentMap>>,
}

pub const FX_ONE: i64 = 65536;

/// f64 -> 16.16, round to nearest (ties away from zero).
pub fn to_fixed(v: f64) -> i64 {
    (v * 65536.0).round() as i64
}

/// 16.16 -> F2Dot14 raw, the spec's conversion: add 2, arithmetic shift right by 2.
pub fn fixed_to_f2dot14_bits(v: i64) -> i64 {
    (v + 2) >> 2
}

/// Rounded `a * b / c` on integers, ties away from zero (c != 0).
fn mul_div_round(a: i64, b: i64, c: i64) -> i64 {
    let num = a as i128 * b as i128;
    let den = c as i128;
    let neg = (num < 0) != (den < 0);
    let (n, d) = (num.abs(), den.abs());
    let q = (n + d / 2) / d;
    (if neg { -q } else { q }) as i64
}

impl Axes {
    pub fn parse(fvar: Option<&[u8]>, avar: Option<&[u8]>) -> Result<Self, String> {
        let mut out = Axes::default();
        let Some(fvar) = fvar else {
            return Ok(out);
        };
        let r = Rd::new(fvar);
        let major = r.u16(0)?;
        if major != 1 {
            return Err(format!("fvar major version {major}"));
        }
        let axes_off = r.u16(4)? as usize;
        let axis_count = r.u16(8)? as usize;
        let axis_size = r.u16(10)? as usize;
        let instance_count = r.u16(12)? as usize;
        let instance_size = r.u16(14)? as usize;
        if axis_size < 20 {
            return Err(format!("fvar axisSize {axis_size} < 20"));
        }
        for i in 0..axis_count {
            let o = axes_off + i * axis_size;
            let flags = r.u16(o + 16)?;
            out.axes.push(AxisInfo {
                tag: r.tag(o)?,
                min: r.fixed(o + 4)?,
                default: r.fixed(o + 8)?,
                max: r.fixed(o + 12)?,
                min_fx: r.i32(o + 4)?,
                default_fx: r.i32(o + 8)?,
                max_fx: r.i32(o + 12)?,
                hidden: flags & 0x0001 != 0,
                name_id: r.u16(o + 18)?,
            });
        }
        let inst_off = axes_off + axis_count * axis_size;
        if instance_count > 0 && instance_size < 4 + 4 * axis_count {
            return Err(format!("fvar instanceSize {instance_size} too small"));
        }
        for i in 0..instance_count {
            let o = inst_off + i * instance_size;
            let mut coords = Vec::with_capacity(axis_count);
            for a in 0..axis_count {
                coords.push(r.fixed(o + 4 + 4 * a)?);
            }
            let ps = if instance_size >= 4 + 4 * axis_count + 2 {
                Some(r.u16(o + 4 + 4 * axis_count)?)
            } else {
                None
            };
            out.instances.push(InstanceInfo {
                subfamily_name_id: r.u16(o)?,
                flags: r.u16(o + 2)?,
                coords,
                postscript_name_id: ps,
            });
        }

        if let Some(avar) = avar {
            let r = Rd::new(avar);
            let major = r.u16(0)?;
            if major != 1 {
                return Err(format!(
                    "avar major version {major}: only version 1 segment maps are implemented"
                ));
            }
            let count = r.u16(6)? as usize;
            let mut off = 8;
            let mut maps = Vec::with_capacity(count);
            for _ in 0..count {
                let n = r.u16(off)? as usize;
                off += 2;
                let mut m = Vec::with_capacity(n);
                for _ in 0..n {
                    m.push((r.i16(off)?, r.i16(off + 2)?));
                    off += 4;
                }
                maps.push(m);
            }
            out.avar = Some(maps);
        }
        Ok(out)
    }

    /// Default normalisation of one axis in 16.16 (spec pseudo-code), input and output are
    /// raw 16.16 integers.
    pub fn default_normalize_fixed(&self, axis: usize, user_fx: i64) -> i64 {
        let a = &self.axes[axis];
        let (min, def, max) = (a.min_fx as i64, a.default_fx as i64, a.max_fx as i64);
        let v = user_fx.max(min).min(max.max(min));
        let n = if v < def {
            // def > v >= min so def - min > 0
            -mul_div_round(def - v, FX_ONE, def - min)
        } else if v > def {
            mul_div_round(v - def, FX_ONE, max - def)
        } else {
            0
        };
        n.max(-FX_ONE).min(FX_ONE)
    }

    /// The segment map that applies to `axis`, if any and if valid.
    ///
    /// Spec (avar): a non-empty segment map must contain -1 -> -1, 0 -> 0 and 1 -> 1; "if
    /// any of these is missing, then no modification to axis coordinate values will be made
    /// for that axis".
    pub fn effective_segment_map(&self, axis: usize) -> Option<&SegmentMap> {
        let m = self.avar.as_ref()?.get(axis)?;
        if m.is_empty() || !segment_map_has_required(m) {
            return None;
        }
        Some(m)
    }

    /// avar on a 16.16 value.
    pub fn avar_map_fixed(&self, axis: usize, v: i64) -> i64 {
        let Some(m) = self.effective_segment_map(axis) else {
            return v;
        };
        // F2Dot14 -> 16.16 is a shift by 2.
        let from = |i: usize| (m[i].0 as i64) << 2;
        let to = |i: usize| (m[i].1 as i64) << 2;
        if let Some(i) = (0..m.len()).find(|&i| from(i) == v) {
            return to(i);
        }
        let k = (0..m.len()).find(|&i| v < from(i)).unwrap_or(m.len());
        if k == 0 {
            return v - from(0) + to(0);
        }
        if k == m.len() {
            return v - from(k - 1) + to(k - 1);
        }
        let (bf, bt, af, at) = (from(k - 1), to(k - 1), from(k), to(k));
        bt + mul_div_round(at - bt, v - bf, af - bf)
    }

    /// avar on an f64 normalized value, exact piecewise-linear evaluation (no quantisation
    /// of input or output).
    pub fn avar_map(&self, axis: usize, v: f64) -> f64 {
        let Some(m) = self.effective_segment_map(axis) else {
            return v;
        };
        let from = |i: usize| m[i].0 as f64 / 16384.0;
        let to = |i: usize| m[i].1 as f64 / 16384.0;
        if let Some(i) = (0..m.len()).find(|&i| from(i) == v) {
            return to(i);
        }
        let k = (0..m.len()).find(|&i| v < from(i)).unwrap_or(m.len());
        if k == 0 {
            return v - from(0) + to(0);
        }
        if k == m.len() {
            return v - from(k - 1) + to(k - 1);
        }
        let (bf, bt, af, at) = (from(k - 1), to(k - 1), from(k), to(k));
        bt + (at - bt) * (v - bf) / (af - bf)
    }

    fn user_value_fixed(&self, axis: usize, user: &[(String, f64)]) -> i64 {
        // The last setting for a tag wins; a missing axis is at its default.
        let a = &self.axes[axis];
        user.iter()
            .rev()
            .find(|(t, _)| *t == a.tag)
            .map(|(_, v)| to_fixed(*v))
            .unwrap_or(a.default_fx as i64)
    }

    /// Full pipeline; result per fvar axis, quantised to F2Dot14 (value = bits / 16384).
    pub fn normalize(&self, user: &[(String, f64)]) -> Vec<f64> {
        self.normalize_bits(user, true)
            .into_iter()
            .map(|b| b as f64 / 16384.0)
            .collect()
    }

    /// Same, skipping avar.
    pub fn normalize_no_avar(&self, user: &[(String, f64)]) -> Vec<f64> {
        self.normalize_bits(user, false)
            .into_iter()
            .map(|b| b as f64 / 16384.0)
            .collect()
    }

    /// F2Dot14 raw bits per axis.
    pub fn normalize_bits(&self, user: &[(String, f64)], apply_avar: bool) -> Vec<i64> {
        (0..self.axes.len())
            .map(|i| {
                let u = self.user_value_fixed(i, user);
                let mut n = self.default_normalize_fixed(i, u);
                if apply_avar {
                    n = self.avar_map_fixed(i, n);
                }
                fixed_to_f2dot14_bits(n)
            })
            .collect()
    }
}

pub fn segment_map_has_required(m: &SegmentMap) -> bool {
    let has = |f: i16, t: i16| m.iter().any(|&(a, b)| a == f && b == t);
    has(-16384, -16384) && has(0, 0) && has(16384, 16384)
}

#[cfg(test)]
mod tests {
    use super::*;

    fn axes_one(min: f64, def: f64, max: f64, avar: Option<SegmentMap>) -> Axes {
        Axes {
            axes: vec![AxisInfo {
                tag: "wght".into(),
                min,
                default: def,
                max,
                name_id: 256,
                hidden: false,
                min_fx: to_fixed(min) as i32,
                default_fx: to_fixed(def) as i32,
                max_fx: to_fixed(max) as i32,
            }],
            instances: vec![],
            avar: avar.map(|m| vec![m]),
        }
    }

    fn u(v: f64) -> Vec<(String, f64)> {
        vec![("wght".to_string(), v)]
    }

    #[test]
    fn default_normalisation() {
        let a = axes_one(100.0, 400.0, 900.0, None);
        assert_eq!(a.normalize(&u(400.0)), vec![0.0]);
        assert_eq!(a.normalize(&u(100.0)), vec![-1.0]);
        assert_eq!(a.normalize(&u(900.0)), vec![1.0]);
        assert_eq!(a.normalize(&u(50.0)), vec![-1.0]);
        assert_eq!(a.normalize(&u(1900.0)), vec![1.0]);
        assert_eq!(a.normalize(&u(650.0)), vec![0.5]);
        assert_eq!(a.normalize(&u(250.0)), vec![-0.5]);
        assert_eq!(a.normalize(&[]), vec![0.0]);
        // 1/3 -> 16.16 0x5555 -> 2.14: (0x5555+2)>>2 = 0x1555
        assert_eq!(a.normalize_bits(&u(400.0 + 500.0 / 3.0), false), vec![0x1555]);
        // unknown tags are ignored, last setting wins
        let us = vec![
            ("wdth".to_string(), 5.0),
            ("wght".to_string(), 100.0),
            ("wght".to_string(), 900.0),
        ];
        assert_eq!(a.normalize(&us), vec![1.0]);
        // default at min / at max
        let a = axes_one(400.0, 400.0, 900.0, None);
        assert_eq!(a.normalize(&u(300.0)), vec![0.0]);
        assert_eq!(a.normalize(&u(900.0)), vec![1.0]);
        let a = axes_one(100.0, 400.0, 400.0, None);
        assert_eq!(a.normalize(&u(900.0)), vec![0.0]);
        assert_eq!(a.normalize(&u(100.0)), vec![-1.0]);
    }

    #[test]
    fn avar_segments() {
        let f = |x: f64| (x * 16384.0).round() as i16;
        let m: SegmentMap = vec![
            (f(-1.0), f(-1.0)),
            (f(-0.5), f(-0.75)),
            (f(0.0), f(0.0)),
            (f(0.5), f(0.25)),
            (f(1.0), f(1.0)),
        ];
        let a = axes_one(100.0, 400.0, 900.0, Some(m));
        assert_eq!(a.avar_map(0, 0.5), 0.25);
        assert_eq!(a.avar_map(0, 0.25), 0.125);
        assert_eq!(a.avar_map(0, 0.75), 0.625);
        assert_eq!(a.avar_map(0, -0.25), -0.375);
        assert_eq!(a.avar_map(0, -0.75), -0.875);
        assert_eq!(a.avar_map(0, 1.0), 1.0);
        assert_eq!(a.avar_map(0, -1.0), -1.0);
        assert_eq!(a.avar_map(0, 0.0), 0.0);
        // through the full pipeline: user 650 -> 0.5 -> 0.25
        assert_eq!(a.normalize(&u(650.0)), vec![0.25]);
        assert_eq!(a.normalize_no_avar(&u(650.0)), vec![0.5]);
        // fixed and float evaluation agree to 2^-16 on a sweep
        for i in -65536i64..=65536 {
            if i % 97 != 0 {
                continue;
            }
            let fx = a.avar_map_fixed(0, i) as f64 / 65536.0;
            let fl = a.avar_map(0, i as f64 / 65536.0);
            assert!((fx - fl).abs() <= 0.5 / 65536.0 + 1e-12, "{i}: {fx} {fl}");
        }
        // a map lacking a required node is ignored (spec)
        let bad: SegmentMap = vec![(f(-1.0), f(-1.0)), (f(0.5), f(0.25)), (f(1.0), f(1.0))];
        let a = axes_one(100.0, 400.0, 900.0, Some(bad));
        assert_eq!(a.avar_map(0, 0.5), 0.5);
        // an empty map is the identity
        let a = axes_one(100.0, 400.0, 900.0, Some(vec![]));
        assert_eq!(a.avar_map(0, 0.3), 0.3);
    }
}
