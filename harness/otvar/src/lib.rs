//! `otvar` — an independent OpenType variation evaluator (part of the trusted base).
//!
//! Everything here is written from the OpenType specification on top of raw table bytes:
//!
//! * [`axes`]  — fvar axis records, default normalisation, avar v1 segment maps;
//! * [`glyf`]  — glyf/loca decoding (simple glyph points, component records);
//! * [`gvar`]  — gvar header, tuple variation headers, packed point numbers and deltas,
//!   tuple scalars (implied and intermediate regions), IUP inference;
//! * [`ivs`]   — ItemVariationStore and DeltaSetIndexMap (HVAR, VVAR, MVAR, GDEF);
//! * [`font`]  — [`VFont`], tying the above together: a glyph at a location, the outline
//!   through the component graph, advances, MVAR/GDEF deltas, non-vacuity counters;
//! * [`crosscheck`] — the only place skrifa is used: a second opinion on outlines/advances.
//!
//! read-fonts is used for the sfnt table directory and the `post` glyph names only.
//!
//! Numbers: coordinates and deltas are f64 and never rounded by the evaluator (callers bound
//! errors themselves; [`InstGlyph::rounded`] gives the `floor(x + 0.5)` variant). Normalized
//! coordinates are F2Dot14 values represented exactly as f64.

pub mod axes;
pub mod crosscheck;
pub mod font;
pub mod glyf;
pub mod gvar;
pub mod ivs;
pub mod rd;

pub use axes::{Axes, AxisInfo, InstanceInfo};
pub use crosscheck::{CrossCheck, crosscheck_skrifa, crosscheck_skrifa_detail};
pub use font::{
    Comp, Contour, InstGlyph, InstKind, MAX_COMPONENT_DEPTH, MetricsVarInfo, Pt, Resolved, VFont,
    ot_round,
};
pub use gvar::{GvarStats, TupleVar};
pub use ivs::{DeltaSetIndexMap, ItemVarStore};
