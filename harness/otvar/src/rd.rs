//! Minimal bounds-checked big-endian reader. Every table in this crate is decoded from raw
//! bytes with this reader so that the reference does not inherit decoding decisions from
//! the library that the product itself is built on.

#[derive(Clone, Copy, Debug)]
pub struct Rd<'a> {
    pub data: &'a [u8],
}

fn oob(what: &str, off: usize, len: usize) -> String {
    format!("read {what} at {off} out of bounds (len {len})")
}

impl<'a> Rd<'a> {
    pub fn new(data: &'a [u8]) -> Self {
        Rd { data }
    }
    pub fn len(&self) -> usize {
        self.data.len()
    }
    pub fn is_empty(&self) -> bool {
        self.data.is_empty()
    }
    pub fn u8(&self, off: usize) -> Result<u8, String> {
        self.data
            .get(off)
            .copied()
            .ok_or_else(|| oob("u8", off, self.data.len()))
    }
    pub fn i8(&self, off: usize) -> Result<i8, String> {
        Ok(self.u8(off)? as i8)
    }
    pub fn u16(&self, off: usize) -> Result<u16, String> {
        match self.data.get(off..off.wrapping_add(2)) {
            Some(b) => Ok(u16::from_be_bytes([b[0], b[1]])),
            None => Err(oob("u16", off, self.data.len())),
        }
    }
    pub fn i16(&self, off: usize) -> Result<i16, String> {
        Ok(self.u16(off)? as i16)
    }
    pub fn u32(&self, off: usize) -> Result<u32, String> {
        match self.data.get(off..off.wrapping_add(4)) {
            Some(b) => Ok(u32::from_be_bytes([b[0], b[1], b[2], b[3]])),
            None => Err(oob("u32", off, self.data.len())),
        }
    }
    pub fn i32(&self, off: usize) -> Result<i32, String> {
        Ok(self.u32(off)? as i32)
    }
    /// F2Dot14 as an exactly representable f64 (k / 16384).
    pub fn f2dot14(&self, off: usize) -> Result<f64, String> {
        Ok(self.i16(off)? as f64 / 16384.0)
    }
    /// Fixed 16.16 as an exactly representable f64 (k / 65536).
    pub fn fixed(&self, off: usize) -> Result<f64, String> {
        Ok(self.i32(off)? as f64 / 65536.0)
    }
    pub fn tag(&self, off: usize) -> Result<String, String> {
        match self.data.get(off..off.wrapping_add(4)) {
            Some(b) => Ok(b.iter().map(|&c| c as char).collect()),
            None => Err(oob("tag", off, self.data.len())),
        }
    }
    /// Sub-reader starting at `off` (to the end).
    pub fn from(&self, off: usize) -> Result<Rd<'a>, String> {
        match self.data.get(off..) {
            Some(d) => Ok(Rd { data: d }),
            None => Err(oob("subtable", off, self.data.len())),
        }
    }
    /// Sub-reader of exactly `len` bytes starting at `off`.
    pub fn slice(&self, off: usize, len: usize) -> Result<Rd<'a>, String> {
        match off.checked_add(len).and_then(|e| self.data.get(off..e)) {
            Some(d) => Ok(Rd { data: d }),
            None => Err(oob("slice", off, self.data.len())),
        }
    }
}
