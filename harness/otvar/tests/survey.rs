//! `cargo test -p otvar --test survey -- --ignored --nocapture` prints, for every variable
//! fixture of the repo that the product compiles, which evaluator paths it would exercise.
mod common;
use common::*;
use otvar::VFont;

fn sources(dir: &std::path::Path, out: &mut Vec<String>, depth: usize) {
    let Ok(rd) = std::fs::read_dir(dir) else { return };
    for e in rd.flatten() {
        let p = e.path();
        let name = p.file_name().unwrap().to_string_lossy().to_string();
        let ext = p.extension().map(|e| e.to_string_lossy().to_string()).unwrap_or_default();
        if ext == "designspace" || ext == "glyphs" || ext == "glyphspackage" {
            out.push(p.strip_prefix(TESTDATA).unwrap().to_string_lossy().to_string());
        } else if p.is_dir() && ext != "ufo" && depth < 2 && !name.starts_with('.') {
            sources(&p, out, depth + 1);
        }
    }
}

#[test]
#[ignore]
fn survey() {
    let mut srcs = vec![];
    sources(std::path::Path::new(TESTDATA), &mut srcs, 0);
    srcs.sort();
    for s in srcs {
        let bytes = match compile_with(&s, &[]) {
            Ok(b) => b,
            Err(_) => continue,
        };
        let f = match VFont::new(&bytes) {
            Ok(f) => f,
            Err(e) => {
                println!("{s}: VFont error {e}");
                continue;
            }
        };
        if f.axes().is_empty() {
            continue;
        }
        let (st, long, shared) = f.gvar_stats_total();
        let mut composites = 0;
        let mut comp_with_deltas = 0;
        let mut xf = 0;
        for g in 0..f.num_glyphs() {
            if let Ok(r) = f.raw_glyph(g) {
                if let otvar::glyf::RawGlyphKind::Composite { components } = &r.kind {
                    composites += 1;
                    if f.gvar_stats(g).tuples > 0 {
                        comp_with_deltas += 1;
                    }
                    if components.iter().any(|c| c.has_transform()) {
                        xf += 1;
                    }
                }
            }
        }
        println!(
            "{s}: glyphs={} axes={} avar={} tuples={} interm={} embedded={} private={} shared_pts={} all={} omitted={} long_off={} shared_tuples={} composites={} comp_var={} comp_xf={} hvar={:?} vvar={} mvar={:?} gdef_store={}",
            f.num_glyphs(),
            f.axes().len(),
            f.axes_data().avar.as_ref().map(|m| m.iter().map(|x| x.len()).sum::<usize>()).unwrap_or(0),
            st.tuples, st.intermediate, st.embedded_peak, st.private_points, st.shared_points, st.all_points, st.points_omitted,
            long, shared, composites, comp_with_deltas, xf,
            { let h = f.hvar_info(); (h.present, h.indirect, h.subtables, h.map_entry_format) },
            f.vvar_info().present,
            f.mvar_tags().len(),
            f.gdef_store().is_some(),
        );
    }
}

/// Every variable fixture of the repo: all glyphs at all region peaks and corners against
/// skrifa. `cargo test -p otvar --test survey -- --ignored --nocapture survey_crosscheck`
#[test]
#[ignore]
fn survey_crosscheck() {
    let mut srcs = vec![];
    sources(std::path::Path::new(TESTDATA), &mut srcs, 0);
    srcs.sort();
    let (mut fonts, mut checks, mut bad) = (0, 0, 0);
    let mut worst_u: f64 = 0.0;
    let mut worst_r: f64 = 0.0;
    for s in srcs {
        let Ok(bytes) = compile_with(&s, &[]) else { continue };
        let Ok(f) = VFont::new(&bytes) else { continue };
        let n = f.axes().len();
        if n == 0 {
            continue;
        }
        fonts += 1;
        let mut locs: Vec<Vec<f64>> = vec![vec![0.0; n]];
        for g in 0..f.num_glyphs() {
            for t in f.glyph_tuples(g).unwrap() {
                if !locs.contains(&t.peak) {
                    locs.push(t.peak.clone());
                }
            }
        }
        for l in grid(n.min(2), &[0.5, -0.5, 0.3]) {
            let mut l = l;
            l.resize(n, 0.0);
            let l: Vec<f64> = l.iter().map(|c| (c * 16384.0).round() / 16384.0).collect();
            if !locs.contains(&l) {
                locs.push(l);
            }
        }
        for loc in &locs {
            for g in 0..f.num_glyphs() {
                checks += 1;
                match otvar::crosscheck_skrifa_detail(&bytes, g, loc) {
                    Ok(c) => {
                        if !c.ok() {
                            bad += 1;
                            println!("MISMATCH {s} gid {g} at {loc:?}: {c:?}");
                        }
                        worst_u = worst_u.max(c.unrounded_diff / c.unrounded_tolerance);
                        worst_r = worst_r.max(c.rounded_diff / c.rounded_tolerance);
                    }
                    Err(e) => {
                        bad += 1;
                        println!("ERROR {s} gid {g} at {loc:?}: {e}");
                    }
                }
            }
        }
    }
    println!("survey_crosscheck: fonts={fonts} glyph-locations={checks} bad={bad} worst unrounded diff/tol={worst_u:.3} worst rounded diff/tol={worst_r:.3}");
    assert_eq!(bad, 0);
}
