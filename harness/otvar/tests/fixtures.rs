//! Evaluator vs. fonts compiled by the product from the repo's fixtures.
//!
//! For each fixture:
//!  * default location: `glyph_at` equals the glyf table exactly (own decoder) and equals
//!    read-fonts' decoding of glyf (points, on-curve flags, contour ends, components);
//!    phantom points reproduce hmtx;
//!  * at every master location (the distinct tuple/region peaks found in gvar and HVAR), the
//!    corners {-1,0,1}^n and a few off-master locations: outline, phantom advance and metric
//!    advance agree with skrifa within the derived tolerances (`CrossCheck::ok`), every glyph;
//!  * normalisation agrees with skrifa (fvar + avar) bit-for-bit on a grid of user values;
//!  * every delta set of the HVAR / MVAR / GDEF stores agrees with read-fonts'
//!    `compute_float_delta` (second opinion, f32 scalars);
//!  * the paths the fixture was chosen for are really present (`gvar_stats` etc.).
mod common;
use common::*;
use otvar::glyf::RawGlyphKind;
use otvar::{GvarStats, InstKind, VFont, crosscheck_skrifa_detail};
use skrifa::MetadataProvider;
use write_fonts::read::tables::glyf::{Anchor, Glyph};
use write_fonts::read::tables::variations::{
    DeltaSetIndex, FloatItemDeltaTarget, ItemVariationStore,
};
use write_fonts::read::types::{F2Dot14, FWord, GlyphId, Tag};
use write_fonts::read::{FontRef, TableProvider};

#[derive(Debug, Default)]
struct Coverage {
    locations: usize,
    glyph_locations: usize,
    points_compared: usize,
    max_unrounded: f64,
    max_unrounded_tol: f64,
    max_rounded: f64,
    max_phantom_adv: f64,
    max_metric_adv: f64,
    norm_values: usize,
    norm_mismatch: usize,
    store_deltas: usize,
    stats: GvarStats,
    composites: usize,
    composites_with_deltas: usize,
    transformed_components: usize,
    use_my_metrics: usize,
    max_depth: usize,
    incomparable: usize,
}

/// Distinct normalized locations at which some region of the font peaks: the masters.
fn master_locations(f: &VFont) -> Vec<Vec<f64>> {
    let n = f.axes().len();
    let mut locs: Vec<Vec<f64>> = vec![vec![0.0; n]];
    let mut push = |l: Vec<f64>| {
        if !locs.contains(&l) {
            locs.push(l);
        }
    };
    for g in 0..f.num_glyphs() {
        for t in f.glyph_tuples(g).unwrap() {
            push(t.peak.clone());
        }
    }
    if let Some(s) = f.hvar_store() {
        for r in &s.regions {
            push(r.iter().map(|a| a.1).collect());
        }
    }
    locs
}

fn check_default_location(label: &str, bytes: &[u8], f: &VFont) {
    let font = FontRef::new(bytes).unwrap();
    let glyf = font.glyf().unwrap();
    let loca = font.loca(None).unwrap();
    let zeros = vec![0.0; f.axes().len()];
    for gid in 0..f.num_glyphs() {
        let inst = f.glyph_at(gid, &zeros).unwrap();
        let raw = f.raw_glyph(gid).unwrap();
        let rf = loca.get_glyf(GlyphId::new(gid as u32), &glyf).unwrap();
        match (&inst.kind, &raw.kind, &rf) {
            (InstKind::Empty, RawGlyphKind::Empty, None) => {}
            (
                InstKind::Simple { contours },
                RawGlyphKind::Simple { points, end_pts },
                Some(Glyph::Simple(s)),
            ) => {
                let flat: Vec<_> = contours.iter().flatten().collect();
                assert_eq!(flat.len(), points.len(), "{label} gid {gid}");
                for (a, b) in flat.iter().zip(points) {
                    assert!(a.x == b.x as f64 && a.y == b.y as f64 && a.on == b.on);
                }
                let rf_pts: Vec<_> = s.points().collect();
                assert_eq!(rf_pts.len(), points.len(), "{label} gid {gid}");
                for (a, b) in rf_pts.iter().zip(points) {
                    assert_eq!((a.x as i32, a.y as i32, a.on_curve), (b.x, b.y, b.on), "{label} gid {gid}");
                }
                let rf_ends: Vec<u16> = s.end_pts_of_contours().iter().map(|e| e.get()).collect();
                assert_eq!(&rf_ends, end_pts);
                let lens: Vec<usize> = contours.iter().map(|c| c.len()).collect();
                let mut prev = 0usize;
                for (l, e) in lens.iter().zip(end_pts) {
                    assert_eq!(*l, *e as usize + 1 - prev);
                    prev = *e as usize + 1;
                }
            }
            (
                InstKind::Composite { components },
                RawGlyphKind::Composite { components: rc },
                Some(Glyph::Composite(c)),
            ) => {
                let rfc: Vec<_> = c.components().collect();
                assert_eq!(components.len(), rfc.len());
                assert_eq!(rc.len(), rfc.len());
                for (a, b) in components.iter().zip(&rfc) {
                    assert_eq!(a.gid, b.glyph.to_u16());
                    assert_eq!(a.flags, b.flags.bits());
                    match b.anchor {
                        Anchor::Offset { x, y } => {
                            assert!(a.dx == x as f64 && a.dy == y as f64, "{label} gid {gid}")
                        }
                        Anchor::Point { base, component } => {
                            assert_eq!((a.arg1, a.arg2), (base as i32, component as i32))
                        }
                    }
                    assert_eq!(a.xx, b.transform.xx.to_f32() as f64);
                    assert_eq!(a.yx, b.transform.yx.to_f32() as f64);
                    assert_eq!(a.xy, b.transform.xy.to_f32() as f64);
                    assert_eq!(a.yy, b.transform.yy.to_f32() as f64);
                }
            }
            other => panic!("{label} gid {gid}: kinds disagree: {other:?}"),
        }
        // phantom points reproduce hmtx at the default location
        assert_eq!(inst.advance_from_phantoms, f.h_advance_default(gid), "{label} gid {gid}");
        assert_eq!(inst.phantoms[0].0, raw.x_min as f64 - f.h_lsb_default(gid));
        assert_eq!(inst.phantom_deltas, [(0.0, 0.0); 4]);
        assert_eq!(f.h_advance_at(gid, &zeros), f.h_advance_default(gid));
        // rounded() is the identity on integers
        assert_eq!(inst.rounded(), inst);
    }
}

fn check_against_skrifa(label: &str, bytes: &[u8], f: &VFont, locs: &[Vec<f64>], cov: &mut Coverage) {
    for loc in locs {
        cov.locations += 1;
        for gid in 0..f.num_glyphs() {
            let c = crosscheck_skrifa_detail(bytes, gid, loc)
                .unwrap_or_else(|e| panic!("{label} gid {gid} at {loc:?}: {e}"));
            assert!(c.ok(), "{label} gid {gid} at {loc:?}: {c:?}");
            cov.glyph_locations += 1;
            cov.points_compared += c.points;
            if c.scaled_offset_differs || c.anchored_transformed {
                cov.incomparable += 1;
            } else {
                cov.max_unrounded = cov.max_unrounded.max(c.unrounded_diff);
                cov.max_rounded = cov.max_rounded.max(c.rounded_diff);
            }
            cov.max_unrounded_tol = cov.max_unrounded_tol.max(c.unrounded_tolerance);
            cov.max_phantom_adv = cov.max_phantom_adv.max(c.phantom_advance_diff);
            cov.max_metric_adv = cov.max_metric_adv.max(c.metrics_advance_diff);
        }
    }
}

fn check_normalize(label: &str, bytes: &[u8], f: &VFont, cov: &mut Coverage) {
    let font = skrifa::FontRef::new(bytes).unwrap();
    let axes = f.axes();
    for (i, a) in axes.iter().enumerate() {
        // a grid of f32-exact user values across (and beyond) the axis range
        let span = a.max - a.min;
        let mut values = vec![a.min - 10.0, a.min, a.default, a.max, a.max + 10.0];
        for k in 0..=64 {
            values.push((a.min + span * k as f64 / 64.0) as f32 as f64);
        }
        for k in 0..100 {
            // quarter-unit steps around the default
            values.push(a.default + (k as f64 - 50.0) * 0.25);
        }
        for v in values {
            let user = vec![(a.tag.clone(), v)];
            let ours = f.normalize(&user);
            let loc = font.axes().location([(a.tag.as_str(), v as f32)]);
            let theirs: Vec<f64> = loc.coords().iter().map(|c| c.to_bits() as f64 / 16384.0).collect();
            cov.norm_values += 1;
            if ours != theirs {
                cov.norm_mismatch += 1;
                let d = (ours[i] - theirs[i]).abs();
                assert!(
                    d <= 1.0 / 16384.0,
                    "{label} axis {} user {v}: ours {ours:?} skrifa {theirs:?}",
                    a.tag
                );
            }
            // consistency of the pieces
            let no_avar = f.normalize_no_avar(&user);
            let via_f64 = f.avar_map(i, no_avar[i]);
            assert!(
                (via_f64 - ours[i]).abs() <= slope_allowance(f, i) / 16384.0,
                "{label} axis {} user {v}: avar_map(normalize_no_avar) {via_f64} vs normalize {}",
                a.tag,
                ours[i]
            );
        }
    }
}

/// `avar_map(normalize_no_avar(u))` quantises before the map, `normalize` after it: they may
/// differ by (steepest slope + 1) F2Dot14 units.
fn slope_allowance(f: &VFont, axis: usize) -> f64 {
    let mut s: f64 = 1.0;
    if let Some(m) = f.axes_data().effective_segment_map(axis) {
        for w in m.windows(2) {
            let (df, dt) = ((w[1].0 - w[0].0) as f64, (w[1].1 - w[0].1) as f64);
            if df > 0.0 {
                s = s.max((dt / df).abs());
            }
        }
    }
    s + 1.0
}

fn check_store(
    label: &str,
    ours: &otvar::ItemVarStore,
    theirs: &ItemVariationStore,
    locs: &[Vec<f64>],
    cov: &mut Coverage,
) {
    for loc in locs {
        let coords: Vec<F2Dot14> = loc.iter().map(|c| F2Dot14::from_f32(*c as f32)).collect();
        for (outer, d) in ours.data.iter().enumerate() {
            for inner in 0..d.delta_sets.len() {
                let a = ours.delta(outer as u16, inner as u16, loc).unwrap();
                let b = theirs
                    .compute_float_delta(
                        DeltaSetIndex { outer: outer as u16, inner: inner as u16 },
                        &coords,
                    )
                    .unwrap();
                let b = FWord::new(0).apply_float_delta(b) as f64;
                let mass: f64 = d.delta_sets[inner].iter().map(|v| (*v as f64).abs()).sum();
                assert!(
                    (a - b).abs() <= 1e-6 * (mass + 1.0),
                    "{label} store ({outer},{inner}) at {loc:?}: ours {a} read-fonts {b}"
                );
                cov.store_deltas += 1;
            }
        }
    }
}

fn check_font(label: &str, bytes: &[u8]) -> Coverage {
    let f = VFont::new(bytes).unwrap_or_else(|e| panic!("{label}: {e}"));
    let mut cov = Coverage::default();
    let n = f.axes().len();
    assert!(n > 0, "{label}: not a variable font");

    // names
    let names = f.glyph_names();
    assert_eq!(names.len(), f.num_glyphs() as usize);
    for (i, nm) in names.iter().enumerate() {
        // the first glyph with a name wins when names repeat
        let first = names.iter().position(|x| x == nm).unwrap();
        assert_eq!(f.gid_for_name(nm), Some(first as u16), "{label} {i}");
    }

    check_default_location(label, bytes, &f);

    let mut locs = master_locations(&f);
    let masters = locs.len();
    for l in grid(n.min(3), &[0.5, -0.5, 0.25, 0.75, -0.3333, 0.1]) {
        let mut l = l;
        l.resize(n, 0.0);
        // quantise as the font would see it
        let l: Vec<f64> = l.iter().map(|c| (c * 16384.0).round() / 16384.0).collect();
        if !locs.contains(&l) {
            locs.push(l);
        }
    }
    check_against_skrifa(label, bytes, &f, &locs, &mut cov);
    check_normalize(label, bytes, &f, &mut cov);

    let rf = FontRef::new(bytes).unwrap();
    if let (Some(s), Ok(h)) = (f.hvar_store(), rf.hvar()) {
        check_store(label, s, &h.item_variation_store().unwrap(), &locs, &mut cov);
    }
    if let (Some(s), Ok(m)) = (f.mvar_store(), rf.mvar()) {
        check_store(label, s, &m.item_variation_store().unwrap().unwrap(), &locs, &mut cov);
        // and through the tag lookup
        for tag in f.mvar_tags() {
            for loc in &locs {
                let coords: Vec<F2Dot14> = loc.iter().map(|c| F2Dot14::from_f32(*c as f32)).collect();
                let t = Tag::new_checked(tag.as_bytes()).unwrap();
                let theirs = m.metric_delta(t, &coords).unwrap().to_f64();
                let ours = f.mvar_delta(&tag, loc);
                assert!((ours - theirs).abs() <= 0.5 + 0.02, "{label} MVAR {tag} at {loc:?}: {ours} vs {theirs}");
            }
        }
        assert_eq!(f.mvar_delta("zzzz", &locs[1]), 0.0);
    }
    if let (Some(s), Ok(g)) = (f.gdef_store(), rf.gdef()) {
        check_store(label, s, &g.item_var_store().unwrap().unwrap(), &locs, &mut cov);
    }
    // HVAR advances against read-fonts' own lookup (map decoding second opinion)
    if let Ok(h) = rf.hvar() {
        for loc in &locs {
            let coords: Vec<F2Dot14> = loc.iter().map(|c| F2Dot14::from_f32(*c as f32)).collect();
            for gid in 0..f.num_glyphs() {
                let theirs = h.advance_width_delta(GlyphId::new(gid as u32), &coords).unwrap().to_f64();
                let ours = f.h_advance_delta(gid, loc).unwrap_or(0.0);
                assert!((ours - theirs).abs() <= 0.5 + 0.02, "{label} HVAR gid {gid} at {loc:?}: {ours} vs {theirs}");
            }
        }
    }

    // structure counters
    let (stats, _, _) = f.gvar_stats_total();
    cov.stats = stats;
    let zeros = vec![0.0; n];
    for gid in 0..f.num_glyphs() {
        if let RawGlyphKind::Composite { components } = f.raw_glyph(gid).unwrap().kind {
            cov.composites += 1;
            if f.gvar_stats(gid).tuples > 0 {
                cov.composites_with_deltas += 1;
            }
            cov.transformed_components += components.iter().filter(|c| c.has_transform()).count();
            cov.use_my_metrics += components
                .iter()
                .filter(|c| c.flags & otvar::glyf::USE_MY_METRICS != 0)
                .count();
            cov.max_depth = cov.max_depth.max(f.resolve(gid, &zeros).unwrap().depth);
        }
    }
    println!("COVERAGE {label}: masters={masters} {cov:?}");
    cov
}

#[test]
fn wght_var_designspace() {
    let bytes = compile("wght_var.designspace");
    let cov = check_font("wght_var.designspace", &bytes);
    let f = VFont::new(&bytes).unwrap();
    // chosen for: intermediate regions, private + shared point numbers, IUP-omitted points,
    // embedded peak tuple, indirect HVAR
    assert!(cov.stats.intermediate >= 1, "{cov:?}");
    assert!(cov.stats.private_points >= 1 && cov.stats.shared_points >= 1, "{cov:?}");
    assert!(cov.stats.private_explicit >= 1, "{cov:?}");
    assert!(cov.stats.points_omitted >= 1 && cov.stats.tuples_with_omitted >= 1, "{cov:?}");
    assert!(cov.stats.embedded_peak >= 1, "{cov:?}");
    assert!(f.hvar_info().indirect);
    assert_eq!(cov.norm_mismatch, 0);
    let ax = f.axes();
    assert_eq!((ax[0].tag.as_str(), ax[0].min, ax[0].default, ax[0].max), ("wght", 400.0, 400.0, 700.0));
}

#[test]
fn glyphs3_intermediate_layer_two_axes() {
    let bytes = compile("glyphs3/IntermediateLayer.glyphs");
    let cov = check_font("glyphs3/IntermediateLayer.glyphs", &bytes);
    assert!(cov.stats.intermediate >= 1, "{cov:?}");
    assert!(cov.stats.private_points >= 1 && cov.stats.shared_points >= 1);
    assert!(cov.stats.points_omitted >= 1);
    assert!(cov.composites_with_deltas >= 1, "{cov:?}");
    assert_eq!(cov.norm_mismatch, 0);
}

#[test]
fn glyphs3_brace_layers_multi_subtable_hvar() {
    let bytes = compile("glyphs3/NonExportWithBraceLayer.glyphs");
    let cov = check_font("glyphs3/NonExportWithBraceLayer.glyphs", &bytes);
    let f = VFont::new(&bytes).unwrap();
    assert!(cov.stats.intermediate >= 1);
    assert!(cov.composites_with_deltas >= 1);
    let h = f.hvar_info();
    assert!(h.indirect && h.subtables >= 2, "{h:?}");
}

#[test]
fn glyphs2_implicit_axes_and_3master() {
    check_font("glyphs2/WghtVar_ImplicitAxes.glyphs", &compile("glyphs2/WghtVar_ImplicitAxes.glyphs"));
    let cov = check_font(
        "glyphs3/WghtVar_3master_CustomOrigin.glyphs",
        &compile("glyphs3/WghtVar_3master_CustomOrigin.glyphs"),
    );
    assert!(cov.stats.intermediate >= 1 && cov.stats.points_omitted >= 1);
}

#[test]
fn composites_with_component_deltas() {
    let cov = check_font("glyphs3/WghtVarComposite.glyphs", &compile("glyphs3/WghtVarComposite.glyphs"));
    assert!(cov.composites_with_deltas >= 1, "{cov:?}");
    let cov = check_font(
        "glyphs3/NestedNoExportComponent.glyphs",
        &compile("glyphs3/NestedNoExportComponent.glyphs"),
    );
    assert!(cov.composites_with_deltas >= 1, "{cov:?}");
    // a larger font: 25 composites, two with transforms, nested
    let cov = check_font(
        "glyphs3/PropagateAnchorsTest.glyphs",
        &compile("glyphs3/PropagateAnchorsTest.glyphs"),
    );
    assert!(cov.composites >= 20 && cov.composites_with_deltas >= 20, "{cov:?}");
    assert!(cov.transformed_components >= 1, "{cov:?}");
}

#[test]
fn avar_fixtures() {
    for src in [
        "glyphs3/WghtVar_Avar.glyphs",
        "glyphs3/WghtVar_Avar_From_Instances.glyphs",
        "glyphs2/OpszWghtVar_AxisMappings.glyphs",
        "mapping.designspace",
        "glyphs3/Oswald-AE-comb.glyphs",
    ] {
        let bytes = compile(src);
        let cov = check_font(src, &bytes);
        let f = VFont::new(&bytes).unwrap();
        let maps = f.axes_data().avar.clone().expect("avar");
        assert!(maps.iter().any(|m| m.len() > 3), "{src}: avar has no interior node");
        assert_eq!(cov.norm_mismatch, 0, "{src}");
        assert!(cov.norm_values > 100);
        // required nodes and monotonicity hold in the product's own output
        for (i, m) in maps.iter().enumerate() {
            if !m.is_empty() {
                assert!(f.axes_data().effective_segment_map(i).is_some(), "{src} axis {i}");
                assert_eq!(f.avar_map(i, -1.0), -1.0);
                assert_eq!(f.avar_map(i, 0.0), 0.0);
                assert_eq!(f.avar_map(i, 1.0), 1.0);
            }
        }
    }
}

#[test]
fn mvar_designspace() {
    let bytes = compile("MVAR.designspace");
    let cov = check_font("MVAR.designspace", &bytes);
    let f = VFont::new(&bytes).unwrap();
    assert!(f.mvar_tags().len() >= 3, "{:?}", f.mvar_tags());
    // this font's glyphs use an explicit shared point-number list
    assert!(cov.stats.shared_explicit >= 1, "{cov:?}");
    assert!(cov.store_deltas > 0);
    // at least one tag really varies
    let loc = master_locations(&f).into_iter().find(|l| l.iter().any(|c| *c != 0.0)).unwrap();
    assert!(f.mvar_tags().iter().any(|t| f.mvar_delta(t, &loc) != 0.0));
}

#[test]
fn hvar_direct_and_indirect_and_vvar() {
    for (src, indirect) in [
        ("HVVAR/SingleModel_Direct/SingleModelDirect.designspace", false),
        ("HVVAR/SingleModel_Indirect/SingleModelIndirect.designspace", true),
        ("HVVAR/MultiModel_Indirect/MultiModelIndirect.designspace", true),
    ] {
        let bytes = compile(src);
        check_font(src, &bytes);
        let f = VFont::new(&bytes).unwrap();
        let h = f.hvar_info();
        assert_eq!(h.indirect, indirect, "{src}: {h:?}");
        // these fixtures build vertical metrics: VVAR against read-fonts' lookup
        let v = f.vvar_info();
        assert!(v.present, "{src}: no VVAR");
        assert_eq!(v.indirect, indirect, "{src}: {v:?}");
        let rf = FontRef::new(&bytes).unwrap();
        let vvar = rf.vvar().unwrap();
        let mut varying = 0;
        for loc in master_locations(&f) {
            let coords: Vec<F2Dot14> = loc.iter().map(|c| F2Dot14::from_f32(*c as f32)).collect();
            for gid in 0..f.num_glyphs() {
                let theirs = vvar.advance_height_delta(GlyphId::new(gid as u32), &coords).unwrap().to_f64();
                let ours = f.v_advance_delta(gid, &loc).unwrap_or(0.0);
                assert!((ours - theirs).abs() <= 0.5 + 0.02, "{src} VVAR gid {gid}: {ours} vs {theirs}");
                let at = f.v_advance_at(gid, &loc).expect("vmtx");
                assert_eq!(at, f.v_advance_default(gid).unwrap() + ours);
                if ours != 0.0 {
                    varying += 1;
                }
                // vertical phantom points carry the same information
                let g = f.glyph_at(gid, &loc).unwrap();
                assert!(
                    (g.v_advance_from_phantoms - at).abs() <= 1.0,
                    "{src} gid {gid} at {loc:?}: phantom v-advance {} vs vmtx+VVAR {at}",
                    g.v_advance_from_phantoms
                );
            }
        }
        assert!(varying > 0, "{src}: VVAR never varies");
    }
}

#[test]
fn more_fixtures_smoke() {
    // breadth: everything else that showed a distinct shape in the survey
    for src in [
        "glyphs3/WghtVar.glyphs",
        "glyphs2/MasterNames.glyphs",          // 3 axes, embedded peaks
        "glyphs3/StandardAxisNames.glyphs",    // 6 axes
        "mov_xy.designspace",                  // 2 axes
        "glyphs2/BracketTestFontKerning.glyphs",
        "glyphs3/LinkMetricsWithMaster.glyphs",
        "glyphs2/WorkSans-minimal-bracketlayer.glyphs",
        "glyphs3/ComponentPointRounding.glyphs",
    ] {
        check_font(src, &compile(src));
    }
}
