//! Shared helpers for the integration tests: compile a repo fixture with the product binary
//! into /dev/shm/otvar-* and clean up afterwards.
#![allow(dead_code)]

use std::path::{Path, PathBuf};
use std::process::Command;

pub const FONTC: &str = "/verif/target-repo/release/fontc";
pub const TESTDATA: &str = "/repo/resources/testdata";

/// Scratch directory removed on drop.
pub struct Scratch(pub PathBuf);

impl Scratch {
    pub fn new(label: &str) -> Scratch {
        let label: String = label
            .chars()
            .map(|c| if c.is_ascii_alphanumeric() { c } else { '_' })
            .collect();
        let p = PathBuf::from(format!("/dev/shm/otvar-{}-{}", std::process::id(), label));
        let _ = std::fs::remove_dir_all(&p);
        std::fs::create_dir_all(&p).unwrap();
        Scratch(p)
    }
}

impl Drop for Scratch {
    fn drop(&mut self) {
        let _ = std::fs::remove_dir_all(&self.0);
    }
}

/// Compile `rel` (relative to the repo's testdata dir) with extra CLI args; returns the
/// font bytes.
pub fn compile_with(rel: &str, extra: &[&str]) -> Result<Vec<u8>, String> {
    let src = Path::new(TESTDATA).join(rel);
    if !src.exists() {
        return Err(format!("fixture {} missing", src.display()));
    }
    let scratch = Scratch::new(&format!("{rel}{}", extra.join("")));
    let out = scratch.0.join("font.ttf");
    let build = scratch.0.join("build");
    let res = Command::new(FONTC)
        .arg(&src)
        .arg("-o")
        .arg(&out)
        .arg("-b")
        .arg(&build)
        .args(extra)
        .output()
        .map_err(|e| format!("spawn fontc: {e}"))?;
    if !res.status.success() {
        return Err(format!(
            "fontc failed on {rel}: {}\n{}",
            res.status,
            String::from_utf8_lossy(&res.stderr)
        ));
    }
    std::fs::read(&out).map_err(|e| format!("read {}: {e}", out.display()))
}

pub fn compile(rel: &str) -> Vec<u8> {
    compile_with(rel, &[]).unwrap_or_else(|e| panic!("{e}"))
}

/// All points of {-1,0,1}^n plus, per axis, the given extra values on that axis alone.
pub fn grid(n_axes: usize, extras: &[f64]) -> Vec<Vec<f64>> {
    let mut out: Vec<Vec<f64>> = vec![vec![]];
    for _ in 0..n_axes {
        let mut next = vec![];
        for p in &out {
            for v in [-1.0, 0.0, 1.0] {
                let mut q = p.clone();
                q.push(v);
                next.push(q);
            }
        }
        out = next;
    }
    for a in 0..n_axes {
        for &e in extras {
            let mut q = vec![0.0; n_axes];
            q[a] = e;
            out.push(q);
        }
    }
    if n_axes >= 2 {
        for &e in extras {
            out.push(vec![e; n_axes]);
        }
    }
    out
}
