//! A self-contained two-axis test font assembled with write-fonts' builders (an encoder that
//! is independent of this crate's decoders), built to hit the paths the product's fixtures
//! do not reach or reach only lightly:
//!
//!  * gvar long (32-bit) glyphVariationData offsets;
//!  * packed point numbers with POINTS_ARE_WORDS runs, explicit private point lists, shared
//!    point lists, "all points";
//!  * word deltas, zero runs;
//!  * single-axis and two-axis intermediate regions, corner regions, negative peaks;
//!  * IUP: whole-contour shift (one referenced point), interpolation, clamping, untouched
//!    contours, untouched phantoms;
//!  * composites: component offset deltas, uniform scale, x/y scale (flip), 2x2,
//!    USE_MY_METRICS, nesting, point-matching anchors, SCALED_COMPONENT_OFFSET;
//!  * HVAR direct with LONG_WORDS deltas, and HVAR through a format-1 DeltaSetIndexMap with
//!    3-byte entries.
//!
//! Expected values are asserted by hand-computed arithmetic for selected points, and every
//! glyph is compared with skrifa at a grid of locations.
mod common;

use otvar::glyf as og;
use otvar::{InstKind, VFont, crosscheck_skrifa_detail};
use write_fonts::FontBuilder;
use write_fonts::read::tables::glyf::CurvePoint;
use write_fonts::tables::fvar::{AxisInstanceArrays, Fvar, VariationAxisRecord};
use write_fonts::tables::glyf::{
    Anchor, Bbox, Component, ComponentFlags, CompositeGlyph, Contour, GlyfLocaBuilder, SimpleGlyph,
    Transform,
};
use write_fonts::tables::gvar::{GlyphDelta, GlyphDeltas, GlyphVariations, Gvar, Tent};
use write_fonts::tables::head::Head;
use write_fonts::tables::hhea::Hhea;
use write_fonts::tables::hmtx::{Hmtx, LongMetric};
use write_fonts::tables::hvar::Hvar;
use write_fonts::tables::maxp::Maxp;
use write_fonts::tables::post::Post;
use write_fonts::tables::variations::ivs_builder::VariationStoreBuilder;
use write_fonts::tables::variations::{
    DeltaSetIndexMap, EntryFormat, RegionAxisCoordinates, VariationRegion,
};
use write_fonts::types::{F2Dot14, FWord, Fixed, GlyphId, GlyphId16, NameId, Tag, UfWord};

const N_FILL: usize = 30;
const BIG_N: usize = 300;

fn f2(v: f64) -> F2Dot14 {
    F2Dot14::from_f32(v as f32)
}

fn tent(peak: f64) -> Tent {
    Tent::new(f2(peak), None)
}

fn tent3(min: f64, peak: f64, max: f64) -> Tent {
    Tent::new(f2(peak), Some((f2(min), f2(max))))
}

fn tri_points() -> (Vec<(i16, i16, bool)>, Vec<(i16, i16, bool)>) {
    (
        vec![(100, 0, true), (500, 0, true), (600, 300, false), (300, 700, true), (0, 300, false)],
        vec![(200, 100, true), (400, 100, true), (400, 300, true), (200, 300, true)],
    )
}

fn simple(contours: &[Vec<(i16, i16, bool)>]) -> SimpleGlyph {
    let mut g = SimpleGlyph {
        bbox: Bbox::default(),
        contours: contours
            .iter()
            .map(|c| {
                Contour::from(
                    c.iter().map(|&(x, y, on)| CurvePoint::new(x, y, on)).collect::<Vec<_>>(),
                )
            })
            .collect(),
        instructions: vec![],
    };
    g.recompute_bounding_box();
    g
}

fn big_points() -> Vec<(i16, i16, bool)> {
    (0..BIG_N)
        .map(|i| {
            let a = i as f64 / BIG_N as f64 * std::f64::consts::TAU;
            let r = if i % 2 == 0 { 400.0 } else { 380.0 };
            ((500.0 + r * a.cos()).round() as i16, (500.0 + r * a.sin()).round() as i16, true)
        })
        .collect()
}

struct Lcg(u64);
impl Lcg {
    fn next(&mut self) -> i16 {
        self.0 = self.0.wrapping_mul(6364136223846793005).wrapping_add(1442695040888963407);
        let v = ((self.0 >> 33) % 3800) as i16 - 1900;
        // keep away from the byte range so that runs are word runs
        if v.abs() < 130 { v + 300 } else { v }
    }
}

/// T1 deltas of "tri" (peak wght=1): every point (9 outline + 4 phantom) explicit.
fn tri_t1() -> Vec<(i16, i16)> {
    let mut d: Vec<(i16, i16)> = (0..9).map(|i| (7 * i as i16 + 1, -3 * i as i16 - 2)).collect();
    d.extend([(0, 0), (150, 0), (0, 0), (0, 0)]);
    d
}

#[derive(Clone, Copy, PartialEq)]
enum HvarMode {
    DirectLongWords,
    IndirectFormat1,
}

const GID_TRI: u16 = 1;
const GID_BIG: u16 = 2;
const GID_COMP: u16 = 3;
const GID_NEST: u16 = 4;
const GID_MATCH: u16 = 5;
const GID_SCALEDOFF: u16 = 6;
const GID_FILL0: u16 = 7;

fn build_font(mode: HvarMode) -> Vec<u8> {
    let n_glyphs = GID_FILL0 as usize + N_FILL;
    let (tri_a, tri_b) = tri_points();
    let tri = simple(&[tri_a.clone(), tri_b.clone()]);
    let big = simple(&[big_points()]);
    let comp_flags = |use_my_metrics: bool, scaled: bool| ComponentFlags {
        use_my_metrics,
        scaled_component_offset: scaled,
        ..Default::default()
    };
    let xf = |xx: f64, yx: f64, xy: f64, yy: f64| Transform {
        xx: f2(xx),
        yx: f2(yx),
        xy: f2(xy),
        yy: f2(yy),
    };
    let bb = Bbox { x_min: 0, y_min: 0, x_max: 1000, y_max: 1000 };

    // comp: tri scaled 0.5 at (50,60) with USE_MY_METRICS; big through a 2x2 at (-100,20)
    let mut comp = CompositeGlyph::new(
        Component::new(
            GlyphId16::new(GID_TRI),
            Anchor::Offset { x: 50, y: 60 },
            xf(0.5, 0.0, 0.0, 0.5),
            comp_flags(true, false),
        ),
        bb,
    );
    comp.add_component(
        Component::new(
            GlyphId16::new(GID_BIG),
            Anchor::Offset { x: -100, y: 20 },
            xf(0.75, 0.25, -0.25, 1.0),
            comp_flags(false, false),
        ),
        bb,
    );
    // nest: comp untransformed at (10,10); tri flipped in x at (700,0)
    let mut nest = CompositeGlyph::new(
        Component::new(
            GlyphId16::new(GID_COMP),
            Anchor::Offset { x: 10, y: 10 },
            Transform::default(),
            comp_flags(false, false),
        ),
        bb,
    );
    nest.add_component(
        Component::new(
            GlyphId16::new(GID_TRI),
            Anchor::Offset { x: 700, y: 0 },
            xf(-1.0, 0.0, 0.0, 1.0),
            comp_flags(false, false),
        ),
        bb,
    );
    // match: tri at origin; tri scaled 0.5 whose point 0 is matched onto parent point 3
    let mut matchg = CompositeGlyph::new(
        Component::new(
            GlyphId16::new(GID_TRI),
            Anchor::Offset { x: 0, y: 0 },
            Transform::default(),
            comp_flags(false, false),
        ),
        bb,
    );
    matchg.add_component(
        Component::new(
            GlyphId16::new(GID_TRI),
            Anchor::Point { base: 3, component: 0 },
            xf(0.5, 0.0, 0.0, 0.5),
            comp_flags(false, false),
        ),
        bb,
    );
    // scaledoff: tri scaled 0.5 at (100,200) with SCALED_COMPONENT_OFFSET
    let scaledoff = CompositeGlyph::new(
        Component::new(
            GlyphId16::new(GID_TRI),
            Anchor::Offset { x: 100, y: 200 },
            xf(0.5, 0.0, 0.0, 0.5),
            comp_flags(false, true),
        ),
        bb,
    );

    let mut gl = GlyfLocaBuilder::new();
    gl.add_glyph(&SimpleGlyph::default()).unwrap(); // .notdef, empty
    gl.add_glyph(&tri).unwrap();
    gl.add_glyph(&big).unwrap();
    gl.add_glyph(&comp).unwrap();
    gl.add_glyph(&nest).unwrap();
    gl.add_glyph(&matchg).unwrap();
    gl.add_glyph(&scaledoff).unwrap();
    for _ in 0..N_FILL {
        gl.add_glyph(&big).unwrap();
    }
    let (glyf, loca, loca_format) = gl.build();

    // ---- gvar ----
    let req = |(x, y): (i16, i16)| GlyphDelta::required(x, y);
    let opt = || GlyphDelta::optional(0, 0);
    let mut vars = vec![GlyphVariations::new(GlyphId::new(0), vec![])];

    // tri: 9 points + 4 phantoms
    let t1: Vec<GlyphDelta> = tri_t1().into_iter().map(req).collect();
    // T2: wght intermediate (0, 0.5, 1): contour A refs 0 and 3, contour B ref 5 only
    let mut t2 = vec![opt(); 13];
    t2[0] = req((10, 20));
    t2[3] = req((30, 40));
    t2[5] = req((-8, 12));
    // T3: corner (1,1), all points
    let t3: Vec<GlyphDelta> = (0..13).map(|i| req((i as i16 - 6, 2 * i as i16))).collect();
    // T4: peak (-1, 0): only the advance phantom (point 10)
    let mut t4 = vec![opt(); 13];
    t4[10] = req((-60, 0));
    // T5: two-axis intermediate: wght (0.25,0.5,0.75) x wdth (-1,-0.5,0): contour B refs 5 and 7
    let mut t5 = vec![opt(); 13];
    t5[5] = req((16, -16));
    t5[7] = req((-16, 48));
    // T6: peak (0,1): contour A: refs 1 and 4; contour B untouched
    let mut t6 = vec![opt(); 13];
    t6[1] = req((20, 5));
    t6[4] = req((-20, 9));
    vars.push(GlyphVariations::new(
        GlyphId::new(GID_TRI as u32),
        vec![
            GlyphDeltas::new(vec![tent(1.0), tent(0.0)], t1),
            GlyphDeltas::new(vec![tent3(0.0, 0.5, 1.0), tent(0.0)], t2),
            GlyphDeltas::new(vec![tent(1.0), tent(1.0)], t3),
            GlyphDeltas::new(vec![tent(-1.0), tent(0.0)], t4),
            GlyphDeltas::new(vec![tent3(0.25, 0.5, 0.75), tent3(-1.0, -0.5, 0.0)], t5),
            GlyphDeltas::new(vec![tent(0.0), tent(1.0)], t6),
        ],
    ));

    // big: 300 points + 4 phantoms
    let n = BIG_N + 4;
    let mut b1 = vec![opt(); n];
    b1[0] = req((40, 0));
    b1[290] = req((-40, 10)); // gap of 290 > 255: a word run in the packed point numbers
    let mut rng = Lcg(1);
    let b2: Vec<GlyphDelta> = (0..n).map(|_| req((rng.next(), rng.next()))).collect();
    let mut b3 = vec![opt(); n];
    for i in (0..BIG_N).step_by(50) {
        b3[i] = req((i as i16 / 10, -(i as i16) / 5));
    }
    b3[BIG_N + 1] = req((77, 0));
    vars.push(GlyphVariations::new(
        GlyphId::new(GID_BIG as u32),
        vec![
            GlyphDeltas::new(vec![tent(1.0), tent(0.0)], b1),
            GlyphDeltas::new(vec![tent(0.0), tent(1.0)], b2),
            GlyphDeltas::new(vec![tent3(0.0, 0.5, 1.0), tent(-1.0)], b3),
        ],
    ));

    // comp: 2 components + 4 phantoms
    let c1 = vec![req((15, -5)), req((7, 9)), req((0, 0)), req((33, 0)), req((0, 0)), req((0, 0))];
    let mut c2 = vec![opt(); 6];
    c2[1] = req((-11, 13));
    vars.push(GlyphVariations::new(
        GlyphId::new(GID_COMP as u32),
        vec![
            GlyphDeltas::new(vec![tent(1.0), tent(0.0)], c1),
            GlyphDeltas::new(vec![tent(0.0), tent(1.0)], c2),
        ],
    ));
    // nest: offsets move at wght=1
    let n1 = vec![req((5, 5)), req((-30, 0)), req((0, 0)), req((21, 0)), req((0, 0)), req((0, 0))];
    vars.push(GlyphVariations::new(
        GlyphId::new(GID_NEST as u32),
        vec![GlyphDeltas::new(vec![tent(1.0), tent(0.0)], n1)],
    ));
    // match: a delta on the point-matched component must be ignored
    let m1 = vec![req((3, 4)), req((500, 500)), req((0, 0)), req((0, 0)), req((0, 0)), req((0, 0))];
    vars.push(GlyphVariations::new(
        GlyphId::new(GID_MATCH as u32),
        vec![GlyphDeltas::new(vec![tent(1.0), tent(0.0)], m1)],
    ));
    // scaledoff: offset moves by (20,0) at wght=1
    let s1 = vec![req((20, 0)), req((0, 0)), req((0, 0)), req((0, 0)), req((0, 0))];
    vars.push(GlyphVariations::new(
        GlyphId::new(GID_SCALEDOFF as u32),
        vec![GlyphDeltas::new(vec![tent(1.0), tent(0.0)], s1)],
    ));
    // fill: dense word deltas in four regions, to push gvar past 128 KiB
    for k in 0..N_FILL {
        let mut rng = Lcg(100 + k as u64);
        let mut mk = || -> Vec<GlyphDelta> { (0..n).map(|_| req((rng.next(), rng.next()))).collect() };
        let (a, b, c, d) = (mk(), mk(), mk(), mk());
        vars.push(GlyphVariations::new(
            GlyphId::new(GID_FILL0 as u32 + k as u32),
            vec![
                GlyphDeltas::new(vec![tent(1.0), tent(0.0)], a),
                GlyphDeltas::new(vec![tent(-1.0), tent(0.0)], b),
                GlyphDeltas::new(vec![tent(0.0), tent(1.0)], c),
                GlyphDeltas::new(vec![tent3(0.0, 0.5, 1.0), tent3(0.0, 0.5, 1.0)], d),
            ],
        ));
    }
    let gvar = Gvar::new(vars, 2).unwrap();

    // ---- metrics ----
    let advances: Vec<u16> = (0..n_glyphs)
        .map(|g| match g as u16 {
            0 => 500,
            GID_TRI => 650,
            GID_BIG => 1000,
            GID_COMP => 777,
            GID_NEST => 900,
            _ => 1000,
        })
        .collect();
    let lsbs: Vec<i16> = (0..n_glyphs)
        .map(|g| match g as u16 {
            0 => 0,
            GID_TRI => 0,
            _ => 10,
        })
        .collect();
    let hmtx = Hmtx::new(
        advances.iter().zip(&lsbs).map(|(a, l)| LongMetric::new(*a, *l)).collect(),
        vec![],
    );
    let hhea = Hhea::new(
        FWord::new(800),
        FWord::new(-200),
        FWord::new(0),
        UfWord::new(1000),
        FWord::new(0),
        FWord::new(0),
        FWord::new(1000),
        1,
        0,
        0,
        n_glyphs as u16,
    );

    // HVAR: one delta set per glyph (implicit indices), regions wght+ / wght- / wdth+.
    let region = |w: (f64, f64, f64), d: (f64, f64, f64)| {
        VariationRegion::new(vec![
            RegionAxisCoordinates::new(f2(w.0), f2(w.1), f2(w.2)),
            RegionAxisCoordinates::new(f2(d.0), f2(d.1), f2(d.2)),
        ])
    };
    let r_wp = region((0.0, 1.0, 1.0), (0.0, 0.0, 0.0));
    let r_wn = region((-1.0, -1.0, 0.0), (0.0, 0.0, 0.0));
    let r_dp = region((0.0, 0.0, 0.0), (0.0, 1.0, 1.0));
    let r_mid = region((0.0, 0.5, 1.0), (0.0, 0.0, 0.0));
    let mut sb = VariationStoreBuilder::new_with_implicit_indices(2);
    for g in 0..n_glyphs {
        let big_delta: i32 = if mode == HvarMode::DirectLongWords && g as u16 == GID_BIG {
            40000 // needs LONG_WORDS
        } else {
            100 + g as i32
        };
        sb.add_deltas(vec![
            (r_wp.clone(), big_delta),
            (r_wn.clone(), -50 - g as i32),
            (r_dp.clone(), 3 * g as i32),
            (r_mid.clone(), if g % 2 == 0 { 9 } else { -300 }),
        ]);
    }
    let (store, _) = sb.build();
    let map = match mode {
        HvarMode::DirectLongWords => None,
        HvarMode::IndirectFormat1 => {
            // gid g uses the delta set of glyph (n-1-g): entries of 3 bytes, 10 inner bits
            let inner_bits = 10u32;
            let mut data = vec![];
            for g in 0..n_glyphs as u32 {
                let inner = n_glyphs as u32 - 1 - g;
                let v = (0u32 << inner_bits) | inner;
                data.extend_from_slice(&v.to_be_bytes()[1..]);
            }
            let fmt = EntryFormat::from_bits(((3 - 1) << 4) | (inner_bits as u8 - 1)).unwrap();
            Some(DeltaSetIndexMap::format_1(fmt, n_glyphs as u32, data))
        }
    };
    let hvar = Hvar::new(store, map, None, None);

    let fvar = Fvar::new(AxisInstanceArrays::new(
        vec![
            VariationAxisRecord::new(
                Tag::new(b"wght"),
                Fixed::from_f64(100.0),
                Fixed::from_f64(400.0),
                Fixed::from_f64(900.0),
                0,
                NameId::new(256),
            ),
            VariationAxisRecord::new(
                Tag::new(b"wdth"),
                Fixed::from_f64(50.0),
                Fixed::from_f64(100.0),
                Fixed::from_f64(200.0),
                1,
                NameId::new(257),
            ),
        ],
        vec![],
    ));

    let mut head = Head::default();
    head.units_per_em = 1000;
    head.index_to_loc_format = loca_format as i16;
    let maxp = Maxp::new(n_glyphs as u16);
    let names: Vec<String> = ["notdef_", "tri", "big", "comp", "nest", "match", "scaledoff"]
        .iter()
        .map(|s| s.to_string())
        .chain((0..N_FILL).map(|i| format!("fill{i}")))
        .collect();
    let post = Post::new_v2(names.iter().map(|s| s.as_str()));

    let mut fb = FontBuilder::new();
    fb.add_table(&head).unwrap();
    fb.add_table(&hhea).unwrap();
    fb.add_table(&maxp).unwrap();
    fb.add_table(&hmtx).unwrap();
    fb.add_table(&glyf).unwrap();
    fb.add_table(&loca).unwrap();
    fb.add_table(&fvar).unwrap();
    fb.add_table(&gvar).unwrap();
    fb.add_table(&hvar).unwrap();
    fb.add_table(&post).unwrap();
    fb.build()
}

fn flat(g: &otvar::InstGlyph) -> Vec<(f64, f64)> {
    match &g.kind {
        InstKind::Simple { contours } => contours.iter().flatten().map(|p| (p.x, p.y)).collect(),
        _ => panic!("not simple"),
    }
}

fn close(a: f64, b: f64) -> bool {
    (a - b).abs() < 1e-9
}

#[test]
fn structure_and_paths_present() {
    let bytes = build_font(HvarMode::DirectLongWords);
    let f = VFont::new(&bytes).unwrap();
    assert_eq!(f.num_glyphs() as usize, GID_FILL0 as usize + N_FILL);
    assert_eq!(f.gid_for_name("tri"), Some(GID_TRI));
    assert_eq!(f.gid_for_name("fill3"), Some(GID_FILL0 + 3));
    let ax = f.axes();
    assert_eq!(ax.len(), 2);
    assert!(!ax[0].hidden && ax[1].hidden);
    assert_eq!((ax[1].min, ax[1].default, ax[1].max, ax[1].name_id), (50.0, 100.0, 200.0, 257));

    let (total, long_offsets, shared_tuples) = f.gvar_stats_total();
    assert!(long_offsets, "gvar must use 32-bit offsets");
    assert!(shared_tuples >= 3);
    println!("handmade gvar totals: {total:?} long_offsets={long_offsets} shared_tuples={shared_tuples}");

    let s = f.gvar_stats(GID_TRI);
    println!("tri: {s:?}");
    assert_eq!(s.tuples, 6);
    assert_eq!(s.intermediate, 2);
    assert!(s.tuples_with_omitted >= 3, "{s:?}");
    assert!(s.points_omitted >= 20, "{s:?}");
    // explicit (non-"all") point lists exist both as private and as shared lists, or at
    // least as one of them plus "all points"
    let tuples = f.glyph_tuples(GID_TRI).unwrap();
    assert!(tuples.iter().any(|t| t.points.is_none()));
    assert!(tuples.iter().any(|t| t.points.is_some() && t.private_points));
    // zero-run deltas are present (T4 moves a single phantom point)
    assert!(tuples.iter().any(|t| t.dx.iter().filter(|d| **d == 0).count() >= 12));

    let s = f.gvar_stats(GID_BIG);
    println!("big: {s:?}");
    let tuples = f.glyph_tuples(GID_BIG).unwrap();
    // the sparse tuple with a > 255 gap between point numbers (word run)
    assert!(tuples.iter().any(|t| t.points.as_deref() == Some(&[0, 290])));
    assert!(tuples.iter().any(|t| t.dx.iter().any(|d| d.abs() > 127)));
    assert!(s.points_omitted >= 298);

    let h = f.hvar_info();
    assert!(h.present && !h.indirect);
    assert!(f.hvar_store().unwrap().data.iter().any(|d| d.long_words), "LONG_WORDS expected");
    // the LONG_WORDS store against read-fonts' float evaluation, every delta set
    {
        use write_fonts::read::tables::variations::{DeltaSetIndex, FloatItemDeltaTarget};
        use write_fonts::read::{FontRef, TableProvider};
        let rf = FontRef::new(&bytes).unwrap();
        let theirs = rf.hvar().unwrap().item_variation_store().unwrap();
        let ours = f.hvar_store().unwrap();
        let mut n = 0;
        for loc in common::grid(2, &[0.5, -0.25, 0.7]) {
            let coords: Vec<F2Dot14> = loc.iter().map(|c| f2(*c)).collect();
            let qloc: Vec<f64> = coords.iter().map(|c| c.to_bits() as f64 / 16384.0).collect();
            for (outer, d) in ours.data.iter().enumerate() {
                for inner in 0..d.delta_sets.len() {
                    let a = ours.delta(outer as u16, inner as u16, &qloc).unwrap();
                    let b = theirs
                        .compute_float_delta(
                            DeltaSetIndex { outer: outer as u16, inner: inner as u16 },
                            &coords,
                        )
                        .unwrap();
                    let b = FWord::new(0).apply_float_delta(b) as f64;
                    assert!((a - b).abs() <= 1e-6 * (a.abs() + 1.0) + 0.01, "({outer},{inner}) at {loc:?}: {a} vs {b}");
                    n += 1;
                }
            }
        }
        assert!(n > 300);
    }
    assert_eq!(f.h_advance_at(GID_BIG, &[1.0, 0.0]), 1000.0 + 40000.0);
    assert_eq!(f.h_advance_at(GID_BIG, &[0.5, 0.0]), 1000.0 + 20000.0 + 9.0);
    assert_eq!(f.h_advance_at(GID_TRI, &[-0.5, 0.5]), 650.0 - 25.5 + 1.5);

    let bytes2 = build_font(HvarMode::IndirectFormat1);
    let f2 = VFont::new(&bytes2).unwrap();
    let h = f2.hvar_info();
    assert!(h.indirect);
    assert_eq!(h.map_format, Some(1));
    assert_eq!(h.map_entry_format, Some(0x29));
    let n = f2.num_glyphs();
    // gid g uses the delta set written for glyph n-1-g
    for g in 0..n {
        let src = (n - 1 - g) as f64;
        assert_eq!(f2.h_advance_var_index(g), Some((0, n - 1 - g)));
        assert_eq!(f2.h_advance_delta(g, &[1.0, 0.0]), Some(100.0 + src));
        assert_eq!(f2.h_advance_delta(g, &[-1.0, 0.0]), Some(-50.0 - src));
        assert_eq!(f2.h_advance_delta(g, &[0.0, 1.0]), Some(3.0 * src));
    }
}

#[test]
fn hand_computed_values() {
    let bytes = build_font(HvarMode::DirectLongWords);
    let f = VFont::new(&bytes).unwrap();
    let (a, b) = tri_points();
    let orig: Vec<(f64, f64)> = a.iter().chain(&b).map(|p| (p.0 as f64, p.1 as f64)).collect();
    let t1 = tri_t1();

    // default
    let g = f.glyph_at(GID_TRI, &[0.0, 0.0]).unwrap();
    assert_eq!(flat(&g), orig);
    assert_eq!(g.advance_from_phantoms, 650.0);

    // (1,0): T1 scalar 1; T2 (0,0.5,1) is 0 at its end; T3 needs wdth; others inactive
    let g = f.glyph_at(GID_TRI, &[1.0, 0.0]).unwrap();
    assert_eq!(g.tuple_scalars, vec![1.0, 0.0, 0.0, 0.0, 0.0, 0.0]);
    for (i, p) in flat(&g).iter().enumerate() {
        assert_eq!(*p, (orig[i].0 + t1[i].0 as f64, orig[i].1 + t1[i].1 as f64));
    }
    assert_eq!(g.advance_from_phantoms, 800.0);
    assert_eq!(g.phantom_deltas[1], (150.0, 0.0));

    // (0.5,0): T1 scalar 0.5, T2 scalar 1 with IUP
    let g = f.glyph_at(GID_TRI, &[0.5, 0.0]).unwrap();
    assert_eq!(g.tuple_scalars, vec![0.5, 1.0, 0.0, 0.0, 0.0, 0.0]);
    let p = flat(&g);
    // contour A: refs p0 (100,0) d(10,20) and p3 (300,700) d(30,40)
    //  p1 (500,0):   x beyond the greater ref -> 30 ; y at the lesser ref -> 20
    //  p2 (600,300): x -> 30 ; y between: 20 + (300/700)*20
    //  p4 (0,300):   x below the lesser ref -> 10 ; y between: same as p2
    let t2: [(f64, f64); 9] = [
        (10.0, 20.0),
        (30.0, 20.0),
        (30.0, 20.0 + 300.0 / 700.0 * 20.0),
        (30.0, 40.0),
        (10.0, 20.0 + 300.0 / 700.0 * 20.0),
        // contour B: single ref p5 d(-8,12): the whole contour shifts
        (-8.0, 12.0),
        (-8.0, 12.0),
        (-8.0, 12.0),
        (-8.0, 12.0),
    ];
    for i in 0..9 {
        assert!(close(p[i].0, orig[i].0 + 0.5 * t1[i].0 as f64 + t2[i].0), "x{i}: {:?}", p[i]);
        assert!(close(p[i].1, orig[i].1 + 0.5 * t1[i].1 as f64 + t2[i].1), "y{i}: {:?}", p[i]);
    }
    // phantoms are not inferred: only T1 moves the advance
    assert_eq!(g.phantom_deltas[1], (75.0, 0.0));

    // (0.75,0): T2 at half strength on the way down
    let g = f.glyph_at(GID_TRI, &[0.75, 0.0]).unwrap();
    assert_eq!(g.tuple_scalars[..2], [0.75, 0.5]);
    let p = flat(&g);
    assert!(close(p[2].1, 300.0 + 0.75 * t1[2].1 as f64 + 0.5 * t2[2].1));

    // (-1,0): only the advance phantom moves
    let g = f.glyph_at(GID_TRI, &[-1.0, 0.0]).unwrap();
    assert_eq!(g.tuple_scalars, vec![0.0, 0.0, 0.0, 1.0, 0.0, 0.0]);
    assert_eq!(flat(&g), orig);
    assert_eq!(g.advance_from_phantoms, 590.0);
    let g = f.glyph_at(GID_TRI, &[-0.25, 0.0]).unwrap();
    assert_eq!(g.advance_from_phantoms, 650.0 - 15.0);

    // (1,1): T1 + T3 (corner) + T6 (wdth)
    let g = f.glyph_at(GID_TRI, &[1.0, 1.0]).unwrap();
    assert_eq!(g.tuple_scalars, vec![1.0, 0.0, 1.0, 0.0, 0.0, 1.0]);
    let p = flat(&g);
    // T6: contour A refs p1 (500,0) d(20,5) and p4 (0,300) d(-20,9); contour B untouched
    //  p0 (100,0): x between 0 and 500: -20 + (100/500)*40 = -12 ; y at/below lesser (0) -> 5
    //  p2 (600,300): x beyond greater -> 20 ; y at/above greater (300) -> 9
    //  p3 (300,700): x between: -20 + (300/500)*40 = 4 ; y above -> 9
    let t6 = [(-12.0, 5.0), (20.0, 5.0), (20.0, 9.0), (4.0, 9.0), (-20.0, 9.0)];
    for i in 0..5 {
        let t3 = (i as f64 - 6.0, 2.0 * i as f64);
        assert!(close(p[i].0, orig[i].0 + t1[i].0 as f64 + t3.0 + t6[i].0), "x{i}");
        assert!(close(p[i].1, orig[i].1 + t1[i].1 as f64 + t3.1 + t6[i].1), "y{i}");
    }
    for i in 5..9 {
        let t3 = (i as f64 - 6.0, 2.0 * i as f64);
        assert!(close(p[i].0, orig[i].0 + t1[i].0 as f64 + t3.0));
    }
    // (0.5,0.5): corner region scalar is the product 0.25
    let g = f.glyph_at(GID_TRI, &[0.5, 0.5]).unwrap();
    assert_eq!(g.tuple_scalars, vec![0.5, 1.0, 0.25, 0.0, 0.0, 0.5]);

    // two-axis intermediate region T5: wght (0.25,0.5,0.75) x wdth (-1,-0.5,0)
    let g = f.glyph_at(GID_TRI, &[0.5, -0.5]).unwrap();
    assert_eq!(g.tuple_scalars[4], 1.0);
    let g2 = f.glyph_at(GID_TRI, &[0.375, -0.75]).unwrap();
    assert_eq!(g2.tuple_scalars[4], 0.25);
    assert_eq!(f.glyph_at(GID_TRI, &[0.75, -0.5]).unwrap().tuple_scalars[4], 0.0);
    assert_eq!(f.glyph_at(GID_TRI, &[0.5, 0.0]).unwrap().tuple_scalars[4], 0.0);
    assert_eq!(f.glyph_at(GID_TRI, &[0.5, -1.0]).unwrap().tuple_scalars[4], 0.0);
    // contour B refs p5 (200,100) d(16,-16), p7 (400,300) d(-16,48):
    //  p6 (400,100): x at greater -> -16 ; y at lesser -> -16
    //  p8 (200,300): x at lesser -> 16 ; y at greater -> 48
    let p = flat(&g);
    let base = f.glyph_at(GID_TRI, &[0.5, 0.0]).unwrap();
    let pb = flat(&base);
    // T1 (0.5) and T2 (1) are the same at both locations; T4/T6 are inactive for wdth<0
    assert!(close(p[6].0 - pb[6].0, -16.0) && close(p[6].1 - pb[6].1, -16.0));
    assert!(close(p[8].0 - pb[8].0, 16.0) && close(p[8].1 - pb[8].1, 48.0));
    assert!(close(p[5].0 - pb[5].0, 16.0) && close(p[7].1 - pb[7].1, 48.0));
    // contour A has no referenced point in T5: untouched
    for i in 0..5 {
        assert!(close(p[i].0, pb[i].0) && close(p[i].1, pb[i].1));
    }

    // big, sparse tuple with refs 0 and 290 at (1,0)
    let big: Vec<(f64, f64)> = big_points().iter().map(|p| (p.0 as f64, p.1 as f64)).collect();
    let g = f.glyph_at(GID_BIG, &[1.0, 0.0]).unwrap();
    let p = flat(&g);
    assert_eq!(p[0], (big[0].0 + 40.0, big[0].1));
    assert_eq!(p[290], (big[290].0 - 40.0, big[290].1 + 10.0));
    let (x0, x290) = (big[0].0, big[290].0);
    let (y0, y290) = (big[0].1, big[290].1);
    for i in [1usize, 75, 150, 289, 295] {
        let ex = if big[i].0 <= x0.min(x290) {
            if x0 < x290 { 40.0 } else { -40.0 }
        } else if big[i].0 >= x0.max(x290) {
            if x0 > x290 { 40.0 } else { -40.0 }
        } else {
            40.0 + (big[i].0 - x0) / (x290 - x0) * -80.0
        };
        let ey = if big[i].1 <= y0.min(y290) {
            if y0 < y290 { 0.0 } else { 10.0 }
        } else if big[i].1 >= y0.max(y290) {
            if y0 > y290 { 0.0 } else { 10.0 }
        } else {
            (big[i].1 - y0) / (y290 - y0) * 10.0
        };
        assert!(close(p[i].0, big[i].0 + ex), "big x{i}: {} vs {}", p[i].0, big[i].0 + ex);
        assert!(close(p[i].1, big[i].1 + ey), "big y{i}");
    }

    // ---- composites ----
    let c = f.glyph_at(GID_COMP, &[1.0, 1.0]).unwrap();
    match &c.kind {
        InstKind::Composite { components } => {
            assert_eq!((components[0].dx, components[0].dy), (65.0, 55.0));
            assert_eq!((components[1].dx, components[1].dy), (-100.0 + 7.0 - 11.0, 20.0 + 9.0 + 13.0));
            assert!(components[0].flags & og::USE_MY_METRICS != 0);
            assert_eq!((components[1].xx, components[1].yx, components[1].xy, components[1].yy), (0.75, 0.25, -0.25, 1.0));
        }
        _ => panic!(),
    }
    // own phantoms carry the composite's own delta ...
    assert_eq!(c.advance_from_phantoms, 777.0 + 33.0);
    // ... but the resolved glyph takes tri's metrics (USE_MY_METRICS), untransformed
    let r = f.resolve(GID_COMP, &[1.0, 0.0]).unwrap();
    assert_eq!(r.advance, 800.0);
    assert!(r.used_transform && r.depth == 1);
    let tri1 = flat(&f.glyph_at(GID_TRI, &[1.0, 0.0]).unwrap());
    let big1 = flat(&f.glyph_at(GID_BIG, &[1.0, 0.0]).unwrap());
    let rp: Vec<(f64, f64)> = r.contours.iter().flatten().map(|p| (p.x, p.y)).collect();
    assert_eq!(rp.len(), 9 + BIG_N);
    assert_eq!(r.contours.len(), 3);
    for i in 0..9 {
        assert!(close(rp[i].0, 0.5 * tri1[i].0 + 65.0) && close(rp[i].1, 0.5 * tri1[i].1 + 55.0));
    }
    for i in [0usize, 17, 299] {
        let (x, y) = big1[i];
        // x' = xx*x + xy*y + dx ; y' = yx*x + yy*y + dy
        assert!(close(rp[9 + i].0, 0.75 * x - 0.25 * y - 93.0), "comp big x{i}");
        assert!(close(rp[9 + i].1, 0.25 * x + 1.0 * y + 29.0), "comp big y{i}");
    }

    // nest at (1,0): comp shifted by (15,15); tri flipped in x at (670,0)
    let r = f.resolve(GID_NEST, &[1.0, 0.0]).unwrap();
    assert_eq!(r.depth, 2);
    assert_eq!(r.advance, 900.0 + 21.0);
    let np: Vec<(f64, f64)> = r.contours.iter().flatten().map(|p| (p.x, p.y)).collect();
    assert_eq!(np.len(), 9 + BIG_N + 9);
    for i in 0..9 + BIG_N {
        assert!(close(np[i].0, rp[i].0 + 15.0) && close(np[i].1, rp[i].1 + 15.0));
    }
    for i in 0..9 {
        assert!(close(np[9 + BIG_N + i].0, -tri1[i].0 + 670.0));
        assert!(close(np[9 + BIG_N + i].1, tri1[i].1));
    }

    // match: second copy scaled 0.5 with its point 0 on the parent's point 3; the gvar
    // delta addressed to that component is ignored
    for loc in [[0.0, 0.0], [1.0, 0.0], [0.5, 0.5]] {
        let r = f.resolve(GID_MATCH, &loc).unwrap();
        assert!(r.used_point_matching);
        let tri_l = flat(&f.glyph_at(GID_TRI, &loc).unwrap());
        let mp: Vec<(f64, f64)> = r.contours.iter().flatten().map(|p| (p.x, p.y)).collect();
        let s0 = loc[0];
        // first component offset (0,0) + (3,4) * scalar
        for i in 0..9 {
            assert!(close(mp[i].0, tri_l[i].0 + 3.0 * s0) && close(mp[i].1, tri_l[i].1 + 4.0 * s0));
        }
        assert!(close(mp[9].0, mp[3].0) && close(mp[9].1, mp[3].1));
        for i in 0..9 {
            assert!(close(mp[9 + i].0 - mp[9].0, 0.5 * (tri_l[i].0 - tri_l[0].0)));
            assert!(close(mp[9 + i].1 - mp[9].1, 0.5 * (tri_l[i].1 - tri_l[0].1)));
        }
    }

    // scaledoff: the offset is in the component's coordinate system: 0.5 * (100+20s, 200)
    for s in [0.0, 0.5, 1.0] {
        let r = f.resolve(GID_SCALEDOFF, &[s, 0.0]).unwrap();
        assert!(r.used_scaled_offset);
        let tri_l = flat(&f.glyph_at(GID_TRI, &[s, 0.0]).unwrap());
        let sp: Vec<(f64, f64)> = r.contours.iter().flatten().map(|p| (p.x, p.y)).collect();
        for i in 0..9 {
            assert!(close(sp[i].0, 0.5 * tri_l[i].0 + 0.5 * (100.0 + 20.0 * s)));
            assert!(close(sp[i].1, 0.5 * tri_l[i].1 + 100.0));
        }
    }

    // rounded variant
    let g = f.glyph_at(GID_TRI, &[0.5, 0.0]).unwrap();
    let r = g.rounded();
    for (a, b) in flat(&g).iter().zip(flat(&r)) {
        assert_eq!(((a.0 + 0.5).floor(), (a.1 + 0.5).floor()), b);
    }
}

#[test]
fn agrees_with_skrifa_everywhere() {
    for mode in [HvarMode::DirectLongWords, HvarMode::IndirectFormat1] {
        let bytes = build_font(mode);
        let f = VFont::new(&bytes).unwrap();
        let locs = common::grid(2, &[0.5, -0.5, 0.25, 0.75, 0.375, -0.75, 0.6]);
        let mut extra = vec![vec![0.5, -0.5], vec![0.375, -0.75], vec![0.6, -0.3], vec![0.3, 0.8]];
        extra.extend(locs);
        let mut max_u: f64 = 0.0;
        let mut max_r: f64 = 0.0;
        let mut max_scaled_off: f64 = 0.0;
        let mut max_match_hb: f64 = 0.0;
        let mut n = 0;
        for loc in &extra {
            let loc: Vec<f64> = loc.iter().map(|c| (c * 16384.0).round() / 16384.0).collect();
            for gid in 0..f.num_glyphs() {
                // the 30 filler glyphs are all alike: sample them
                if gid >= GID_FILL0 + 3 && gid % 9 != 0 {
                    continue;
                }
                let c = crosscheck_skrifa_detail(&bytes, gid, &loc)
                    .unwrap_or_else(|e| panic!("gid {gid} at {loc:?}: {e}"));
                assert!(c.ok(), "gid {gid} at {loc:?}: {c:?}");
                n += 1;
                if gid == GID_SCALEDOFF {
                    // skrifa scales the static offset by a column length of the transform and
                    // adds the gvar delta unscaled; the spec (and HarfBuzz) transform the
                    // varied offset. With a positive uniform scale the two coincide wherever
                    // the offset delta is zero (wght <= 0 here) and differ by 0.5 * delta
                    // elsewhere.
                    assert!(c.scaled_offset_differs);
                    max_scaled_off = max_scaled_off.max(c.unrounded_diff);
                    if loc[0] <= 0.0 {
                        assert!(c.unrounded_diff <= c.unrounded_tolerance, "{c:?}");
                    } else {
                        assert!((c.unrounded_diff - 0.5 * 20.0 * loc[0]).abs() <= c.unrounded_tolerance, "{c:?}");
                    }
                } else if gid == GID_MATCH {
                    // anchored + transformed component: skrifa's HarfBuzz-style scaler
                    // matches the untransformed point (a skrifa quirk); its FreeType path
                    // agrees with us
                    assert!(c.anchored_transformed);
                    assert!(c.rounded_diff <= c.rounded_tolerance, "{c:?}");
                    max_match_hb = max_match_hb.max(c.unrounded_diff);
                } else {
                    assert!(!c.scaled_offset_differs && !c.anchored_transformed, "gid {gid}");
                    max_u = max_u.max(c.unrounded_diff / c.unrounded_tolerance);
                    max_r = max_r.max(c.rounded_diff / c.rounded_tolerance);
                }
            }
        }
        println!(
            "handmade vs skrifa: {n} glyph-locations, worst unrounded diff/tolerance {max_u:.3}, worst rounded diff/tolerance {max_r:.3}, scaled-offset glyph diff {max_scaled_off}, anchored+transformed glyph vs skrifa HarfBuzz-style path {max_match_hb} (known skrifa quirk)"
        );
    }
}

#[test]
fn normalisation_matches_skrifa() {
    use skrifa::MetadataProvider;
    let bytes = build_font(HvarMode::DirectLongWords);
    let f = VFont::new(&bytes).unwrap();
    let font = skrifa::FontRef::new(&bytes).unwrap();
    let mut n = 0;
    for w in (0..=1000).step_by(7) {
        for d in [30.0f64, 50.0, 62.5, 100.0, 133.25, 200.0, 250.0] {
            let w = w as f64 + 0.25;
            let ours = f.normalize(&[("wght".to_string(), w), ("wdth".to_string(), d)]);
            let loc = font.axes().location([("wght", w as f32), ("wdth", d as f32)]);
            let theirs: Vec<f64> = loc.coords().iter().map(|c| c.to_bits() as f64 / 16384.0).collect();
            assert_eq!(ours, theirs, "wght {w} wdth {d}");
            assert_eq!(ours, f.normalize_no_avar(&[("wght".to_string(), w), ("wdth".to_string(), d)]));
            n += 1;
        }
    }
    assert!(n > 1000);
}

