//! Minimal property-list value with an XML writer (and an OpenStep/ASCII writer for Glyphs).
use serde::{Deserialize, Serialize};

#[derive(Debug, Clone, PartialEq, Serialize, Deserialize)]
pub enum Plist {
    String(String),
    Int(i64),
    Real(f64),
    Bool(bool),
    Array(Vec<Plist>),
    Dict(Vec<(String, Plist)>),
}

impl Plist {
    pub fn num(v: f64) -> Plist {
        if v.is_finite() && v == v.trunc() && v.abs() < 1e15 {
            Plist::Int(v as i64)
        } else {
            Plist::Real(v)
        }
    }
    pub fn s(v: &str) -> Plist {
        Plist::String(v.to_string())
    }

    pub fn to_xml_doc(&self) -> String {
        format!(
            "<?xml version=\"1.0\" encoding=\"UTF-8\"?>\n<!DOCTYPE plist PUBLIC \"-//Apple//DTD PLIST 1.0//EN\" \"http://www.apple.com/DTDs/PropertyList-1.0.dtd\">\n<plist version=\"1.0\">\n{}</plist>\n",
            self.to_xml_fragment(1)
        )
    }

    pub fn to_xml_fragment(&self, depth: usize) -> String {
        let ind = "  ".repeat(depth);
        match self {
            Plist::String(s) => format!("{ind}<string>{}</string>\n", crate::xml(s)),
            Plist::Int(i) => format!("{ind}<integer>{i}</integer>\n"),
            Plist::Real(r) => format!("{ind}<real>{r}</real>\n"),
            Plist::Bool(true) => format!("{ind}<true/>\n"),
            Plist::Bool(false) => format!("{ind}<false/>\n"),
            Plist::Array(a) => {
                if a.is_empty() {
                    return format!("{ind}<array/>\n");
                }
                let mut s = format!("{ind}<array>\n");
                for v in a {
                    s.push_str(&v.to_xml_fragment(depth + 1));
                }
                s.push_str(&format!("{ind}</array>\n"));
                s
            }
            Plist::Dict(d) => {
                if d.is_empty() {
                    return format!("{ind}<dict/>\n");
                }
                let mut s = format!("{ind}<dict>\n");
                for (k, v) in d {
                    s.push_str(&format!("{ind}  <key>{}</key>\n", crate::xml(k)));
                    s.push_str(&v.to_xml_fragment(depth + 1));
                }
                s.push_str(&format!("{ind}</dict>\n"));
                s
            }
        }
    }
}
