//! Engine B — the abstract design model and its writers.
//!
//! `Design` is the single source of truth for what a generated source *says*; oracles are
//! computed from it, never from fontc's IR. Writers: UFO + designspace (here), Glyphs (glyphs.rs).

pub mod glyphs;
pub mod plist;
pub mod shapes;

use plist::Plist;
use serde::{Deserialize, Serialize};
use std::{
    collections::BTreeMap,
    fmt::Write as _,
    path::{Path, PathBuf},
};

#[derive(Debug, Clone, PartialEq, Serialize, Deserialize)]
pub struct Axis {
    pub tag: String,
    pub name: String,
    /// user-space bounds
    pub min: f64,
    pub default: f64,
    pub max: f64,
    /// user -> design mapping nodes (empty = identity)
    pub map: Vec<(f64, f64)>,
    pub hidden: bool,
    /// `<labelname xml:lang="..">..</labelname>` children of `<axis>`, (xml:lang, string), written in
    /// this order (designspace: the `en` one is the axis' UI name, else the `name` attribute is)
    #[serde(default)]
    pub labelnames: Vec<(String, String)>,
}

impl Axis {
    pub fn new(tag: &str, name: &str, min: f64, default: f64, max: f64) -> Axis {
        Axis {
            tag: tag.into(),
            name: name.into(),
            min,
            default,
            max,
            map: vec![],
            hidden: false,
            labelnames: vec![],
        }
    }
    /// piecewise-linear user -> design (designspace `<map>` semantics; identity when no map)
    pub fn user_to_design(&self, u: f64) -> f64 {
        pl(&self.map, u)
    }
    pub fn design_to_user(&self, d: f64) -> f64 {
        let inv: Vec<(f64, f64)> = self.map.iter().map(|(u, d)| (*d, *u)).collect();
        pl(&inv, d)
    }
    pub fn design_min(&self) -> f64 {
        self.user_to_design(self.min)
    }
    pub fn design_default(&self) -> f64 {
        self.user_to_design(self.default)
    }
    pub fn design_max(&self) -> f64 {
        self.user_to_design(self.max)
    }
    /// design -> normalized: default→0, design min→−1, design max→+1, linear in between
    pub fn normalize_design(&self, d: f64) -> f64 {
        let (lo, df, hi) = (self.design_min(), self.design_default(), self.design_max());
        if d < df {
            if df == lo { 0.0 } else { ((d - df) / (df - lo)).max(-1.0) }
        } else if d > df {
            if hi == df { 0.0 } else { ((d - df) / (hi - df)).min(1.0) }
        } else {
            0.0
        }
    }
    pub fn normalize_user(&self, u: f64) -> f64 {
        self.normalize_design(self.user_to_design(u))
    }
}

/// piecewise linear through sorted nodes, extrapolating with the end segments' offsets
fn pl(nodes: &[(f64, f64)], x: f64) -> f64 {
    if nodes.is_empty() {
        return x;
    }
    let mut n = nodes.to_vec();
    n.sort_by(|a, b| a.0.partial_cmp(&b.0).unwrap());
    if x <= n[0].0 {
        return x + (n[0].1 - n[0].0);
    }
    let last = n[n.len() - 1];
    if x >= last.0 {
        return x + (last.1 - last.0);
    }
    for w in n.windows(2) {
        let (a, b) = (w[0], w[1]);
        if x >= a.0 && x <= b.0 {
            if b.0 == a.0 {
                return a.1;
            }
            return a.1 + (x - a.0) * (b.1 - a.1) / (b.0 - a.0);
        }
    }
    x
}

#[derive(Debug, Clone, PartialEq, Serialize, Deserialize, Default)]
pub struct Info {
    pub ascender: f64,
    pub descender: f64,
    pub x_height: f64,
    pub cap_height: f64,
    pub italic_angle: f64,
    /// further fontinfo.plist entries, written verbatim
    pub extra: Vec<(String, Plist)>,
}

#[derive(Debug, Clone, PartialEq, Serialize, Deserialize)]
pub enum MasterKind {
    /// a UFO of its own
    Full,
    /// a named non-default layer of another master's UFO (a "sparse" / glyph-only master)
    LayerOf(usize),
}

#[derive(Debug, Clone, PartialEq, Serialize, Deserialize)]
pub struct Master {
    pub name: String,
    pub style_name: String,
    /// design-space location, one value per axis in axis order
    pub loc: Vec<f64>,
    pub kind: MasterKind,
    pub info: Info,
    /// (first, second) -> value; names starting with `public.kern` are groups
    /// (serialised as a list of entries: JSON maps cannot have tuple keys)
    #[serde(with = "pair_map")]
    pub kerning: BTreeMap<(String, String), f64>,
    pub groups: BTreeMap<String, Vec<String>>,
}

#[derive(Debug, Clone, Copy, PartialEq, Serialize, Deserialize)]
pub enum PtKind {
    Move,
    Line,
    Off,
    Curve,
    QCurve,
}

#[derive(Debug, Clone, Copy, PartialEq, Serialize, Deserialize)]
pub struct Pt {
    pub x: f64,
    pub y: f64,
    pub kind: PtKind,
}

#[derive(Debug, Clone, PartialEq, Serialize, Deserialize, Default)]
pub struct Contour {
    pub points: Vec<Pt>,
}

#[derive(Debug, Clone, PartialEq, Serialize, Deserialize)]
pub struct Component {
    pub base: String,
    /// xx xy yx yy dx dy (UFO xScale xyScale yxScale yScale xOffset yOffset)
    pub xform: [f64; 6],
}

impl Component {
    pub fn at(base: &str, dx: f64, dy: f64) -> Component {
        Component {
            base: base.into(),
            xform: [1.0, 0.0, 0.0, 1.0, dx, dy],
        }
    }
}

#[derive(Debug, Clone, PartialEq, Serialize, Deserialize)]
pub struct Anchor {
    pub name: String,
    pub x: f64,
    pub y: f64,
}

#[derive(Debug, Clone, PartialEq, Serialize, Deserialize, Default)]
pub struct Layer {
    pub advance: f64,
    pub height: Option<f64>,
    pub contours: Vec<Contour>,
    pub components: Vec<Component>,
    pub anchors: Vec<Anchor>,
}

#[derive(Debug, Clone, PartialEq, Serialize, Deserialize)]
pub struct Glyph {
    pub name: String,
    pub export: bool,
    pub codepoints: Vec<u32>,
    /// master index -> drawing; a glyph may be absent from some masters (sparse)
    pub layers: BTreeMap<usize, Layer>,
}

impl Glyph {
    pub fn new(name: &str, codepoints: &[u32]) -> Glyph {
        Glyph {
            name: name.into(),
            export: true,
            codepoints: codepoints.to_vec(),
            layers: BTreeMap::new(),
        }
    }
}

#[derive(Debug, Clone, PartialEq, Serialize, Deserialize)]
pub struct Instance {
    pub family: Option<String>,
    pub style: String,
    pub ps_name: Option<String>,
    /// user-space location per axis (axis order)
    pub user_loc: Vec<f64>,
}

#[derive(Debug, Clone, PartialEq, Serialize, Deserialize)]
pub struct Rule {
    pub name: String,
    /// each condition set: (axis name, min, max) in *user-facing designspace coordinates as written*
    /// (designspace conditions are in design coordinates)
    pub condition_sets: Vec<Vec<(String, Option<f64>, Option<f64>)>>,
    pub subs: Vec<(String, String)>,
}

#[derive(Debug, Clone, PartialEq, Serialize, Deserialize)]
pub struct Design {
    pub upem: u32,
    pub family: String,
    pub axes: Vec<Axis>,
    pub masters: Vec<Master>,
    /// index into `masters` of the default master
    pub default_master: usize,
    pub glyphs: Vec<Glyph>,
    /// public.glyphOrder (None = key absent)
    pub glyph_order: Option<Vec<String>>,
    pub categories: BTreeMap<String, String>,
    pub postscript_names: BTreeMap<String, String>,
    pub instances: Vec<Instance>,
    pub rules: Vec<Rule>,
    pub rules_processing_last: bool,
    pub features_fea: Option<String>,
    /// extra lib.plist entries (every full master) and designspace lib entries
    pub lib_extra: Vec<(String, Plist)>,
    pub ds_lib_extra: Vec<(String, Plist)>,
    /// write `public.skipExportGlyphs` (from Glyph.export) into the designspace lib / UFO lib
    pub write_skip_export: bool,
}

/// Options of the designspace writer that are not part of the design itself (how a location is
/// spelled, not what it says). `DsOpts::default()` = the plain writer.
#[derive(Debug, Clone, PartialEq, Serialize, Deserialize, Default)]
pub struct DsOpts {
    /// instance index -> axis indices whose `<dimension>` is left out of that instance's
    /// `<location>` (designspace semantics: a missing dimension sits at the axis default, so the
    /// instance's `user_loc` should hold the axis default there)
    #[serde(default)]
    pub instance_omit: BTreeMap<usize, Vec<usize>>,
    /// instance index -> further `<dimension name=.. xvalue=..>` elements written verbatim after
    /// the axes' own (e.g. one naming an axis the document does not declare)
    #[serde(default)]
    pub instance_extra_dims: BTreeMap<usize, Vec<(String, f64)>>,
}

impl Design {
    /// A static or variable skeleton with the given axes and full masters at the given design locations.
    pub fn skeleton(family: &str, axes: Vec<Axis>, master_locs: Vec<Vec<f64>>) -> Design {
        let default_loc: Vec<f64> = axes.iter().map(|a| a.design_default()).collect();
        let mut default_master = 0;
        let masters: Vec<Master> = master_locs
            .into_iter()
            .enumerate()
            .map(|(i, loc)| {
                if loc == default_loc {
                    default_master = i;
                }
                Master {
                    name: format!("{family} M{i}"),
                    style_name: if loc == default_loc { "Regular".into() } else { format!("M{i}") },
                    loc,
                    kind: MasterKind::Full,
                    info: Info {
                        ascender: 800.0,
                        descender: -200.0,
                        x_height: 500.0,
                        cap_height: 700.0,
                        italic_angle: 0.0,
                        extra: vec![],
                    },
                    kerning: BTreeMap::new(),
                    groups: BTreeMap::new(),
                }
            })
            .collect();
        Design {
            upem: 1000,
            family: family.into(),
            axes,
            masters,
            default_master,
            glyphs: vec![],
            glyph_order: None,
            categories: BTreeMap::new(),
            postscript_names: BTreeMap::new(),
            instances: vec![],
            rules: vec![],
            rules_processing_last: false,
            features_fea: None,
            lib_extra: vec![],
            ds_lib_extra: vec![],
            write_skip_export: true,
        }
    }

    pub fn static_font(family: &str) -> Design {
        Design::skeleton(family, vec![], vec![vec![]])
    }

    /// Adds a sparse master (a layer of `host`'s UFO) at `loc`; returns its index.
    pub fn add_layer_master(&mut self, host: usize, loc: Vec<f64>) -> usize {
        let i = self.masters.len();
        self.masters.push(Master {
            name: format!("{} L{i}", self.family),
            style_name: format!("L{i}"),
            loc,
            kind: MasterKind::LayerOf(host),
            info: self.masters[host].info.clone(),
            kerning: BTreeMap::new(),
            groups: BTreeMap::new(),
        });
        i
    }

    pub fn glyph(&self, name: &str) -> Option<&Glyph> {
        self.glyphs.iter().find(|g| g.name == name)
    }
    pub fn glyph_mut(&mut self, name: &str) -> Option<&mut Glyph> {
        self.glyphs.iter_mut().find(|g| g.name == name)
    }

    /// normalized location of a master (design normalisation; what gvar/HVAR regions are built from)
    pub fn master_norm(&self, m: usize) -> Vec<f64> {
        self.axes
            .iter()
            .zip(&self.masters[m].loc)
            .map(|(a, d)| a.normalize_design(*d))
            .collect()
    }
    /// user-space location of a master
    pub fn master_user(&self, m: usize) -> Vec<f64> {
        self.axes
            .iter()
            .zip(&self.masters[m].loc)
            .map(|(a, d)| a.design_to_user(*d))
            .collect()
    }

    pub fn ufo_name(&self, m: usize) -> String {
        format!("M{m}.ufo")
    }
    pub fn layer_name(&self, m: usize) -> String {
        format!("L{m}")
    }

    // ------------------------------------------------------------------ writers

    /// Writes `<dir>/design.designspace` plus one UFO per full master. Returns the designspace path.
    pub fn write_designspace(&self, dir: &Path) -> std::io::Result<PathBuf> {
        std::fs::create_dir_all(dir)?;
        for (mi, m) in self.masters.iter().enumerate() {
            if m.kind == MasterKind::Full {
                self.write_ufo(mi, &dir.join(self.ufo_name(mi)))?;
            }
        }
        let path = dir.join("design.designspace");
        std::fs::write(&path, self.designspace_xml())?;
        Ok(path)
    }

    /// Writes the design in its natural container: a lone UFO when there are no axes, else a designspace.
    pub fn write_source(&self, dir: &Path) -> std::io::Result<PathBuf> {
        if self.axes.is_empty() {
            self.write_single_ufo(dir)
        } else {
            self.write_designspace(dir)
        }
    }

    /// Writes the default master alone as `<dir>/font.ufo` (static build). Returns the UFO path.
    pub fn write_single_ufo(&self, dir: &Path) -> std::io::Result<PathBuf> {
        std::fs::create_dir_all(dir)?;
        let p = dir.join("font.ufo");
        self.write_ufo(self.default_master, &p)?;
        Ok(p)
    }

    pub fn designspace_xml(&self) -> String {
        self.designspace_xml_with(&DsOpts::default())
    }

    /// `designspace_xml` with writer options (see [`DsOpts`]); the default options give the same text.
    pub fn designspace_xml_with(&self, opts: &DsOpts) -> String {
        let mut s = String::new();
        s.push_str("<?xml version='1.0' encoding='UTF-8'?>\n<designspace format=\"4.1\">\n");
        if !self.axes.is_empty() {
            s.push_str("  <axes>\n");
            for a in &self.axes {
                let _ = write!(
                    s,
                    "    <axis tag=\"{}\" name=\"{}\" minimum=\"{}\" maximum=\"{}\" default=\"{}\"{}",
                    xml(&a.tag),
                    xml(&a.name),
                    num(a.min),
                    num(a.max),
                    num(a.default),
                    if a.hidden { " hidden=\"1\"" } else { "" }
                );
                if a.map.is_empty() && a.labelnames.is_empty() {
                    s.push_str("/>\n");
                } else {
                    s.push_str(">\n");
                    // fontTools' writer puts the labelname elements before the map elements
                    for (lang, text) in &a.labelnames {
                        let _ = writeln!(s, "      <labelname xml:lang=\"{}\">{}</labelname>", xml(lang), xml(text));
                    }
                    for (u, d) in &a.map {
                        let _ = writeln!(s, "      <map input=\"{}\" output=\"{}\"/>", num(*u), num(*d));
                    }
                    s.push_str("    </axis>\n");
                }
            }
            s.push_str("  </axes>\n");
        }
        if !self.rules.is_empty() {
            let _ = writeln!(
                s,
                "  <rules{}>",
                if self.rules_processing_last { " processing=\"last\"" } else { "" }
            );
            for r in &self.rules {
                let _ = writeln!(s, "    <rule name=\"{}\">", xml(&r.name));
                for cs in &r.condition_sets {
                    s.push_str("      <conditionset>\n");
                    for (axis, mi, ma) in cs {
                        let _ = write!(s, "        <condition name=\"{}\"", xml(axis));
                        if let Some(v) = mi {
                            let _ = write!(s, " minimum=\"{}\"", num(*v));
                        }
                        if let Some(v) = ma {
                            let _ = write!(s, " maximum=\"{}\"", num(*v));
                        }
                        s.push_str("/>\n");
                    }
                    s.push_str("      </conditionset>\n");
                }
                for (a, b) in &r.subs {
                    let _ = writeln!(s, "      <sub name=\"{}\" with=\"{}\"/>", xml(a), xml(b));
                }
                s.push_str("    </rule>\n");
            }
            s.push_str("  </rules>\n");
        }
        s.push_str("  <sources>\n");
        for (mi, m) in self.masters.iter().enumerate() {
            let (file, layer) = match m.kind {
                MasterKind::Full => (self.ufo_name(mi), None),
                MasterKind::LayerOf(h) => (self.ufo_name(h), Some(self.layer_name(mi))),
            };
            let _ = write!(
                s,
                "    <source filename=\"{}\" name=\"{}\" familyname=\"{}\" stylename=\"{}\"",
                xml(&file),
                xml(&m.name),
                xml(&self.family),
                xml(&m.style_name)
            );
            if let Some(l) = &layer {
                let _ = write!(s, " layer=\"{}\"", xml(l));
            }
            s.push_str(">\n");
            self.write_location(&mut s, &m.loc, "      ");
            s.push_str("    </source>\n");
        }
        s.push_str("  </sources>\n");
        if !self.instances.is_empty() {
            s.push_str("  <instances>\n");
            for (ii, i) in self.instances.iter().enumerate() {
                let fam = i.family.clone().unwrap_or(self.family.clone());
                let _ = write!(
                    s,
                    "    <instance name=\"{} {}\" familyname=\"{}\" stylename=\"{}\"",
                    xml(&fam),
                    xml(&i.style),
                    xml(&fam),
                    xml(&i.style)
                );
                if let Some(ps) = &i.ps_name {
                    let _ = write!(s, " postscriptfontname=\"{}\"", xml(ps));
                }
                s.push_str(">\n");
                let dloc: Vec<f64> = self
                    .axes
                    .iter()
                    .zip(&i.user_loc)
                    .map(|(a, u)| a.user_to_design(*u))
                    .collect();
                let omit = opts.instance_omit.get(&ii);
                let extra = opts.instance_extra_dims.get(&ii);
                if omit.is_none() && extra.is_none() {
                    self.write_location(&mut s, &dloc, "      ");
                } else {
                    // a location that leaves out some dimensions (a missing dimension means the
                    // axis default) and/or carries further, verbatim dimensions
                    s.push_str("      <location>\n");
                    for (ai, (a, v)) in self.axes.iter().zip(&dloc).enumerate() {
                        if omit.is_some_and(|o| o.contains(&ai)) {
                            continue;
                        }
                        let _ = writeln!(s, "        <dimension name=\"{}\" xvalue=\"{}\"/>", xml(&a.name), num(*v));
                    }
                    for (name, v) in extra.into_iter().flatten() {
                        let _ = writeln!(s, "        <dimension name=\"{}\" xvalue=\"{}\"/>", xml(name), num(*v));
                    }
                    s.push_str("      </location>\n");
                }
                s.push_str("    </instance>\n");
            }
            s.push_str("  </instances>\n");
        }
        let mut lib: Vec<(String, Plist)> = self.ds_lib_extra.clone();
        let skip: Vec<Plist> = self
            .glyphs
            .iter()
            .filter(|g| !g.export)
            .map(|g| Plist::String(g.name.clone()))
            .collect();
        if self.write_skip_export && !skip.is_empty() {
            lib.push(("public.skipExportGlyphs".into(), Plist::Array(skip)));
        }
        if !lib.is_empty() {
            s.push_str("  <lib>\n");
            s.push_str(&Plist::Dict(lib).to_xml_fragment(2));
            s.push_str("  </lib>\n");
        }
        s.push_str("</designspace>\n");
        s
    }

    fn write_location(&self, s: &mut String, loc: &[f64], ind: &str) {
        let _ = writeln!(s, "{ind}<location>");
        for (a, v) in self.axes.iter().zip(loc) {
            let _ = writeln!(s, "{ind}  <dimension name=\"{}\" xvalue=\"{}\"/>", xml(&a.name), num(*v));
        }
        let _ = writeln!(s, "{ind}</location>");
    }

    /// the layers hosted by master `m`'s UFO: (layer name, dir name, master index)
    fn hosted_layers(&self, m: usize) -> Vec<(String, String, usize)> {
        self.masters
            .iter()
            .enumerate()
            .filter(|(_, x)| x.kind == MasterKind::LayerOf(m))
            .map(|(i, _)| (self.layer_name(i), format!("glyphs.L{i}"), i))
            .collect()
    }

    pub fn write_ufo(&self, m: usize, ufo: &Path) -> std::io::Result<()> {
        let master = &self.masters[m];
        std::fs::create_dir_all(ufo)?;
        std::fs::write(
            ufo.join("metainfo.plist"),
            Plist::Dict(vec![
                ("creator".into(), Plist::String("verif.gen".into())),
                ("formatVersion".into(), Plist::Int(3)),
            ])
            .to_xml_doc(),
        )?;
        // fontinfo
        let mut info: Vec<(String, Plist)> = vec![
            ("unitsPerEm".into(), Plist::Int(self.upem as i64)),
            ("familyName".into(), Plist::String(self.family.clone())),
            ("styleName".into(), Plist::String(master.style_name.clone())),
            ("ascender".into(), Plist::num(master.info.ascender)),
            ("descender".into(), Plist::num(master.info.descender)),
            ("xHeight".into(), Plist::num(master.info.x_height)),
            ("capHeight".into(), Plist::num(master.info.cap_height)),
            ("italicAngle".into(), Plist::num(master.info.italic_angle)),
        ];
        for (k, v) in &master.info.extra {
            info.retain(|(k2, _)| k2 != k);
            info.push((k.clone(), v.clone()));
        }
        std::fs::write(ufo.join("fontinfo.plist"), Plist::Dict(info).to_xml_doc())?;
        // layers
        let hosted = self.hosted_layers(m);
        let mut lc = vec![Plist::Array(vec![
            Plist::String("public.default".into()),
            Plist::String("glyphs".into()),
        ])];
        for (lname, ldir, _) in &hosted {
            lc.push(Plist::Array(vec![
                Plist::String(lname.clone()),
                Plist::String(ldir.clone()),
            ]));
        }
        std::fs::write(ufo.join("layercontents.plist"), Plist::Array(lc).to_xml_doc())?;
        self.write_layer(m, &ufo.join("glyphs"))?;
        for (_, ldir, li) in &hosted {
            self.write_layer(*li, &ufo.join(ldir))?;
        }
        // lib
        let mut lib: Vec<(String, Plist)> = vec![];
        if let Some(order) = &self.glyph_order {
            lib.push((
                "public.glyphOrder".into(),
                Plist::Array(order.iter().map(|s| Plist::String(s.clone())).collect()),
            ));
        }
        let skip: Vec<Plist> = self
            .glyphs
            .iter()
            .filter(|g| !g.export)
            .map(|g| Plist::String(g.name.clone()))
            .collect();
        if self.write_skip_export && !skip.is_empty() {
            lib.push(("public.skipExportGlyphs".into(), Plist::Array(skip)));
        }
        if !self.categories.is_empty() {
            lib.push((
                "public.openTypeCategories".into(),
                Plist::Dict(
                    self.categories
                        .iter()
                        .map(|(k, v)| (k.clone(), Plist::String(v.clone())))
                        .collect(),
                ),
            ));
        }
        if !self.postscript_names.is_empty() {
            lib.push((
                "public.postscriptNames".into(),
                Plist::Dict(
                    self.postscript_names
                        .iter()
                        .map(|(k, v)| (k.clone(), Plist::String(v.clone())))
                        .collect(),
                ),
            ));
        }
        lib.extend(self.lib_extra.iter().cloned());
        std::fs::write(ufo.join("lib.plist"), Plist::Dict(lib).to_xml_doc())?;
        // kerning / groups
        if !master.groups.is_empty() {
            let g = Plist::Dict(
                master
                    .groups
                    .iter()
                    .map(|(k, v)| {
                        (
                            k.clone(),
                            Plist::Array(v.iter().map(|s| Plist::String(s.clone())).collect()),
                        )
                    })
                    .collect(),
            );
            std::fs::write(ufo.join("groups.plist"), g.to_xml_doc())?;
        }
        if !master.kerning.is_empty() {
            let mut firsts: BTreeMap<&String, Vec<(String, Plist)>> = BTreeMap::new();
            for ((a, b), v) in &master.kerning {
                firsts.entry(a).or_default().push((b.clone(), Plist::num(*v)));
            }
            let k = Plist::Dict(
                firsts
                    .into_iter()
                    .map(|(a, v)| (a.clone(), Plist::Dict(v)))
                    .collect(),
            );
            std::fs::write(ufo.join("kerning.plist"), k.to_xml_doc())?;
        }
        if let Some(fea) = &self.features_fea {
            std::fs::write(ufo.join("features.fea"), fea)?;
        }
        Ok(())
    }

    fn write_layer(&self, m: usize, dir: &Path) -> std::io::Result<()> {
        std::fs::create_dir_all(dir)?;
        let mut contents: Vec<(String, Plist)> = vec![];
        for (gi, g) in self.glyphs.iter().enumerate() {
            let Some(layer) = g.layers.get(&m) else {
                continue;
            };
            let file = format!("g{gi}.glif");
            std::fs::write(dir.join(&file), glif_xml(g, layer))?;
            contents.push((g.name.clone(), Plist::String(file)));
        }
        std::fs::write(dir.join("contents.plist"), Plist::Dict(contents).to_xml_doc())
    }
}

pub fn glif_xml(g: &Glyph, l: &Layer) -> String {
    let mut s = String::new();
    let _ = writeln!(s, "<?xml version='1.0' encoding='UTF-8'?>\n<glyph name=\"{}\" format=\"2\">", xml(&g.name));
    match l.height {
        Some(h) => {
            let _ = writeln!(s, "  <advance width=\"{}\" height=\"{}\"/>", num(l.advance), num(h));
        }
        None => {
            let _ = writeln!(s, "  <advance width=\"{}\"/>", num(l.advance));
        }
    }
    for cp in &g.codepoints {
        let _ = writeln!(s, "  <unicode hex=\"{cp:04X}\"/>");
    }
    for a in &l.anchors {
        let _ = writeln!(s, "  <anchor name=\"{}\" x=\"{}\" y=\"{}\"/>", xml(&a.name), num(a.x), num(a.y));
    }
    if !l.contours.is_empty() || !l.components.is_empty() {
        s.push_str("  <outline>\n");
        for c in &l.contours {
            s.push_str("    <contour>\n");
            for p in &c.points {
                let t = match p.kind {
                    PtKind::Move => " type=\"move\"",
                    PtKind::Line => " type=\"line\"",
                    PtKind::Curve => " type=\"curve\"",
                    PtKind::QCurve => " type=\"qcurve\"",
                    PtKind::Off => "",
                };
                let _ = writeln!(s, "      <point x=\"{}\" y=\"{}\"{t}/>", num(p.x), num(p.y));
            }
            s.push_str("    </contour>\n");
        }
        for c in &l.components {
            let [xx, xy, yx, yy, dx, dy] = c.xform;
            let _ = write!(s, "    <component base=\"{}\"", xml(&c.base));
            if xx != 1.0 {
                let _ = write!(s, " xScale=\"{}\"", num(xx));
            }
            if xy != 0.0 {
                let _ = write!(s, " xyScale=\"{}\"", num(xy));
            }
            if yx != 0.0 {
                let _ = write!(s, " yxScale=\"{}\"", num(yx));
            }
            if yy != 1.0 {
                let _ = write!(s, " yScale=\"{}\"", num(yy));
            }
            if dx != 0.0 {
                let _ = write!(s, " xOffset=\"{}\"", num(dx));
            }
            if dy != 0.0 {
                let _ = write!(s, " yOffset=\"{}\"", num(dy));
            }
            s.push_str("/>\n");
        }
        s.push_str("  </outline>\n");
    }
    s.push_str("</glyph>\n");
    s
}

pub fn xml(s: &str) -> String {
    s.replace('&', "&amp;")
        .replace('<', "&lt;")
        .replace('>', "&gt;")
        .replace('"', "&quot;")
}

/// shortest faithful decimal text of a number (integers without a fraction)
pub fn num(v: f64) -> String {
    if v.is_finite() && v == v.trunc() && v.abs() < 1e15 {
        format!("{}", v as i64)
    } else {
        format!("{v}")
    }
}

/// OpenType rounding as fontc/fontTools `otRound`: floor(v + 0.5)
pub fn ot_round(v: f64) -> f64 {
    (v + 0.5).floor()
}

/// serde adapter: `BTreeMap<(String, String), f64>` as a list of `((a, b), v)` entries, so that a
/// `Design` can be embedded in JSON replay files
mod pair_map {
    use serde::{Deserialize, Deserializer, Serialize, Serializer};
    use std::collections::BTreeMap;

    pub fn serialize<S: Serializer>(m: &BTreeMap<(String, String), f64>, s: S) -> Result<S::Ok, S::Error> {
        m.iter().collect::<Vec<_>>().serialize(s)
    }

    pub fn deserialize<'de, D: Deserializer<'de>>(d: D) -> Result<BTreeMap<(String, String), f64>, D::Error> {
        Ok(Vec::<((String, String), f64)>::deserialize(d)?.into_iter().collect())
    }
}

