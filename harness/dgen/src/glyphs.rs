//! Glyphs-format writers for `Design` (to be filled in).
