//! Glyphs-format writers for `Design`: Glyphs 3 (`.glyphs`, `.glyphspackage`) and Glyphs 2.
//!
//! The text is laid out the way Glyphs.app writes it: no indentation, one dictionary entry / array
//! element per line, node tuples and points inline, strings quoted only where needed.
//!
//! Mapping (what the Glyphs format can say of a `Design`):
//! * axes → `axes` (G3) / `Axes` custom parameter (G2); every full master carries its design location
//!   (`axesValues` / `weightValue,widthValue,customValue`); the user↔design mapping is always written
//!   explicitly as the `Axis Mappings` custom parameter (the axis `map`, or identity nodes at the
//!   master locations) so that instances never influence it; the default master is named by
//!   `Variable Font Origin`. Axis user bounds are *implied* by the master locations in Glyphs, so a
//!   design whose axis min/max is not at a master is not representable (`glyphs_representable`).
//! * full masters → `fontMaster` (id `m<i>`), metrics ascender / cap height / x-height / descender /
//!   italic angle; sparse layer masters → intermediate ("brace") layers of their host master.
//! * glyph layers: paths (UFO point order rotated so that the same start point results), components,
//!   anchors, width, `vertWidth` when a height is given; `export = 0`; `unicode`; `glyphOrder`.
//! * kerning → `kerningLTR` / `kerning` per master id; `public.kern1.X` ↔ `@MMK_L_X` (+ `kernRight = X`
//!   on the members), `public.kern2.X` ↔ `@MMK_R_X` (+ `kernLeft = X`); group membership is global in
//!   Glyphs, taken from the default master.
//! * instances → `instances` (design-space `axesValues`), features.fea → one `featurePrefixes` entry.
//! * NOT expressed: designspace `rules`, `Info.extra` other than versionMajor/versionMinor, `lib_extra`,
//!   `ds_lib_extra`, `postscript_names` → `production`, `categories` → `category`/`subCategory` (coarse).

use crate::{num, Component, Contour, Design, Glyph, Layer, MasterKind, PtKind};
use std::{
    fmt::Write as _,
    path::{Path, PathBuf},
};

/// A value of the text property list, printed Glyphs-style.
#[derive(Debug, Clone, PartialEq)]
pub enum GV {
    /// a string, quoted when needed
    S(String),
    /// a number
    N(f64),
    /// pre-rendered inline text such as `(10,20,l)`
    Raw(String),
    A(Vec<GV>),
    D(Vec<(String, GV)>),
}

/// May `s` be written without quotes? (conservative subset of what Glyphs.app leaves bare:
/// letters, digits, `_` and `.`, not starting with a digit, so it can never read as a number)
pub fn bare_ok(s: &str) -> bool {
    let b = s.as_bytes();
    if b.is_empty() {
        return false;
    }
    if !b
        .iter()
        .all(|c| c.is_ascii_alphanumeric() || *c == b'_' || *c == b'.')
    {
        return false;
    }
    let first_ok = b[0].is_ascii_alphabetic()
        || b[0] == b'_'
        || (b[0] == b'.' && b.len() > 1 && (b[1].is_ascii_alphabetic() || b[1] == b'_'));
    if !first_ok {
        return false;
    }
    // words the reader would have to special-case as non-numbers
    !matches!(
        s.to_ascii_lowercase().as_str(),
        "inf" | "infinity" | "nan"
    )
}

pub fn quote(s: &str) -> String {
    let mut o = String::with_capacity(s.len() + 2);
    o.push('"');
    for c in s.chars() {
        match c {
            '"' => o.push_str("\\\""),
            '\\' => o.push_str("\\\\"),
            c => o.push(c),
        }
    }
    o.push('"');
    o
}

pub fn atom(s: &str) -> String {
    if bare_ok(s) { s.to_string() } else { quote(s) }
}

impl GV {
    pub fn s(v: &str) -> GV {
        GV::S(v.to_string())
    }
    pub fn print(&self, out: &mut String) {
        match self {
            GV::S(s) => out.push_str(&atom(s)),
            GV::N(v) => out.push_str(&num(*v)),
            GV::Raw(r) => out.push_str(r),
            GV::A(a) => {
                out.push_str("(\n");
                for (i, v) in a.iter().enumerate() {
                    v.print(out);
                    if i + 1 < a.len() {
                        out.push(',');
                    }
                    out.push('\n');
                }
                out.push(')');
            }
            GV::D(d) => {
                out.push_str("{\n");
                for (k, v) in d {
                    // numeric keys (axis mapping nodes) stay bare, as Glyphs.app writes them
                    let numeric = !k.is_empty()
                        && k.parse::<f64>().is_ok()
                        && k.bytes().all(|c| c.is_ascii_digit() || c == b'.' || c == b'-');
                    out.push_str(&if numeric { k.clone() } else { atom(k) });
                    out.push_str(" = ");
                    v.print(out);
                    out.push_str(";\n");
                }
                out.push('}');
            }
        }
    }
    pub fn to_text(&self) -> String {
        let mut s = String::new();
        self.print(&mut s);
        s.push('\n');
        s
    }
}

fn inline_nums(v: &[f64]) -> String {
    format!("({})", v.iter().map(|x| num(*x)).collect::<Vec<_>>().join(","))
}

/// UFO contour → Glyphs node order and the closed flag.
/// Closed: Glyphs stores the start node last, so rotate left by one. Open (starts with Move): as is.
fn glyphs_nodes(c: &Contour) -> (bool, Vec<(f64, f64, PtKind)>) {
    let pts: Vec<(f64, f64, PtKind)> = c.points.iter().map(|p| (p.x, p.y, p.kind)).collect();
    let open = pts.first().map(|p| p.2 == PtKind::Move).unwrap_or(false);
    if open {
        return (false, pts);
    }
    let mut v = pts;
    if v.iter().any(|p| p.2 != PtKind::Off) && !v.is_empty() {
        v.rotate_left(1);
    }
    (true, v)
}

fn master_id(m: usize) -> String {
    format!("m{m}")
}

/// Optional spellings of the Glyphs 3 writer (all off by default = what `to_glyphs3` writes).
#[derive(Debug, Clone, Default, PartialEq, Eq, serde::Serialize, serde::Deserialize)]
pub struct G3Opts {
    /// Write an intermediate ("brace") layer's `coordinates` (and the `{..}` of its name) without the
    /// trailing axes on which the layer sits where its associated (host) master sits: in Glyphs an
    /// axis that a brace layer does not list comes from the associated master. At least one
    /// coordinate is always written (an empty list would not be a brace layer).
    #[serde(default)]
    pub brace_partial_coordinates: bool,
}

fn version_of(d: &Design) -> (Option<f64>, Option<f64>) {
    let mut major = None;
    let mut minor = None;
    for (k, v) in &d.masters[d.default_master].info.extra {
        let n = match v {
            crate::plist::Plist::Int(i) => Some(*i as f64),
            crate::plist::Plist::Real(r) => Some(*r),
            _ => None,
        };
        match k.as_str() {
            "versionMajor" => major = n,
            "versionMinor" => minor = n,
            _ => {}
        }
    }
    (major, minor)
}

impl Design {
    fn full_masters(&self) -> Vec<usize> {
        (0..self.masters.len())
            .filter(|i| self.masters[*i].kind == MasterKind::Full)
            .collect()
    }

    /// Reasons why the Glyphs format cannot say what this design says (empty = representable).
    pub fn glyphs_unrepresentable(&self) -> Vec<String> {
        let mut why = vec![];
        let fulls = self.full_masters();
        for (ai, a) in self.axes.iter().enumerate() {
            let locs: Vec<f64> = fulls.iter().map(|m| self.masters[*m].loc[ai]).collect();
            let lo = locs.iter().cloned().fold(f64::INFINITY, f64::min);
            let hi = locs.iter().cloned().fold(f64::NEG_INFINITY, f64::max);
            if lo != a.design_min() || hi != a.design_max() {
                why.push(format!("axis {} bounds are not at full masters", a.tag));
            }
        }
        if !self.rules.is_empty() {
            why.push("designspace rules".into());
        }
        if matches!(self.masters[self.default_master].kind, MasterKind::LayerOf(_)) {
            why.push("default master is a layer master".into());
        }
        let skewed = |c: &Component| {
            let [xx, xy, yx, yy, _, _] = c.xform;
            !((xy == 0.0 && yx == 0.0) || (xx == 0.0 && yy == 0.0))
        };
        if self.glyphs.iter().any(|g| g.layers.values().any(|l| l.components.iter().any(skewed))) {
            // Glyphs 3 spells a component transform as pos/angle/scale(/slant); fontc's reader does not
            // read `slant` and cannot parse a `transform` string on a Glyphs 3 shape. Glyphs 2 is fine.
            why.push("component with a rotated/skewed 2x2 other than a multiple of 90 degrees (Glyphs 3 only)".into());
        }
        why
    }

    fn axis_mappings_param(&self) -> Option<GV> {
        if self.axes.is_empty() {
            return None;
        }
        let fulls = self.full_masters();
        let mut per_axis = vec![];
        for (ai, a) in self.axes.iter().enumerate() {
            let mut nodes: Vec<(f64, f64)> = if a.map.is_empty() {
                let mut v: Vec<f64> = fulls.iter().map(|m| self.masters[*m].loc[ai]).collect();
                v.push(a.design_default());
                v.sort_by(|x, y| x.partial_cmp(y).unwrap());
                v.dedup();
                v.into_iter().map(|x| (x, x)).collect()
            } else {
                a.map.clone()
            };
            nodes.sort_by(|x, y| x.0.partial_cmp(&y.0).unwrap());
            per_axis.push((
                a.tag.clone(),
                GV::D(nodes.iter().map(|(u, d)| (num(*u), GV::N(*d))).collect()),
            ));
        }
        Some(GV::D(vec![
            ("name".into(), GV::s("Axis Mappings")),
            ("value".into(), GV::D(per_axis)),
        ]))
    }

    fn font_custom_params(&self) -> Vec<GV> {
        let mut cp = vec![];
        if let Some(m) = self.axis_mappings_param() {
            cp.push(m);
        }
        if !self.axes.is_empty() {
            cp.push(GV::D(vec![
                ("name".into(), GV::s("Variable Font Origin")),
                ("value".into(), GV::S(master_id(self.default_master))),
            ]));
        }
        if let Some(order) = &self.glyph_order {
            cp.push(GV::D(vec![
                ("name".into(), GV::s("glyphOrder")),
                ("value".into(), GV::A(order.iter().map(|s| GV::s(s)).collect())),
            ]));
        }
        cp
    }

    /// glyph name → (kernLeft, kernRight) from the default master's groups
    fn kern_groups_of(&self, glyph: &str) -> (Option<String>, Option<String>) {
        let groups = &self.masters[self.default_master].groups;
        let mut left = None;
        let mut right = None;
        for (name, members) in groups {
            if !members.iter().any(|m| m == glyph) {
                continue;
            }
            if let Some(n) = name.strip_prefix("public.kern1.") {
                right = Some(n.to_string());
            } else if let Some(n) = name.strip_prefix("public.kern2.") {
                left = Some(n.to_string());
            }
        }
        (left, right)
    }

    fn kerning_gv(&self) -> Option<GV> {
        let side = |s: &str, first: bool| -> String {
            if let Some(n) = s.strip_prefix("public.kern1.") {
                format!("@MMK_L_{n}")
            } else if let Some(n) = s.strip_prefix("public.kern2.") {
                format!("@MMK_R_{n}")
            } else {
                let _ = first;
                s.to_string()
            }
        };
        let mut per_master = vec![];
        for m in self.full_masters() {
            let k = &self.masters[m].kerning;
            if k.is_empty() {
                continue;
            }
            let mut firsts: Vec<(String, Vec<(String, GV)>)> = vec![];
            for ((a, b), v) in k {
                let a = side(a, true);
                let b = side(b, false);
                match firsts.iter_mut().find(|(n, _)| *n == a) {
                    Some((_, v2)) => v2.push((b, GV::N(*v))),
                    None => firsts.push((a, vec![(b, GV::N(*v))])),
                }
            }
            per_master.push((
                master_id(m),
                GV::D(firsts.into_iter().map(|(a, v)| (a, GV::D(v))).collect()),
            ));
        }
        if per_master.is_empty() { None } else { Some(GV::D(per_master)) }
    }

    fn category_entries(&self, g: &Glyph) -> Vec<(String, GV)> {
        match self.categories.get(&g.name).map(|s| s.as_str()) {
            Some("mark") => vec![
                ("category".into(), GV::s("Mark")),
                ("subCategory".into(), GV::s("Nonspacing")),
            ],
            Some("ligature") => vec![
                ("category".into(), GV::s("Letter")),
                ("subCategory".into(), GV::s("Ligature")),
            ],
            Some("base") => vec![("category".into(), GV::s("Letter"))],
            _ => vec![],
        }
    }

    // ------------------------------------------------------------------ Glyphs 3

    fn g3_component(c: &Component) -> GV {
        let [xx, xy, yx, yy, dx, dy] = c.xform;
        let mut e: Vec<(String, GV)> = vec![];
        let mut angle = None;
        let mut scale = None;
        let mut full = false;
        if xy == 0.0 && yx == 0.0 {
            if xx != 1.0 || yy != 1.0 {
                scale = Some((xx, yy));
            }
        } else if xx == 0.0 && yy == 0.0 {
            // rot(90)*scale(sx,sy) = [0, sx, -sy, 0]; rot(270)*scale = [0, -sx, sy, 0]
            if xy > 0.0 {
                angle = Some(90.0);
                scale = Some((xy, -yx));
            } else {
                angle = Some(270.0);
                scale = Some((-xy, yx));
            }
            if scale == Some((1.0, 1.0)) {
                scale = None;
            }
        } else {
            full = true;
        }
        if let Some(a) = angle {
            e.push(("angle".into(), GV::N(a)));
        }
        if !full && (dx != 0.0 || dy != 0.0) {
            e.push(("pos".into(), GV::Raw(inline_nums(&[dx, dy]))));
        }
        e.push(("ref".into(), GV::s(&c.base)));
        if let Some((sx, sy)) = scale {
            e.push(("scale".into(), GV::Raw(inline_nums(&[sx, sy]))));
        }
        if full {
            // a general matrix: the reader also accepts the Glyphs 2 `transform` string on a shape
            e.push((
                "transform".into(),
                GV::S(format!(
                    "{{{}, {}, {}, {}, {}, {}}}",
                    num(xx),
                    num(xy),
                    num(yx),
                    num(yy),
                    num(dx),
                    num(dy)
                )),
            ));
        }
        GV::D(e)
    }

    /// The coordinate list written for the brace layer of layer master `m` under `o`
    /// (the full design location unless `o.brace_partial_coordinates` lets trailing axes go).
    pub fn brace_coordinates(&self, m: usize, o: &G3Opts) -> Vec<f64> {
        let loc = &self.masters[m].loc;
        let mut keep = loc.len();
        if let (true, MasterKind::LayerOf(h)) = (o.brace_partial_coordinates, &self.masters[m].kind) {
            let host = &self.masters[*h].loc;
            while keep > 1 && host.get(keep - 1) == Some(&loc[keep - 1]) {
                keep -= 1;
            }
        }
        loc[..keep].to_vec()
    }

    #[allow(dead_code)]
    fn g3_layer(&self, gi: usize, m: usize, l: &Layer) -> GV {
        self.g3_layer_o(gi, m, l, &G3Opts::default())
    }

    fn g3_layer_o(&self, gi: usize, m: usize, l: &Layer, o: &G3Opts) -> GV {
        let mut e: Vec<(String, GV)> = vec![];
        if !l.anchors.is_empty() {
            e.push((
                "anchors".into(),
                GV::A(
                    l.anchors
                        .iter()
                        .map(|a| {
                            GV::D(vec![
                                ("name".into(), GV::s(&a.name)),
                                ("pos".into(), GV::Raw(inline_nums(&[a.x, a.y]))),
                            ])
                        })
                        .collect(),
                ),
            ));
        }
        match self.masters[m].kind {
            MasterKind::Full => e.push(("layerId".into(), GV::S(master_id(m)))),
            MasterKind::LayerOf(h) => {
                let coords = self.brace_coordinates(m, o);
                e.push(("associatedMasterId".into(), GV::S(master_id(h))));
                e.push((
                    "attr".into(),
                    GV::D(vec![(
                        "coordinates".into(),
                        GV::A(coords.iter().map(|v| GV::N(*v)).collect()),
                    )]),
                ));
                e.push(("layerId".into(), GV::S(format!("L{m}-{gi}"))));
                e.push((
                    "name".into(),
                    GV::S(format!(
                        "{{{}}}",
                        coords.iter().map(|v| num(*v)).collect::<Vec<_>>().join(", ")
                    )),
                ));
            }
        }
        let mut shapes = vec![];
        for c in &l.contours {
            let (closed, nodes) = glyphs_nodes(c);
            shapes.push(GV::D(vec![
                ("closed".into(), GV::N(if closed { 1.0 } else { 0.0 })),
                (
                    "nodes".into(),
                    GV::A(
                        nodes
                            .iter()
                            .map(|(x, y, k)| {
                                let t = match k {
                                    PtKind::Move | PtKind::Line => "l",
                                    PtKind::Off => "o",
                                    PtKind::Curve => "c",
                                    PtKind::QCurve => "q",
                                };
                                GV::Raw(format!("({},{},{t})", num(*x), num(*y)))
                            })
                            .collect(),
                    ),
                ),
            ]));
        }
        for c in &l.components {
            shapes.push(Self::g3_component(c));
        }
        if !shapes.is_empty() {
            e.push(("shapes".into(), GV::A(shapes)));
        }
        if let Some(h) = l.height {
            e.push(("vertWidth".into(), GV::N(h)));
        }
        e.push(("width".into(), GV::N(l.advance)));
        GV::D(e)
    }

    fn g3_glyph(&self, gi: usize) -> GV {
        self.g3_glyph_o(gi, &G3Opts::default())
    }

    fn g3_glyph_o(&self, gi: usize, o: &G3Opts) -> GV {
        let g = &self.glyphs[gi];
        let mut e: Vec<(String, GV)> = vec![];
        e.extend(self.category_entries(g).into_iter().filter(|(k, _)| k == "category"));
        if !g.export {
            e.push(("export".into(), GV::N(0.0)));
        }
        e.push(("glyphname".into(), GV::s(&g.name)));
        let (kl, kr) = self.kern_groups_of(&g.name);
        if let Some(k) = kl {
            e.push(("kernLeft".into(), GV::S(k)));
        }
        if let Some(k) = kr {
            e.push(("kernRight".into(), GV::S(k)));
        }
        e.push((
            "layers".into(),
            GV::A(g.layers.iter().map(|(m, l)| self.g3_layer_o(gi, *m, l, o)).collect()),
        ));
        if let Some(p) = self.postscript_names.get(&g.name) {
            e.push(("production".into(), GV::s(p)));
        }
        e.extend(self.category_entries(g).into_iter().filter(|(k, _)| k == "subCategory"));
        match g.codepoints.len() {
            0 => {}
            1 => e.push(("unicode".into(), GV::Raw(format!("{}", g.codepoints[0])))),
            _ => e.push((
                "unicode".into(),
                GV::Raw(format!(
                    "({})",
                    g.codepoints.iter().map(|c| c.to_string()).collect::<Vec<_>>().join(",")
                )),
            )),
        }
        GV::D(e)
    }

    /// The top-level dictionary of the Glyphs 3 file, with or without the `glyphs` entry.
    fn g3_top(&self, with_glyphs: bool) -> GV {
        self.g3_top_o(with_glyphs, &G3Opts::default())
    }

    fn g3_top_o(&self, with_glyphs: bool, o: &G3Opts) -> GV {
        let mut e: Vec<(String, GV)> = vec![
            (".appVersion".into(), GV::S("3300".into())),
            (".formatVersion".into(), GV::N(3.0)),
        ];
        if !self.axes.is_empty() {
            e.push((
                "axes".into(),
                GV::A(
                    self.axes
                        .iter()
                        .map(|a| {
                            let mut d = vec![];
                            if a.hidden {
                                d.push(("hidden".to_string(), GV::N(1.0)));
                            }
                            d.push(("name".to_string(), GV::s(&a.name)));
                            d.push(("tag".to_string(), GV::s(&a.tag)));
                            GV::D(d)
                        })
                        .collect(),
                ),
            ));
        }
        let cp = self.font_custom_params();
        if !cp.is_empty() {
            e.push(("customParameters".into(), GV::A(cp)));
        }
        e.push(("familyName".into(), GV::s(&self.family)));
        if let Some(fea) = &self.features_fea {
            e.push((
                "featurePrefixes".into(),
                GV::A(vec![GV::D(vec![
                    ("code".into(), GV::S(fea.clone())),
                    ("name".into(), GV::s("Prefix")),
                ])]),
            ));
        }
        e.push((
            "fontMaster".into(),
            GV::A(
                self.full_masters()
                    .into_iter()
                    .map(|m| {
                        let ms = &self.masters[m];
                        let mut d: Vec<(String, GV)> = vec![];
                        if !self.axes.is_empty() {
                            d.push((
                                "axesValues".into(),
                                GV::A(ms.loc.iter().map(|v| GV::N(*v)).collect()),
                            ));
                        }
                        d.push(("id".into(), GV::S(master_id(m))));
                        let mv = |v: f64| {
                            if v == 0.0 { GV::D(vec![]) } else { GV::D(vec![("pos".into(), GV::N(v))]) }
                        };
                        d.push((
                            "metricValues".into(),
                            GV::A(vec![
                                mv(ms.info.ascender),
                                mv(ms.info.cap_height),
                                mv(ms.info.x_height),
                                GV::D(vec![]),
                                mv(ms.info.descender),
                                mv(ms.info.italic_angle),
                            ]),
                        ));
                        d.push(("name".into(), GV::s(&ms.style_name)));
                        GV::D(d)
                    })
                    .collect(),
            ),
        ));
        if with_glyphs {
            e.push((
                "glyphs".into(),
                GV::A((0..self.glyphs.len()).map(|gi| self.g3_glyph_o(gi, o)).collect()),
            ));
        }
        if !self.instances.is_empty() {
            e.push((
                "instances".into(),
                GV::A(
                    self.instances
                        .iter()
                        .map(|i| {
                            let mut d: Vec<(String, GV)> = vec![];
                            let dl: Vec<GV> = self
                                .axes
                                .iter()
                                .zip(&i.user_loc)
                                .map(|(a, u)| GV::N(a.user_to_design(*u)))
                                .collect();
                            if !dl.is_empty() {
                                d.push(("axesValues".into(), GV::A(dl)));
                            }
                            d.push(("name".into(), GV::s(&i.style)));
                            let mut props = vec![];
                            if let Some(f) = &i.family {
                                props.push(GV::D(vec![
                                    ("key".into(), GV::s("familyNames")),
                                    (
                                        "values".into(),
                                        GV::A(vec![GV::D(vec![
                                            ("language".into(), GV::s("dflt")),
                                            ("value".into(), GV::s(f)),
                                        ])]),
                                    ),
                                ]));
                            }
                            if let Some(ps) = &i.ps_name {
                                props.push(GV::D(vec![
                                    ("key".into(), GV::s("postscriptFontName")),
                                    ("value".into(), GV::s(ps)),
                                ]));
                            }
                            if !props.is_empty() {
                                d.push(("properties".into(), GV::A(props)));
                            }
                            GV::D(d)
                        })
                        .collect(),
                ),
            ));
        }
        if let Some(k) = self.kerning_gv() {
            e.push(("kerningLTR".into(), k));
        }
        e.push((
            "metrics".into(),
            GV::A(
                ["ascender", "cap height", "x-height", "baseline", "descender", "italic angle"]
                    .iter()
                    .map(|t| GV::D(vec![("type".into(), GV::s(t))]))
                    .collect(),
            ),
        ));
        e.push(("unitsPerEm".into(), GV::N(self.upem as f64)));
        let (maj, min) = version_of(self);
        if let Some(v) = maj {
            e.push(("versionMajor".into(), GV::N(v)));
        }
        if let Some(v) = min {
            e.push(("versionMinor".into(), GV::N(v)));
        }
        GV::D(e)
    }

    /// The design as the text of a Glyphs 3 `.glyphs` file.
    pub fn to_glyphs3(&self) -> String {
        self.g3_top(true).to_text()
    }

    /// The design as the text of a Glyphs 3 `.glyphs` file, with optional spellings.
    pub fn to_glyphs3_with(&self, o: &G3Opts) -> String {
        self.g3_top_o(true, o).to_text()
    }

    /// Writes `<dir>/design.glyphs` (Glyphs 3) with optional spellings. Returns its path.
    pub fn write_glyphs3_with(&self, dir: &Path, o: &G3Opts) -> std::io::Result<PathBuf> {
        std::fs::create_dir_all(dir)?;
        let p = dir.join("design.glyphs");
        std::fs::write(&p, self.to_glyphs3_with(o))?;
        Ok(p)
    }

    /// Writes `<dir>/design.glyphs` (Glyphs 3). Returns its path.
    pub fn write_glyphs3(&self, dir: &Path) -> std::io::Result<PathBuf> {
        std::fs::create_dir_all(dir)?;
        let p = dir.join("design.glyphs");
        std::fs::write(&p, self.to_glyphs3())?;
        Ok(p)
    }

    /// Writes `<dir>/design.glyphspackage` (Glyphs 3): `fontinfo.plist`, `order.plist`,
    /// `glyphs/<name>.glyph`, and a `UIState.plist` as Glyphs.app leaves one. Returns the package path.
    pub fn write_glyphspackage(&self, dir: &Path) -> std::io::Result<PathBuf> {
        let p = dir.join("design.glyphspackage");
        let gdir = p.join("glyphs");
        std::fs::create_dir_all(&gdir)?;
        std::fs::write(p.join("fontinfo.plist"), self.g3_top(false).to_text())?;
        std::fs::write(
            p.join("order.plist"),
            GV::A(self.glyphs.iter().map(|g| GV::s(&g.name)).collect()).to_text(),
        )?;
        std::fs::write(
            p.join("UIState.plist"),
            GV::D(vec![("displayStrings".into(), GV::A(vec![GV::s("A")]))]).to_text(),
        )?;
        let mut used: Vec<String> = vec![];
        for gi in 0..self.glyphs.len() {
            let mut f = glyph_file_name(&self.glyphs[gi].name);
            if used.contains(&f) {
                f = format!("{f}.{gi}");
            }
            used.push(f.clone());
            std::fs::write(gdir.join(format!("{f}.glyph")), self.g3_glyph(gi).to_text())?;
        }
        Ok(p)
    }

    // ------------------------------------------------------------------ Glyphs 2

    /// The design as the text of a Glyphs 2 file; `None` if it uses something Glyphs 2 cannot
    /// express (more than 3 axes, a hidden axis).
    pub fn to_glyphs2(&self) -> Option<String> {
        if self.axes.len() > 3 || self.axes.iter().any(|a| a.hidden) {
            return None;
        }
        const AXV: [&str; 3] = ["weightValue", "widthValue", "customValue"];
        const IAXV: [&str; 3] = ["interpolationWeight", "interpolationWidth", "interpolationCustom"];
        let mut e: Vec<(String, GV)> = vec![(".appVersion".into(), GV::S("1361".into()))];
        let mut cp = vec![];
        if !self.axes.is_empty() {
            cp.push(GV::D(vec![
                ("name".into(), GV::s("Axes")),
                (
                    "value".into(),
                    GV::A(
                        self.axes
                            .iter()
                            .map(|a| {
                                GV::D(vec![
                                    ("Name".into(), GV::s(&a.name)),
                                    ("Tag".into(), GV::s(&a.tag)),
                                ])
                            })
                            .collect(),
                    ),
                ),
            ]));
        }
        cp.extend(self.font_custom_params());
        if !cp.is_empty() {
            e.push(("customParameters".into(), GV::A(cp)));
        }
        e.push(("familyName".into(), GV::s(&self.family)));
        if let Some(fea) = &self.features_fea {
            e.push((
                "featurePrefixes".into(),
                GV::A(vec![GV::D(vec![
                    ("code".into(), GV::S(fea.clone())),
                    ("name".into(), GV::s("Prefix")),
                ])]),
            ));
        }
        e.push((
            "fontMaster".into(),
            GV::A(
                self.full_masters()
                    .into_iter()
                    .map(|m| {
                        let ms = &self.masters[m];
                        let mut d: Vec<(String, GV)> = vec![
                            ("ascender".into(), GV::N(ms.info.ascender)),
                            ("capHeight".into(), GV::N(ms.info.cap_height)),
                            ("custom".into(), GV::s(&ms.style_name)),
                        ];
                        if self.axes.len() > 2 {
                            d.push((AXV[2].into(), GV::N(ms.loc[2])));
                        }
                        d.push(("descender".into(), GV::N(ms.info.descender)));
                        d.push(("id".into(), GV::S(master_id(m))));
                        if ms.info.italic_angle != 0.0 {
                            d.push(("italicAngle".into(), GV::N(ms.info.italic_angle)));
                        }
                        if !self.axes.is_empty() {
                            d.push((AXV[0].into(), GV::N(ms.loc[0])));
                        }
                        if self.axes.len() > 1 {
                            d.push((AXV[1].into(), GV::N(ms.loc[1])));
                        }
                        d.push(("xHeight".into(), GV::N(ms.info.x_height)));
                        GV::D(d)
                    })
                    .collect(),
            ),
        ));
        let glyphs: Vec<GV> = (0..self.glyphs.len()).map(|gi| self.g2_glyph(gi)).collect();
        e.push(("glyphs".into(), GV::A(glyphs)));
        if !self.instances.is_empty() {
            e.push((
                "instances".into(),
                GV::A(
                    self.instances
                        .iter()
                        .map(|i| {
                            let mut d: Vec<(String, GV)> = vec![];
                            let mut cps = vec![];
                            if let Some(f) = &i.family {
                                cps.push(GV::D(vec![
                                    ("name".into(), GV::s("familyName")),
                                    ("value".into(), GV::s(f)),
                                ]));
                            }
                            if let Some(ps) = &i.ps_name {
                                cps.push(GV::D(vec![
                                    ("name".into(), GV::s("postscriptFontName")),
                                    ("value".into(), GV::s(ps)),
                                ]));
                            }
                            if !cps.is_empty() {
                                d.push(("customParameters".into(), GV::A(cps)));
                            }
                            for (ai, (a, u)) in self.axes.iter().zip(&i.user_loc).enumerate() {
                                d.push((IAXV[ai].into(), GV::N(a.user_to_design(*u))));
                            }
                            d.push(("name".into(), GV::s(&i.style)));
                            GV::D(d)
                        })
                        .collect(),
                ),
            ));
        }
        if let Some(k) = self.kerning_gv() {
            e.push(("kerning".into(), k));
        }
        e.push(("unitsPerEm".into(), GV::N(self.upem as f64)));
        let (maj, min) = version_of(self);
        if let Some(v) = maj {
            e.push(("versionMajor".into(), GV::N(v)));
        }
        if let Some(v) = min {
            e.push(("versionMinor".into(), GV::N(v)));
        }
        Some(GV::D(e).to_text())
    }

    fn g2_glyph(&self, gi: usize) -> GV {
        let g = &self.glyphs[gi];
        let mut e: Vec<(String, GV)> = vec![];
        e.extend(self.category_entries(g).into_iter().filter(|(k, _)| k == "category"));
        if !g.export {
            e.push(("export".into(), GV::N(0.0)));
        }
        e.push(("glyphname".into(), GV::s(&g.name)));
        let mut layers = vec![];
        for (m, l) in &g.layers {
            let mut d: Vec<(String, GV)> = vec![];
            if !l.anchors.is_empty() {
                d.push((
                    "anchors".into(),
                    GV::A(
                        l.anchors
                            .iter()
                            .map(|a| {
                                GV::D(vec![
                                    ("name".into(), GV::s(&a.name)),
                                    ("position".into(), GV::S(format!("{{{}, {}}}", num(a.x), num(a.y)))),
                                ])
                            })
                            .collect(),
                    ),
                ));
            }
            if let MasterKind::LayerOf(h) = self.masters[*m].kind {
                d.push(("associatedMasterId".into(), GV::S(master_id(h))));
            }
            if !l.components.is_empty() {
                d.push((
                    "components".into(),
                    GV::A(
                        l.components
                            .iter()
                            .map(|c| {
                                let mut cd = vec![("name".to_string(), GV::s(&c.base))];
                                if c.xform != [1.0, 0.0, 0.0, 1.0, 0.0, 0.0] {
                                    cd.push((
                                        "transform".into(),
                                        GV::S(format!(
                                            "{{{}}}",
                                            c.xform.iter().map(|v| num(*v)).collect::<Vec<_>>().join(", ")
                                        )),
                                    ));
                                }
                                GV::D(cd)
                            })
                            .collect(),
                    ),
                ));
            }
            match self.masters[*m].kind {
                MasterKind::Full => d.push(("layerId".into(), GV::S(master_id(*m)))),
                MasterKind::LayerOf(_) => {
                    d.push(("layerId".into(), GV::S(format!("L{m}-{gi}"))));
                    d.push((
                        "name".into(),
                        GV::S(format!(
                            "{{{}}}",
                            self.masters[*m].loc.iter().map(|v| num(*v)).collect::<Vec<_>>().join(", ")
                        )),
                    ));
                }
            }
            if !l.contours.is_empty() {
                d.push((
                    "paths".into(),
                    GV::A(
                        l.contours
                            .iter()
                            .map(|c| {
                                let (closed, nodes) = glyphs_nodes(c);
                                GV::D(vec![
                                    ("closed".into(), GV::N(if closed { 1.0 } else { 0.0 })),
                                    (
                                        "nodes".into(),
                                        GV::A(
                                            nodes
                                                .iter()
                                                .map(|(x, y, k)| {
                                                    let t = match k {
                                                        PtKind::Move | PtKind::Line => "LINE",
                                                        PtKind::Off => "OFFCURVE",
                                                        PtKind::Curve => "CURVE",
                                                        PtKind::QCurve => "QCURVE",
                                                    };
                                                    GV::S(format!("{} {} {t}", num(*x), num(*y)))
                                                })
                                                .collect(),
                                        ),
                                    ),
                                ])
                            })
                            .collect(),
                    ),
                ));
            }
            if let Some(h) = l.height {
                d.push(("vertWidth".into(), GV::N(h)));
            }
            d.push(("width".into(), GV::N(l.advance)));
            layers.push(GV::D(d));
        }
        e.push(("layers".into(), GV::A(layers)));
        let (kl, kr) = self.kern_groups_of(&g.name);
        if let Some(k) = kl {
            e.push(("leftKerningGroup".into(), GV::S(k)));
        }
        if let Some(p) = self.postscript_names.get(&g.name) {
            e.push(("production".into(), GV::s(p)));
        }
        if let Some(k) = kr {
            e.push(("rightKerningGroup".into(), GV::S(k)));
        }
        e.extend(self.category_entries(g).into_iter().filter(|(k, _)| k == "subCategory"));
        if !g.codepoints.is_empty() {
            let hex: Vec<String> = g.codepoints.iter().map(|c| format!("{c:04X}")).collect();
            e.push((
                "unicode".into(),
                if hex.len() == 1 {
                    GV::Raw(hex[0].clone())
                } else {
                    GV::Raw(format!("\"{}\"", hex.join(",")))
                },
            ));
        }
        GV::D(e)
    }
}

/// File stem for a glyph inside a `.glyphspackage` (UFO-like: capitals get a trailing `_`).
pub fn glyph_file_name(name: &str) -> String {
    let mut s = String::new();
    for c in name.chars() {
        if c.is_ascii_uppercase() {
            s.push(c);
            s.push('_');
        } else if c.is_ascii_alphanumeric() || c == '.' || c == '-' || c == '_' {
            s.push(c);
        } else {
            let _ = write!(s, "_{:04X}", c as u32);
        }
    }
    if s.starts_with('.') {
        s.replace_range(0..1, "_");
    }
    s
}
