//! A few drawing helpers used by several generators.
use crate::{Contour, Pt, PtKind};

pub fn line_contour(pts: &[(f64, f64)]) -> Contour {
    Contour {
        points: pts
            .iter()
            .map(|(x, y)| Pt { x: *x, y: *y, kind: PtKind::Line })
            .collect(),
    }
}

/// counter-clockwise rectangle (as drawn in a UFO; fontc reverses it for TrueType)
pub fn rect(x0: f64, y0: f64, x1: f64, y1: f64) -> Contour {
    line_contour(&[(x0, y0), (x1, y0), (x1, y1), (x0, y1)])
}

pub fn triangle(x0: f64, y0: f64, w: f64, h: f64) -> Contour {
    line_contour(&[(x0, y0), (x0 + w, y0), (x0 + w / 2.0, y0 + h)])
}

/// a closed quadratic blob: on-curve / off-curve alternating (qcurve segments)
pub fn quad_blob(cx: f64, cy: f64, r: f64) -> Contour {
    let p = |x: f64, y: f64, kind| Pt { x: cx + x, y: cy + y, kind };
    Contour {
        points: vec![
            p(r, 0.0, PtKind::QCurve),
            p(r, r, PtKind::Off),
            p(0.0, r, PtKind::QCurve),
            p(-r, r, PtKind::Off),
            p(-r, 0.0, PtKind::QCurve),
            p(-r, -r, PtKind::Off),
            p(0.0, -r, PtKind::QCurve),
            p(r, -r, PtKind::Off),
        ],
    }
}

/// a closed cubic blob (4 curve segments)
pub fn cubic_blob(cx: f64, cy: f64, r: f64) -> Contour {
    let k = r * 0.5523;
    let p = |x: f64, y: f64, kind| Pt { x: (cx + x).round(), y: (cy + y).round(), kind };
    Contour {
        points: vec![
            p(r, 0.0, PtKind::Curve),
            p(r, k, PtKind::Off),
            p(k, r, PtKind::Off),
            p(0.0, r, PtKind::Curve),
            p(-k, r, PtKind::Off),
            p(-r, k, PtKind::Off),
            p(-r, 0.0, PtKind::Curve),
            p(-r, -k, PtKind::Off),
            p(-k, -r, PtKind::Off),
            p(0.0, -r, PtKind::Curve),
            p(k, -r, PtKind::Off),
            p(r, -k, PtKind::Off),
        ],
    }
}

pub fn map_contour(c: &Contour, f: impl Fn(usize, f64, f64) -> (f64, f64)) -> Contour {
    Contour {
        points: c
            .points
            .iter()
            .enumerate()
            .map(|(i, p)| {
                let (x, y) = f(i, p.x, p.y);
                Pt { x, y, kind: p.kind }
            })
            .collect(),
    }
}
