//! Lookup application machinery shared by GSUB and GPOS: lookup-flag filtering, sequence
//! matching through the skip filter, contextual lookups (types GSUB 5/6, GPOS 7/8, formats
//! 1-3) and nested lookup application with match-position bookkeeping.

use write_fonts::read::{
    ReadError,
    tables::layout::{
        ChainedSequenceContext, ClassDef, CoverageTable, SequenceContext, SequenceLookupRecord,
    },
};

use crate::{
    Buffer, LFont, MAX_CONTEXT_LEN, MAX_NESTING, MAX_OPS, Table,
    cov::{class_of, coverage_index},
};

/// Lookup flag bits (OpenType "LookupFlag bit enumeration").
pub const IGNORE_BASE_GLYPHS: u16 = 0x0002;
pub const IGNORE_LIGATURES: u16 = 0x0004;
pub const IGNORE_MARKS: u16 = 0x0008;
pub const USE_MARK_FILTERING_SET: u16 = 0x0010;
pub const MARK_ATTACHMENT_TYPE_MASK: u16 = 0xFF00;
pub const RIGHT_TO_LEFT: u16 = 0x0001;

/// The glyph-filtering properties of a lookup.
#[derive(Clone, Copy, Debug)]
pub struct Props {
    pub flag: u16,
    pub mark_set: Option<u16>,
}

pub struct Applier<'f, 'a> {
    pub font: &'f LFont<'a>,
    pub table: Table,
    pub coords: &'f [f64],
    pub ops_left: u64,
    pub problems: Vec<String>,
    /// Which alternate GSUB type 3 picks (0 = first).
    pub alternate_index: usize,
    budget_reported: bool,
}

/// What one element of a rule's sequence asks of a glyph.
pub enum Want<'x, 'a> {
    Glyph(u16),
    Class(&'x ClassDef<'a>, u16),
    Coverage(CoverageTable<'a>),
}

impl Want<'_, '_> {
    fn accepts(&self, gid: u16) -> bool {
        match self {
            Want::Glyph(g) => *g == gid,
            Want::Class(cd, c) => class_of(cd, gid) == *c,
            Want::Coverage(cov) => coverage_index(cov, gid).is_some(),
        }
    }
}

impl<'f, 'a> Applier<'f, 'a> {
    pub fn new(font: &'f LFont<'a>, table: Table, coords: &'f [f64]) -> Self {
        Applier {
            font,
            table,
            coords,
            ops_left: MAX_OPS,
            problems: Vec::new(),
            alternate_index: 0,
            budget_reported: false,
        }
    }

    pub fn note(&mut self, msg: String) {
        if self.problems.len() < 64 && !self.problems.contains(&msg) {
            self.problems.push(msg);
        }
    }

    /// Unwrap a read result, recording the failure.
    pub fn chk<T>(&mut self, r: Result<T, ReadError>, what: &str) -> Option<T> {
        match r {
            Ok(v) => Some(v),
            Err(e) => {
                self.note(format!("{:?} {what}: {e}", self.table));
                None
            }
        }
    }

    /// Charge one unit of work; false once the budget is spent.
    pub fn charge(&mut self) -> bool {
        if self.ops_left == 0 {
            if !self.budget_reported {
                self.budget_reported = true;
                self.note(format!("{:?}: operation budget exhausted", self.table));
            }
            return false;
        }
        self.ops_left -= 1;
        true
    }

    // ------------------------------------------------------------ filtering

    /// Whether the lookup with properties `props` ignores glyph `gid`.
    ///
    /// Spec, "LookupFlag": ignoreBaseGlyphs / ignoreLigatures / ignoreMarks drop glyphs of
    /// GDEF class 1 / 2 / 3. For marks that are not dropped that way: with
    /// useMarkFilteringSet only marks in the referenced set are kept; otherwise a non-zero
    /// markAttachmentType keeps only marks of that GDEF mark attachment class.
    pub fn skipped(&self, gid: u16, props: Props) -> bool {
        let class = self.font.glyph_class(gid);
        if props.flag & IGNORE_BASE_GLYPHS != 0 && class == 1 {
            return true;
        }
        if props.flag & IGNORE_LIGATURES != 0 && class == 2 {
            return true;
        }
        if props.flag & IGNORE_MARKS != 0 && class == 3 {
            return true;
        }
        if class == 3 {
            if props.flag & USE_MARK_FILTERING_SET != 0 {
                let set = props.mark_set.unwrap_or(0);
                return !self.font.in_mark_set(set, gid);
            }
            let attach_type = (props.flag & MARK_ATTACHMENT_TYPE_MASK) >> 8;
            if attach_type != 0 {
                return self.font.mark_attach_class(gid) != attach_type;
            }
        }
        false
    }

    /// Next position after `pos` whose glyph is not ignored.
    pub fn next_unskipped(&self, buf: &Buffer, pos: usize, props: Props) -> Option<usize> {
        let mut j = pos + 1;
        while j < buf.glyphs.len() {
            if !self.skipped(buf.glyphs[j].gid, props) {
                return Some(j);
            }
            j += 1;
        }
        None
    }

    /// Previous position before `pos` whose glyph is not ignored.
    pub fn prev_unskipped(&self, buf: &Buffer, pos: usize, props: Props) -> Option<usize> {
        let mut j = pos;
        while j > 0 {
            j -= 1;
            if !self.skipped(buf.glyphs[j].gid, props) {
                return Some(j);
            }
        }
        None
    }

    /// Match the rest of an input sequence: `rest[k]` against the (k+1)-th unskipped glyph
    /// after `pos`. Returns all matched positions, `pos` first.
    pub fn match_input(
        &self,
        buf: &Buffer,
        pos: usize,
        rest: &[Want],
        props: Props,
    ) -> Option<Vec<usize>> {
        if rest.len() + 1 > MAX_CONTEXT_LEN {
            return None;
        }
        let mut positions = vec![pos];
        let mut at = pos;
        for want in rest {
            at = self.next_unskipped(buf, at, props)?;
            if !want.accepts(buf.glyphs[at].gid) {
                return None;
            }
            positions.push(at);
        }
        Some(positions)
    }

    /// Match a backtrack sequence: `seq[0]` is the unskipped glyph immediately before
    /// `pos`, `seq[1]` the one before that, and so on (the spec stores backtrack sequences
    /// in reverse logical order).
    pub fn match_backtrack(&self, buf: &Buffer, pos: usize, seq: &[Want], props: Props) -> bool {
        let mut at = pos;
        for want in seq {
            match self.prev_unskipped(buf, at, props) {
                Some(j) if want.accepts(buf.glyphs[j].gid) => at = j,
                _ => return false,
            }
        }
        true
    }

    /// Match a lookahead sequence against the unskipped glyphs after `last_input`.
    pub fn match_lookahead(
        &self,
        buf: &Buffer,
        last_input: usize,
        seq: &[Want],
        props: Props,
    ) -> bool {
        let mut at = last_input;
        for want in seq {
            match self.next_unskipped(buf, at, props) {
                Some(j) if want.accepts(buf.glyphs[j].gid) => at = j,
                _ => return false,
            }
        }
        true
    }

    // -------------------------------------------------------- whole lookups

    /// Apply one lookup over the whole buffer. Returns whether it matched anywhere.
    pub fn apply_whole(&mut self, lookup_index: u16, buf: &mut Buffer) -> bool {
        let Some(props) = self.lookup_props(lookup_index) else {
            return false;
        };
        let mut any = false;
        if self.table == Table::Gsub && crate::gsub::is_reverse(self.font, lookup_index) {
            // GSUB type 8: processed from the end of the string to the start
            let mut i = buf.glyphs.len();
            while i > 0 {
                i -= 1;
                if self.skipped(buf.glyphs[i].gid, props) {
                    continue;
                }
                if self.apply_at(lookup_index, buf, i, 0, true).is_some() {
                    any = true;
                }
            }
            return any;
        }
        let mut i = 0;
        while i < buf.glyphs.len() {
            if self.ops_left == 0 {
                self.charge();
                break;
            }
            if self.skipped(buf.glyphs[i].gid, props) {
                i += 1;
                continue;
            }
            let len_before = buf.glyphs.len();
            match self.apply_at(lookup_index, buf, i, 0, true) {
                Some(next) => {
                    any = true;
                    // `next` is past the matched input, or equal to `i` only when the
                    // string got shorter (deletion). Enforce progress regardless.
                    if next > i || buf.glyphs.len() < len_before {
                        i = next.max(i);
                    } else {
                        i += 1;
                    }
                }
                None => i += 1,
            }
        }
        any
    }

    fn lookup_props(&mut self, lookup_index: u16) -> Option<Props> {
        match self.table {
            Table::Gsub => {
                let r = self.font.gsub_lookup(lookup_index);
                let l = self.chk(r, &format!("lookup {lookup_index}"))?;
                Some(Props {
                    flag: l.lookup_flag().to_bits(),
                    mark_set: l.mark_filtering_set(),
                })
            }
            Table::Gpos => {
                let r = self.font.gpos_lookup(lookup_index);
                let l = self.chk(r, &format!("lookup {lookup_index}"))?;
                Some(Props {
                    flag: l.lookup_flag().to_bits(),
                    mark_set: l.mark_filtering_set(),
                })
            }
        }
    }

    /// Try the subtables of `lookup_index` in order at `pos`; the first that matches is
    /// applied. Returns the new cursor position (just past the matched input).
    ///
    /// `top_level` is false for lookups invoked from a contextual lookup.
    pub fn apply_at(
        &mut self,
        lookup_index: u16,
        buf: &mut Buffer,
        pos: usize,
        depth: u32,
        top_level: bool,
    ) -> Option<usize> {
        if pos >= buf.glyphs.len() || !self.charge() {
            return None;
        }
        match self.table {
            Table::Gsub => crate::gsub::apply_at(self, lookup_index, buf, pos, depth, top_level),
            Table::Gpos => crate::gpos::apply_at(self, lookup_index, buf, pos, depth),
        }
    }

    // ------------------------------------------------------------- contexts

    /// SequenceContext (GSUB 5 / GPOS 7) at `pos`.
    pub fn apply_context(
        &mut self,
        this_lookup: u16,
        t: &SequenceContext<'a>,
        buf: &mut Buffer,
        pos: usize,
        props: Props,
        depth: u32,
    ) -> Option<usize> {
        let gid = buf.glyphs[pos].gid;
        match t {
            SequenceContext::Format1(t) => {
                // rule sets are indexed by the coverage index of the first glyph
                let cov = self.chk(t.coverage(), "context1 coverage")?;
                let ci = coverage_index(&cov, gid)?;
                let sets = t.seq_rule_sets();
                if ci as usize >= sets.len() {
                    return None;
                }
                let set = sets.get(ci as usize)?; // NULL offset: no rules for this glyph
                let set = self.chk(set, "context1 rule set")?;
                for rule in set.seq_rules().iter() {
                    let Some(rule) = self.chk(rule, "context1 rule") else {
                        continue;
                    };
                    let rest: Vec<Want> = rule
                        .input_sequence()
                        .iter()
                        .map(|g| Want::Glyph(g.get().to_u16()))
                        .collect();
                    if let Some(positions) = self.match_input(buf, pos, &rest, props) {
                        return Some(self.apply_records(
                            this_lookup,
                            buf,
                            positions,
                            rule.seq_lookup_records(),
                            depth,
                        ));
                    }
                }
                None
            }
            SequenceContext::Format2(t) => {
                // first glyph must be covered; rule sets are indexed by its class
                let cov = self.chk(t.coverage(), "context2 coverage")?;
                coverage_index(&cov, gid)?;
                let cd = self.chk(t.class_def(), "context2 classdef")?;
                let class = class_of(&cd, gid);
                let sets = t.class_seq_rule_sets();
                if class as usize >= sets.len() {
                    return None;
                }
                let set = sets.get(class as usize)?; // NULL offset: no rules for this glyph
                let set = self.chk(set, "context2 rule set")?;
                for rule in set.class_seq_rules().iter() {
                    let Some(rule) = self.chk(rule, "context2 rule") else {
                        continue;
                    };
                    let rest: Vec<Want> = rule
                        .input_sequence()
                        .iter()
                        .map(|c| Want::Class(&cd, c.get()))
                        .collect();
                    if let Some(positions) = self.match_input(buf, pos, &rest, props) {
                        return Some(self.apply_records(
                            this_lookup,
                            buf,
                            positions,
                            rule.seq_lookup_records(),
                            depth,
                        ));
                    }
                }
                None
            }
            SequenceContext::Format3(t) => {
                let mut wants = Vec::new();
                for c in t.coverages().iter() {
                    wants.push(Want::Coverage(self.chk(c, "context3 coverage")?));
                }
                let first = wants.first()?;
                if !first.accepts(gid) {
                    return None;
                }
                let positions = self.match_input(buf, pos, &wants[1..], props)?;
                Some(self.apply_records(this_lookup, buf, positions, t.seq_lookup_records(), depth))
            }
        }
    }

    /// ChainedSequenceContext (GSUB 6 / GPOS 8) at `pos`.
    pub fn apply_chain_context(
        &mut self,
        this_lookup: u16,
        t: &ChainedSequenceContext<'a>,
        buf: &mut Buffer,
        pos: usize,
        props: Props,
        depth: u32,
    ) -> Option<usize> {
        let gid = buf.glyphs[pos].gid;
        match t {
            ChainedSequenceContext::Format1(t) => {
                let cov = self.chk(t.coverage(), "chain1 coverage")?;
                let ci = coverage_index(&cov, gid)?;
                let sets = t.chained_seq_rule_sets();
                if ci as usize >= sets.len() {
                    return None;
                }
                let set = sets.get(ci as usize)?; // NULL offset: no rules for this glyph
                let set = self.chk(set, "chain1 rule set")?;
                for rule in set.chained_seq_rules().iter() {
                    let Some(rule) = self.chk(rule, "chain1 rule") else {
                        continue;
                    };
                    let glyph = |g: &write_fonts::read::types::BigEndian<
                        write_fonts::read::types::GlyphId16,
                    >| Want::Glyph(g.get().to_u16());
                    let back: Vec<Want> = rule.backtrack_sequence().iter().map(glyph).collect();
                    let rest: Vec<Want> = rule.input_sequence().iter().map(glyph).collect();
                    let ahead: Vec<Want> = rule.lookahead_sequence().iter().map(glyph).collect();
                    if let Some(positions) =
                        self.match_chain(buf, pos, &back, &rest, &ahead, props)
                    {
                        return Some(self.apply_records(
                            this_lookup,
                            buf,
                            positions,
                            rule.seq_lookup_records(),
                            depth,
                        ));
                    }
                }
                None
            }
            ChainedSequenceContext::Format2(t) => {
                let cov = self.chk(t.coverage(), "chain2 coverage")?;
                coverage_index(&cov, gid)?;
                let back_cd = self.chk(t.backtrack_class_def(), "chain2 backtrack classdef")?;
                let input_cd = self.chk(t.input_class_def(), "chain2 input classdef")?;
                let ahead_cd = self.chk(t.lookahead_class_def(), "chain2 lookahead classdef")?;
                let class = class_of(&input_cd, gid);
                let sets = t.chained_class_seq_rule_sets();
                if class as usize >= sets.len() {
                    return None;
                }
                let set = sets.get(class as usize)?; // NULL offset: no rules for this glyph
                let set = self.chk(set, "chain2 rule set")?;
                for rule in set.chained_class_seq_rules().iter() {
                    let Some(rule) = self.chk(rule, "chain2 rule") else {
                        continue;
                    };
                    let back: Vec<Want> = rule
                        .backtrack_sequence()
                        .iter()
                        .map(|c| Want::Class(&back_cd, c.get()))
                        .collect();
                    let rest: Vec<Want> = rule
                        .input_sequence()
                        .iter()
                        .map(|c| Want::Class(&input_cd, c.get()))
                        .collect();
                    let ahead: Vec<Want> = rule
                        .lookahead_sequence()
                        .iter()
                        .map(|c| Want::Class(&ahead_cd, c.get()))
                        .collect();
                    if let Some(positions) =
                        self.match_chain(buf, pos, &back, &rest, &ahead, props)
                    {
                        return Some(self.apply_records(
                            this_lookup,
                            buf,
                            positions,
                            rule.seq_lookup_records(),
                            depth,
                        ));
                    }
                }
                None
            }
            ChainedSequenceContext::Format3(t) => {
                let mut back = Vec::new();
                for c in t.backtrack_coverages().iter() {
                    back.push(Want::Coverage(self.chk(c, "chain3 backtrack coverage")?));
                }
                let mut input = Vec::new();
                for c in t.input_coverages().iter() {
                    input.push(Want::Coverage(self.chk(c, "chain3 input coverage")?));
                }
                let mut ahead = Vec::new();
                for c in t.lookahead_coverages().iter() {
                    ahead.push(Want::Coverage(self.chk(c, "chain3 lookahead coverage")?));
                }
                let first = input.first()?;
                if !first.accepts(gid) {
                    return None;
                }
                let positions = self.match_chain(buf, pos, &back, &input[1..], &ahead, props)?;
                Some(self.apply_records(this_lookup, buf, positions, t.seq_lookup_records(), depth))
            }
        }
    }

    /// Input, then backtrack (before the first input glyph), then lookahead (after the last
    /// input glyph), all through the same skip filter.
    fn match_chain(
        &self,
        buf: &Buffer,
        pos: usize,
        back: &[Want],
        rest: &[Want],
        ahead: &[Want],
        props: Props,
    ) -> Option<Vec<usize>> {
        let positions = self.match_input(buf, pos, rest, props)?;
        if !self.match_backtrack(buf, pos, back, props) {
            return None;
        }
        let last = *positions.last().unwrap();
        if !self.match_lookahead(buf, last, ahead, props) {
            return None;
        }
        Some(positions)
    }

    /// Apply the nested lookups of a matched rule, in record order, each once at the glyph
    /// its sequence index designates. Returns the cursor position after the matched input.
    ///
    /// When a nested substitution changes the string length the remaining match positions
    /// are re-based exactly as HarfBuzz's `apply_lookup` does: growth by n is taken as n
    /// new glyphs directly after the current position (which become part of the matched
    /// sequence), shrinkage by n as the loss of the n following match positions.
    fn apply_records(
        &mut self,
        this_lookup: u16,
        buf: &mut Buffer,
        mut positions: Vec<usize>,
        records: &[SequenceLookupRecord],
        depth: u32,
    ) -> usize {
        let mut end: isize = *positions.last().unwrap() as isize + 1;
        for rec in records {
            let idx = rec.sequence_index() as usize;
            let nested = rec.lookup_list_index();
            if idx >= positions.len() {
                continue;
            }
            // a lookup does not recurse into itself at its own position
            if idx == 0 && nested == this_lookup {
                continue;
            }
            let orig_len = buf.glyphs.len();
            if positions[idx] >= orig_len {
                continue;
            }
            if depth + 1 > MAX_NESTING {
                self.note(format!(
                    "{:?} lookup {this_lookup}: nesting deeper than {MAX_NESTING}, nested lookup {nested} not applied",
                    self.table
                ));
                continue;
            }
            if self
                .apply_at(nested, buf, positions[idx], depth + 1, false)
                .is_none()
            {
                continue;
            }
            let mut delta = buf.glyphs.len() as isize - orig_len as isize;
            if delta == 0 {
                continue;
            }
            end += delta;
            if end < positions[idx] as isize {
                // never move the end before the current position
                delta += positions[idx] as isize - end;
                end = positions[idx] as isize;
            }
            let next = idx + 1;
            if delta > 0 {
                let grow = delta as usize;
                if positions.len() + grow > MAX_CONTEXT_LEN {
                    break;
                }
                // later positions move right, the new glyphs join the sequence
                for p in positions[next..].iter_mut() {
                    *p += grow;
                }
                for k in 0..grow {
                    let p = positions[idx + k] + 1;
                    positions.insert(next + k, p);
                }
            } else {
                // at most all following positions can disappear
                let lose = ((-delta) as usize).min(positions.len() - next);
                positions.drain(next..next + lose);
                for p in positions[next..].iter_mut() {
                    *p = (*p as isize - lose as isize).max(0) as usize;
                }
            }
        }
        (end.max(0) as usize).min(buf.glyphs.len())
    }
}
