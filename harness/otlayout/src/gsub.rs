//! GSUB lookup types 1-8.

use write_fonts::read::{
    ReadError,
    tables::gsub::{
        AlternateSubstFormat1, LigatureSubstFormat1, MultipleSubstFormat1,
        ReverseChainSingleSubstFormat1, SingleSubst, SubstitutionLookup, SubstitutionSubtables,
    },
};

use crate::{
    Buffer, LFont, MAX_BUFFER_LEN,
    apply::{Applier, Props, Want},
    cov::coverage_index,
};

impl<'a> LFont<'a> {
    pub(crate) fn gsub_lookup(&self, index: u16) -> Result<SubstitutionLookup<'a>, ReadError> {
        let gsub = self.gsub.as_ref().ok_or(ReadError::NullOffset)?;
        gsub.lookup_list()?.lookups().get(index as usize)
    }
}

/// Lookup type with extension lookups resolved to their inner type (0 if unreadable).
pub fn effective_type(l: &SubstitutionLookup) -> u16 {
    match l.subtables() {
        Ok(SubstitutionSubtables::Single(_)) => 1,
        Ok(SubstitutionSubtables::Multiple(_)) => 2,
        Ok(SubstitutionSubtables::Alternate(_)) => 3,
        Ok(SubstitutionSubtables::Ligature(_)) => 4,
        Ok(SubstitutionSubtables::Contextual(_)) => 5,
        Ok(SubstitutionSubtables::ChainContextual(_)) => 6,
        Ok(SubstitutionSubtables::Reverse(_)) => 8,
        Ok(SubstitutionSubtables::EmptyExtension) => 7,
        Err(_) => 0,
    }
}

pub fn is_reverse(font: &LFont, lookup_index: u16) -> bool {
    font.gsub_lookup(lookup_index)
        .map(|l| effective_type(&l) == 8)
        .unwrap_or(false)
}

/// Try each subtable of GSUB lookup `lookup_index` at `pos`; first match wins.
pub fn apply_at(
    ap: &mut Applier,
    lookup_index: u16,
    buf: &mut Buffer,
    pos: usize,
    depth: u32,
    top_level: bool,
) -> Option<usize> {
    let r = ap.font.gsub_lookup(lookup_index);
    let lookup = ap.chk(r, &format!("lookup {lookup_index}"))?;
    let props = Props {
        flag: lookup.lookup_flag().to_bits(),
        mark_set: lookup.mark_filtering_set(),
    };
    let subtables = ap.chk(lookup.subtables(), &format!("lookup {lookup_index} subtables"))?;
    let what = format!("lookup {lookup_index} subtable");
    match subtables {
        SubstitutionSubtables::Single(sts) => {
            for st in sts.iter() {
                let Some(st) = ap.chk(st, &what) else { continue };
                if let Some(n) = single(ap, &st, buf, pos) {
                    return Some(n);
                }
            }
        }
        SubstitutionSubtables::Multiple(sts) => {
            for st in sts.iter() {
                let Some(st) = ap.chk(st, &what) else { continue };
                if let Some(n) = multiple(ap, &st, buf, pos) {
                    return Some(n);
                }
            }
        }
        SubstitutionSubtables::Alternate(sts) => {
            for st in sts.iter() {
                let Some(st) = ap.chk(st, &what) else { continue };
                if let Some(n) = alternate(ap, &st, buf, pos, ap.alternate_index) {
                    return Some(n);
                }
            }
        }
        SubstitutionSubtables::Ligature(sts) => {
            for st in sts.iter() {
                let Some(st) = ap.chk(st, &what) else { continue };
                if let Some(n) = ligature(ap, &st, buf, pos, props) {
                    return Some(n);
                }
            }
        }
        SubstitutionSubtables::Contextual(sts) => {
            for st in sts.iter() {
                let Some(st) = ap.chk(st, &what) else { continue };
                if let Some(n) = ap.apply_context(lookup_index, &st, buf, pos, props, depth) {
                    return Some(n);
                }
            }
        }
        SubstitutionSubtables::ChainContextual(sts) => {
            for st in sts.iter() {
                let Some(st) = ap.chk(st, &what) else { continue };
                if let Some(n) = ap.apply_chain_context(lookup_index, &st, buf, pos, props, depth)
                {
                    return Some(n);
                }
            }
        }
        SubstitutionSubtables::Reverse(sts) => {
            // reverse chaining lookups cannot be invoked from a contextual lookup
            if !top_level {
                return None;
            }
            for st in sts.iter() {
                let Some(st) = ap.chk(st, &what) else { continue };
                if let Some(n) = reverse(ap, &st, buf, pos, props) {
                    return Some(n);
                }
            }
        }
        SubstitutionSubtables::EmptyExtension => {}
    }
    None
}

/// Type 1. Format 1: output = (input + deltaGlyphID) mod 65536. Format 2: output =
/// substituteGlyphIDs[coverage index].
fn single(ap: &mut Applier, t: &SingleSubst, buf: &mut Buffer, pos: usize) -> Option<usize> {
    let gid = buf.glyphs[pos].gid;
    let new = match t {
        SingleSubst::Format1(t) => {
            let cov = ap.chk(t.coverage(), "single1 coverage")?;
            coverage_index(&cov, gid)?;
            (gid as i32 + t.delta_glyph_id() as i32).rem_euclid(65536) as u16
        }
        SingleSubst::Format2(t) => {
            let cov = ap.chk(t.coverage(), "single2 coverage")?;
            let ci = coverage_index(&cov, gid)?;
            t.substitute_glyph_ids().get(ci as usize)?.get().to_u16()
        }
    };
    buf.glyphs[pos].gid = new;
    Some(pos + 1)
}

/// Type 2: one glyph becomes the sequence at its coverage index. An empty sequence deletes
/// the glyph (the spec forbids it; shapers delete).
fn multiple(
    ap: &mut Applier,
    t: &MultipleSubstFormat1,
    buf: &mut Buffer,
    pos: usize,
) -> Option<usize> {
    let gid = buf.glyphs[pos].gid;
    let cov = ap.chk(t.coverage(), "multiple coverage")?;
    let ci = coverage_index(&cov, gid)?;
    let seq = t.sequences().get(ci as usize);
    let seq = ap.chk(seq, "multiple sequence")?;
    let out: Vec<u16> = seq
        .substitute_glyph_ids()
        .iter()
        .map(|g| g.get().to_u16())
        .collect();
    match out.len() {
        0 => {
            buf.glyphs.remove(pos);
            Some(pos)
        }
        1 => {
            buf.glyphs[pos].gid = out[0];
            Some(pos + 1)
        }
        n => {
            if buf.glyphs.len() + n - 1 > MAX_BUFFER_LEN {
                ap.note(format!("GSUB: buffer would exceed {MAX_BUFFER_LEN} glyphs"));
                return None;
            }
            let source = buf.glyphs[pos].clone();
            let mut new = Vec::with_capacity(n);
            for (k, g) in out.iter().enumerate() {
                let mut item = source.clone();
                item.gid = *g;
                if source.lig_id == 0 {
                    // remember the position inside the sequence (HarfBuzz does the same)
                    item.lig_components = 0;
                    item.lig_comp_index = k.min(255) as u8;
                }
                new.push(item);
            }
            buf.glyphs.splice(pos..pos + 1, new);
            Some(pos + n)
        }
    }
}

/// Type 3: replace by the alternate at `choice` (0 = first) if the set has that many.
fn alternate(
    ap: &mut Applier,
    t: &AlternateSubstFormat1,
    buf: &mut Buffer,
    pos: usize,
    choice: usize,
) -> Option<usize> {
    let gid = buf.glyphs[pos].gid;
    let cov = ap.chk(t.coverage(), "alternate coverage")?;
    let ci = coverage_index(&cov, gid)?;
    let set = t.alternate_sets().get(ci as usize);
    let set = ap.chk(set, "alternate set")?;
    let alt = set.alternate_glyph_ids().get(choice)?.get().to_u16();
    buf.glyphs[pos].gid = alt;
    Some(pos + 1)
}

/// Number of components a glyph stands for when it takes part in a further ligature
/// (HarfBuzz `_hb_glyph_info_get_lig_num_comps`).
fn num_components(font: &LFont, g: &crate::ShapedGlyph) -> u32 {
    let is_ligature_class = !font.has_glyph_classes() || font.glyph_class(g.gid) == 2;
    if g.lig_components > 0 && is_ligature_class {
        g.lig_components as u32
    } else {
        1
    }
}

/// Type 4: the first ligature of the set (in table order) whose components match the
/// unskipped glyphs after `pos` replaces them. Skipped glyphs between components are kept
/// and end up after the ligature glyph.
fn ligature(
    ap: &mut Applier,
    t: &LigatureSubstFormat1,
    buf: &mut Buffer,
    pos: usize,
    props: Props,
) -> Option<usize> {
    let gid = buf.glyphs[pos].gid;
    let cov = ap.chk(t.coverage(), "ligature coverage")?;
    let ci = coverage_index(&cov, gid)?;
    let set = t.ligature_sets().get(ci as usize);
    let set = ap.chk(set, "ligature set")?;
    for lig in set.ligatures().iter() {
        let Some(lig) = ap.chk(lig, "ligature") else {
            continue;
        };
        let rest: Vec<Want> = lig
            .component_glyph_ids()
            .iter()
            .map(|g| Want::Glyph(g.get().to_u16()))
            .collect();
        let Some(positions) = ap.match_input(buf, pos, &rest, props) else {
            continue;
        };
        let lig_gid = lig.ligature_glyph().to_u16();
        return Some(ligate(ap.font, buf, &positions, lig_gid));
    }
    None
}

/// Replace the glyphs at `positions` by `lig_gid`, keeping the skipped glyphs in between.
/// Component bookkeeping follows HarfBuzz `ligate_input`.
fn ligate(font: &LFont, buf: &mut Buffer, positions: &[usize], lig_gid: u16) -> usize {
    let first = positions[0];
    if positions.len() == 1 {
        buf.glyphs[first].gid = lig_gid;
        return first + 1;
    }
    // A base followed only by marks, or marks only, is not treated as a real ligature:
    // the marks after it keep referring to whatever they referred to before.
    let class_of = |p: usize| font.glyph_class(buf.glyphs[p].gid);
    let rest_all_marks = positions[1..].iter().all(|p| class_of(*p) == 3);
    let is_base_ligature = class_of(first) == 1 && rest_all_marks;
    let is_mark_ligature = class_of(first) == 3 && rest_all_marks;
    let is_ligature = !is_base_ligature && !is_mark_ligature;

    let total_components: u32 = positions
        .iter()
        .map(|p| num_components(font, &buf.glyphs[*p]))
        .sum();
    let lig_id = if is_ligature {
        let id = buf.next_lig_id;
        buf.next_lig_id += 1;
        id
    } else {
        0
    };

    let mut last_lig_id = buf.glyphs[first].lig_id;
    let mut last_num_components = num_components(font, &buf.glyphs[first]);
    let mut components_so_far = last_num_components;

    let mut lig_glyph = buf.glyphs[first].clone();
    lig_glyph.gid = lig_gid;
    if is_ligature {
        lig_glyph.lig_id = lig_id;
        lig_glyph.lig_components = total_components.min(255) as u8;
        lig_glyph.lig_comp_index = 0;
    }
    let mut out = vec![lig_glyph];

    let mut idx = first + 1;
    for &component_pos in &positions[1..] {
        while idx < component_pos {
            let mut skipped = buf.glyphs[idx].clone();
            if is_ligature {
                let mut this_comp = skipped.lig_comp_index as u32;
                if skipped.lig_components > 0 {
                    this_comp = 0; // a ligature glyph itself has no component index
                }
                if this_comp == 0 {
                    this_comp = last_num_components;
                }
                let new_comp =
                    components_so_far - last_num_components + this_comp.min(last_num_components);
                skipped.lig_id = lig_id;
                skipped.lig_components = 0;
                skipped.lig_comp_index = new_comp.min(255) as u8;
            }
            out.push(skipped);
            idx += 1;
        }
        last_lig_id = buf.glyphs[idx].lig_id;
        last_num_components = num_components(font, &buf.glyphs[idx]);
        components_so_far += last_num_components;
        idx += 1; // the component itself disappears
    }
    let out_len = out.len();
    buf.glyphs.splice(first..idx, out);
    let cursor = first + out_len;

    if !is_mark_ligature && last_lig_id != 0 {
        // marks that belonged to the last component (itself a ligature) follow it
        for g in buf.glyphs[cursor..].iter_mut() {
            if g.lig_id != last_lig_id {
                break;
            }
            let this_comp = if g.lig_components > 0 { 0 } else { g.lig_comp_index as u32 };
            if this_comp == 0 {
                break;
            }
            let new_comp =
                components_so_far - last_num_components + this_comp.min(last_num_components);
            g.lig_id = lig_id;
            g.lig_components = 0;
            g.lig_comp_index = new_comp.min(255) as u8;
        }
    }
    cursor
}

/// Type 8: single substitution with coverage-based backtrack / lookahead context, applied
/// while walking the string backwards.
fn reverse(
    ap: &mut Applier,
    t: &ReverseChainSingleSubstFormat1,
    buf: &mut Buffer,
    pos: usize,
    props: Props,
) -> Option<usize> {
    let gid = buf.glyphs[pos].gid;
    let cov = ap.chk(t.coverage(), "reverse coverage")?;
    let ci = coverage_index(&cov, gid)?;
    let mut back = Vec::new();
    for c in t.backtrack_coverages().iter() {
        back.push(Want::Coverage(ap.chk(c, "reverse backtrack coverage")?));
    }
    let mut ahead = Vec::new();
    for c in t.lookahead_coverages().iter() {
        ahead.push(Want::Coverage(ap.chk(c, "reverse lookahead coverage")?));
    }
    if !ap.match_backtrack(buf, pos, &back, props) {
        return None;
    }
    if !ap.match_lookahead(buf, pos, &ahead, props) {
        return None;
    }
    let new = t.substitute_glyph_ids().get(ci as usize)?.get().to_u16();
    buf.glyphs[pos].gid = new;
    Some(pos + 1)
}

/// The alternates GSUB type 3 lookup `lookup_index` offers for `gid` (first subtable that
/// covers the glyph), or `None` if the lookup is not of type 3 or does not cover it.
pub fn alternates(font: &LFont, lookup_index: u16, gid: u16) -> Option<Vec<u16>> {
    let lookup = font.gsub_lookup(lookup_index).ok()?;
    let SubstitutionSubtables::Alternate(sts) = lookup.subtables().ok()? else {
        return None;
    };
    for st in sts.iter() {
        let st = st.ok()?;
        let cov = st.coverage().ok()?;
        if let Some(ci) = coverage_index(&cov, gid) {
            let set = st.alternate_sets().get(ci as usize).ok()?;
            return Some(
                set.alternate_glyph_ids()
                    .iter()
                    .map(|g| g.get().to_u16())
                    .collect(),
            );
        }
    }
    None
}
