//! GPOS lookup types 1-9, value records and anchors with variation deltas, and the
//! enumeration of mark attachment anchors.

use write_fonts::read::{
    FontData, ReadError,
    tables::{
        gpos::{
            AnchorTable, CursivePosFormat1, MarkArray, MarkBasePosFormat1, MarkLigPosFormat1,
            MarkMarkPosFormat1, PairPos, PositionLookup, PositionSubtables, SinglePos,
            ValueRecord,
        },
        layout::DeviceOrVariationIndex,
    },
};

use crate::{
    AttachKind, Buffer, LFont, MarkAttachKind, MarkAttachment, ShapedGlyph,
    apply::{Applier, IGNORE_BASE_GLYPHS, IGNORE_LIGATURES, IGNORE_MARKS, Props, RIGHT_TO_LEFT},
    cov::{class_of, coverage_glyphs, coverage_index},
};

impl<'a> LFont<'a> {
    pub(crate) fn gpos_lookup(&self, index: u16) -> Result<PositionLookup<'a>, ReadError> {
        let gpos = self.gpos.as_ref().ok_or(ReadError::NullOffset)?;
        gpos.lookup_list()?.lookups().get(index as usize)
    }
}

/// Lookup type with extension lookups resolved to their inner type (0 if unreadable).
pub fn effective_type(l: &PositionLookup) -> u16 {
    match l.subtables() {
        Ok(PositionSubtables::Single(_)) => 1,
        Ok(PositionSubtables::Pair(_)) => 2,
        Ok(PositionSubtables::Cursive(_)) => 3,
        Ok(PositionSubtables::MarkToBase(_)) => 4,
        Ok(PositionSubtables::MarkToLig(_)) => 5,
        Ok(PositionSubtables::MarkToMark(_)) => 6,
        Ok(PositionSubtables::Contextual(_)) => 7,
        Ok(PositionSubtables::ChainContextual(_)) => 8,
        Ok(PositionSubtables::EmptyExtension) => 9,
        Err(_) => 0,
    }
}

// ------------------------------------------------------------------ values

/// Delta contributed by a Device / VariationIndex table. Hinting Device tables contribute
/// nothing; VariationIndex tables are evaluated against GDEF's ItemVariationStore.
fn device_delta(
    font: &LFont,
    coords: &[f64],
    dev: Option<Result<DeviceOrVariationIndex, ReadError>>,
) -> Result<f64, String> {
    match dev {
        None => Ok(0.0),
        Some(Err(e)) => Err(format!("device table: {e}")),
        Some(Ok(DeviceOrVariationIndex::Device(_))) => Ok(0.0),
        Some(Ok(DeviceOrVariationIndex::VariationIndex(v))) => font.var_delta(
            v.delta_set_outer_index(),
            v.delta_set_inner_index(),
            coords,
        ),
    }
}

/// A value record evaluated at a location: (xPlacement, yPlacement, xAdvance, yAdvance).
/// `data` is the table the record's device offsets are relative to (the subtable for
/// SinglePos and PairPos format 2, the PairSet for PairPos format 1).
fn eval_value(ap: &mut Applier, rec: &ValueRecord, data: FontData) -> [f64; 4] {
    let mut out = [
        rec.x_placement().unwrap_or(0) as f64,
        rec.y_placement().unwrap_or(0) as f64,
        rec.x_advance().unwrap_or(0) as f64,
        rec.y_advance().unwrap_or(0) as f64,
    ];
    let devices = [
        rec.x_placement_device(data),
        rec.y_placement_device(data),
        rec.x_advance_device(data),
        rec.y_advance_device(data),
    ];
    for (slot, dev) in out.iter_mut().zip(devices) {
        match device_delta(ap.font, ap.coords, dev) {
            Ok(d) => *slot += d,
            Err(e) => ap.note(format!("GPOS value record: {e}")),
        }
    }
    out
}

fn add_value(g: &mut ShapedGlyph, v: [f64; 4]) {
    g.x_offset += v[0];
    g.y_offset += v[1];
    g.x_advance_adj += v[2];
    g.y_advance_adj += v[3];
}

/// Anchor coordinates at `coords`. Format 2's contour point is ignored (no hinting).
pub fn eval_anchor(font: &LFont, coords: &[f64], a: &AnchorTable) -> Result<(f64, f64), String> {
    let mut x = a.x_coordinate() as f64;
    let mut y = a.y_coordinate() as f64;
    if let AnchorTable::Format3(a3) = a {
        x += device_delta(font, coords, a3.x_device())?;
        y += device_delta(font, coords, a3.y_device())?;
    }
    Ok((x, y))
}

fn anchor(ap: &mut Applier, a: &AnchorTable) -> Option<(f64, f64)> {
    match eval_anchor(ap.font, ap.coords, a) {
        Ok(p) => Some(p),
        Err(e) => {
            ap.note(format!("GPOS anchor: {e}"));
            None
        }
    }
}

// ---------------------------------------------------------------- dispatch

/// Try each subtable of GPOS lookup `lookup_index` at `pos`; first match wins.
pub fn apply_at(
    ap: &mut Applier,
    lookup_index: u16,
    buf: &mut Buffer,
    pos: usize,
    depth: u32,
) -> Option<usize> {
    let r = ap.font.gpos_lookup(lookup_index);
    let lookup = ap.chk(r, &format!("lookup {lookup_index}"))?;
    let props = Props {
        flag: lookup.lookup_flag().to_bits(),
        mark_set: lookup.mark_filtering_set(),
    };
    let subtables = ap.chk(lookup.subtables(), &format!("lookup {lookup_index} subtables"))?;
    let what = format!("lookup {lookup_index} subtable");
    match subtables {
        PositionSubtables::Single(sts) => {
            for st in sts.iter() {
                let Some(st) = ap.chk(st, &what) else { continue };
                if let Some(n) = single(ap, &st, buf, pos) {
                    return Some(n);
                }
            }
        }
        PositionSubtables::Pair(sts) => {
            for st in sts.iter() {
                let Some(st) = ap.chk(st, &what) else { continue };
                if let Some(n) = pair(ap, &st, buf, pos, props) {
                    return Some(n);
                }
            }
        }
        PositionSubtables::Cursive(sts) => {
            for st in sts.iter() {
                let Some(st) = ap.chk(st, &what) else { continue };
                if let Some(n) = cursive(ap, &st, buf, pos, props) {
                    return Some(n);
                }
            }
        }
        PositionSubtables::MarkToBase(sts) => {
            for st in sts.iter() {
                let Some(st) = ap.chk(st, &what) else { continue };
                if let Some(n) = mark_to_base(ap, &st, buf, pos) {
                    return Some(n);
                }
            }
        }
        PositionSubtables::MarkToLig(sts) => {
            for st in sts.iter() {
                let Some(st) = ap.chk(st, &what) else { continue };
                if let Some(n) = mark_to_ligature(ap, &st, buf, pos) {
                    return Some(n);
                }
            }
        }
        PositionSubtables::MarkToMark(sts) => {
            for st in sts.iter() {
                let Some(st) = ap.chk(st, &what) else { continue };
                if let Some(n) = mark_to_mark(ap, &st, buf, pos, props) {
                    return Some(n);
                }
            }
        }
        PositionSubtables::Contextual(sts) => {
            for st in sts.iter() {
                let Some(st) = ap.chk(st, &what) else { continue };
                if let Some(n) = ap.apply_context(lookup_index, &st, buf, pos, props, depth) {
                    return Some(n);
                }
            }
        }
        PositionSubtables::ChainContextual(sts) => {
            for st in sts.iter() {
                let Some(st) = ap.chk(st, &what) else { continue };
                if let Some(n) = ap.apply_chain_context(lookup_index, &st, buf, pos, props, depth)
                {
                    return Some(n);
                }
            }
        }
        PositionSubtables::EmptyExtension => {}
    }
    None
}

// ------------------------------------------------------------- type 1, 2, 3

/// Type 1. Format 1: one value for every covered glyph. Format 2: value per coverage index.
fn single(ap: &mut Applier, t: &SinglePos, buf: &mut Buffer, pos: usize) -> Option<usize> {
    let gid = buf.glyphs[pos].gid;
    let value = match t {
        SinglePos::Format1(t) => {
            let cov = ap.chk(t.coverage(), "singlepos1 coverage")?;
            coverage_index(&cov, gid)?;
            eval_value(ap, &t.value_record(), t.offset_data())
        }
        SinglePos::Format2(t) => {
            let cov = ap.chk(t.coverage(), "singlepos2 coverage")?;
            let ci = coverage_index(&cov, gid)?;
            let rec = t.value_records().get(ci as usize);
            let rec = ap.chk(rec, "singlepos2 value")?;
            eval_value(ap, &rec, t.offset_data())
        }
    };
    add_value(&mut buf.glyphs[pos], value);
    Some(pos + 1)
}

/// Type 2. The second glyph is the next unskipped glyph.
///
/// Format 1 applies only if the first glyph's PairSet lists the second glyph. Format 2
/// applies whenever the first glyph is covered and a second glyph exists (class values may
/// well be all zero) — this is what makes a class subtable shadow later subtables.
///
/// Afterwards the cursor moves to the second glyph if valueFormat2 is 0 (it may start a
/// pair of its own), otherwise past it.
fn pair(ap: &mut Applier, t: &PairPos, buf: &mut Buffer, pos: usize, props: Props) -> Option<usize> {
    let g1 = buf.glyphs[pos].gid;
    match t {
        PairPos::Format1(t) => {
            let cov = ap.chk(t.coverage(), "pairpos1 coverage")?;
            let ci = coverage_index(&cov, g1)?;
            let second = ap.next_unskipped(buf, pos, props)?;
            let g2 = buf.glyphs[second].gid;
            let set = t.pair_sets().get(ci as usize);
            let set = ap.chk(set, "pairpos1 pair set")?;
            for rec in set.pair_value_records().iter() {
                let Some(rec) = ap.chk(rec, "pairpos1 pair value record") else {
                    continue;
                };
                if rec.second_glyph().to_u16() != g2 {
                    continue;
                }
                let v1 = eval_value(ap, rec.value_record1(), set.offset_data());
                let v2 = eval_value(ap, rec.value_record2(), set.offset_data());
                add_value(&mut buf.glyphs[pos], v1);
                add_value(&mut buf.glyphs[second], v2);
                let second_has_format = t.value_format2().bits() != 0;
                return Some(if second_has_format { second + 1 } else { second });
            }
            None
        }
        PairPos::Format2(t) => {
            let cov = ap.chk(t.coverage(), "pairpos2 coverage")?;
            coverage_index(&cov, g1)?;
            let second = ap.next_unskipped(buf, pos, props)?;
            let g2 = buf.glyphs[second].gid;
            let cd1 = ap.chk(t.class_def1(), "pairpos2 classdef1")?;
            let cd2 = ap.chk(t.class_def2(), "pairpos2 classdef2")?;
            let c1 = class_of(&cd1, g1);
            let c2 = class_of(&cd2, g2);
            if c1 >= t.class1_count() || c2 >= t.class2_count() {
                return None;
            }
            let row = t.class1_records().get(c1 as usize);
            let row = ap.chk(row, "pairpos2 class1 record")?;
            let rec = row.class2_records().get(c2 as usize);
            let rec = ap.chk(rec, "pairpos2 class2 record")?;
            let v1 = eval_value(ap, rec.value_record1(), t.offset_data());
            let v2 = eval_value(ap, rec.value_record2(), t.offset_data());
            add_value(&mut buf.glyphs[pos], v1);
            add_value(&mut buf.glyphs[second], v2);
            let second_has_format = t.value_format2().bits() != 0;
            Some(if second_has_format { second + 1 } else { second })
        }
    }
}

/// Type 3, horizontal left-to-right reading of HarfBuzz's implementation: the current glyph
/// needs an entry anchor, the previous unskipped glyph an exit anchor. The previous glyph's
/// advance becomes `exit.x + its x offset`; the current glyph's advance and x offset are
/// reduced by `entry.x + its x offset`. Vertically the child (the current glyph, or the
/// previous one when the RIGHT_TO_LEFT flag is set) is shifted so the anchors meet and is
/// recorded as cursively attached to the other.
///
/// Simplifications: advances come from hmtx at the default location (no HVAR); HarfBuzz's
/// re-linking of an already attached child is not reproduced.
fn cursive(
    ap: &mut Applier,
    t: &CursivePosFormat1,
    buf: &mut Buffer,
    pos: usize,
    props: Props,
) -> Option<usize> {
    let cov = ap.chk(t.coverage(), "cursive coverage")?;
    let records = t.entry_exit_record();
    let cur_ci = coverage_index(&cov, buf.glyphs[pos].gid)?;
    let cur_rec = records.get(cur_ci as usize)?;
    let entry = cur_rec.entry_anchor(t.offset_data())?;
    let entry = ap.chk(entry, "cursive entry anchor")?;

    let prev = ap.prev_unskipped(buf, pos, props)?;
    let prev_ci = coverage_index(&cov, buf.glyphs[prev].gid)?;
    let prev_rec = records.get(prev_ci as usize)?;
    let exit = prev_rec.exit_anchor(t.offset_data())?;
    let exit = ap.chk(exit, "cursive exit anchor")?;

    let (entry_x, entry_y) = anchor(ap, &entry)?;
    let (exit_x, exit_y) = anchor(ap, &exit)?;

    // main direction
    let prev_advance = ap.font.hmtx_advance(buf.glyphs[prev].gid) + buf.glyphs[prev].x_advance_adj;
    let new_prev_advance = exit_x + buf.glyphs[prev].x_offset;
    buf.glyphs[prev].x_advance_adj += new_prev_advance - prev_advance;
    let d = entry_x + buf.glyphs[pos].x_offset;
    buf.glyphs[pos].x_advance_adj -= d;
    buf.glyphs[pos].x_offset -= d;

    // cross direction
    let (child, parent, y_offset) = if props.flag & RIGHT_TO_LEFT == 0 {
        (pos, prev, exit_y - entry_y)
    } else {
        (prev, pos, entry_y - exit_y)
    };
    buf.glyphs[child].y_offset = y_offset;
    buf.glyphs[child].attached_to = Some(parent);
    buf.glyphs[child].attach_kind = Some(AttachKind::Cursive);
    // an attachment must not point back at its own child
    if buf.glyphs[parent].attached_to == Some(child) {
        buf.glyphs[parent].attached_to = None;
        buf.glyphs[parent].attach_kind = None;
    }
    Some(pos + 1)
}

// ------------------------------------------------------------- type 4, 5, 6

/// Common tail of the three mark attachment types: the mark's class and anchor from the
/// MarkArray, the base-side anchor for that class from `base_anchor_for_class`, then place
/// the mark so both anchors coincide (offset relative to the attached-to glyph's origin).
#[allow(clippy::too_many_arguments)]
fn attach_mark<'x>(
    ap: &mut Applier,
    marks: &MarkArray,
    mark_index: u16,
    class_count: u16,
    base_anchor_for_class: impl FnOnce(u16) -> Option<Result<AnchorTable<'x>, ReadError>>,
    buf: &mut Buffer,
    mark_pos: usize,
    base_pos: usize,
) -> Option<usize> {
    let rec = marks.mark_records().get(mark_index as usize)?;
    let class = rec.mark_class();
    if class >= class_count {
        return None;
    }
    let mark_anchor = ap.chk(rec.mark_anchor(marks.offset_data()), "mark anchor")?;
    // a NULL base anchor for this class means this subtable does not apply
    let base_anchor = base_anchor_for_class(class)?;
    let base_anchor = ap.chk(base_anchor, "base anchor")?;
    let (mx, my) = anchor(ap, &mark_anchor)?;
    let (bx, by) = anchor(ap, &base_anchor)?;
    let g = &mut buf.glyphs[mark_pos];
    g.x_offset = bx - mx;
    g.y_offset = by - my;
    g.attached_to = Some(base_pos);
    g.attach_kind = Some(AttachKind::Mark);
    Some(mark_pos + 1)
}

/// The nearest preceding glyph that is not a mark (GDEF class 3), regardless of the
/// lookup's own flags — the glyph a mark-to-base / mark-to-ligature lookup attaches to.
fn preceding_non_mark(ap: &Applier, buf: &Buffer, pos: usize) -> Option<usize> {
    let only_ignore_marks = Props {
        flag: IGNORE_MARKS,
        mark_set: None,
    };
    ap.prev_unskipped(buf, pos, only_ignore_marks)
}

/// Type 4.
fn mark_to_base(
    ap: &mut Applier,
    t: &MarkBasePosFormat1,
    buf: &mut Buffer,
    pos: usize,
) -> Option<usize> {
    let mark_cov = ap.chk(t.mark_coverage(), "markbase mark coverage")?;
    let mark_index = coverage_index(&mark_cov, buf.glyphs[pos].gid)?;
    let base_pos = preceding_non_mark(ap, buf, pos)?;
    let base_cov = ap.chk(t.base_coverage(), "markbase base coverage")?;
    let base_index = coverage_index(&base_cov, buf.glyphs[base_pos].gid)?;
    let marks = ap.chk(t.mark_array(), "markbase mark array")?;
    let bases = ap.chk(t.base_array(), "markbase base array")?;
    let base_rec = bases.base_records().get(base_index as usize);
    let base_rec = ap.chk(base_rec, "markbase base record")?;
    let anchors = base_rec.base_anchors(bases.offset_data());
    attach_mark(
        ap,
        &marks,
        mark_index,
        t.mark_class_count(),
        |class| {
            if (class as usize) < anchors.len() {
                anchors.get(class as usize)
            } else {
                None
            }
        },
        buf,
        pos,
        base_pos,
    )
}

/// Type 5. The component is the one recorded on the mark when the mark belongs to this very
/// ligature (same ligature id, see GSUB type 4), otherwise the last component.
fn mark_to_ligature(
    ap: &mut Applier,
    t: &MarkLigPosFormat1,
    buf: &mut Buffer,
    pos: usize,
) -> Option<usize> {
    let mark_cov = ap.chk(t.mark_coverage(), "marklig mark coverage")?;
    let mark_index = coverage_index(&mark_cov, buf.glyphs[pos].gid)?;
    let lig_pos = preceding_non_mark(ap, buf, pos)?;
    let lig_cov = ap.chk(t.ligature_coverage(), "marklig ligature coverage")?;
    let lig_index = coverage_index(&lig_cov, buf.glyphs[lig_pos].gid)?;
    let marks = ap.chk(t.mark_array(), "marklig mark array")?;
    let ligs = ap.chk(t.ligature_array(), "marklig ligature array")?;
    let attach = ligs.ligature_attaches().get(lig_index as usize);
    let attach = ap.chk(attach, "marklig ligature attach")?;
    let comp_count = attach.component_count() as usize;
    if comp_count == 0 {
        return None;
    }
    let lig = &buf.glyphs[lig_pos];
    let mark = &buf.glyphs[pos];
    let mark_comp = if mark.lig_components > 0 { 0 } else { mark.lig_comp_index as usize };
    let comp_index = if lig.lig_id != 0 && lig.lig_id == mark.lig_id && mark_comp > 0 {
        mark_comp.min(comp_count) - 1
    } else {
        comp_count - 1
    };
    let comp_rec = attach.component_records().get(comp_index);
    let comp_rec = ap.chk(comp_rec, "marklig component record")?;
    let anchors = comp_rec.ligature_anchors(attach.offset_data());
    attach_mark(
        ap,
        &marks,
        mark_index,
        t.mark_class_count(),
        |class| {
            if (class as usize) < anchors.len() {
                anchors.get(class as usize)
            } else {
                None
            }
        },
        buf,
        pos,
        lig_pos,
    )
}

/// Type 6. Mark2 is the previous glyph that the lookup does not filter out *as a mark*
/// (the ignore-base/ligature/marks bits are not used for this search, mark attachment type
/// and mark filtering set are); it must be a mark, and both marks must belong to the same
/// base or the same ligature component.
fn mark_to_mark(
    ap: &mut Applier,
    t: &MarkMarkPosFormat1,
    buf: &mut Buffer,
    pos: usize,
    props: Props,
) -> Option<usize> {
    let mark1_cov = ap.chk(t.mark1_coverage(), "markmark mark1 coverage")?;
    let mark1_index = coverage_index(&mark1_cov, buf.glyphs[pos].gid)?;
    let search_props = Props {
        flag: props.flag & !(IGNORE_BASE_GLYPHS | IGNORE_LIGATURES | IGNORE_MARKS),
        mark_set: props.mark_set,
    };
    let prev = ap.prev_unskipped(buf, pos, search_props)?;
    if ap.font.glyph_class(buf.glyphs[prev].gid) != 3 {
        return None;
    }
    let m1 = &buf.glyphs[pos];
    let m2 = &buf.glyphs[prev];
    let comp = |g: &ShapedGlyph| if g.lig_components > 0 { 0 } else { g.lig_comp_index };
    let same_anchor_target = if m1.lig_id == m2.lig_id {
        m1.lig_id == 0 || comp(m1) == comp(m2)
    } else {
        // one of the marks may itself be a ligature of marks
        (m1.lig_id > 0 && comp(m1) == 0) || (m2.lig_id > 0 && comp(m2) == 0)
    };
    if !same_anchor_target {
        return None;
    }
    let mark2_cov = ap.chk(t.mark2_coverage(), "markmark mark2 coverage")?;
    let mark2_index = coverage_index(&mark2_cov, buf.glyphs[prev].gid)?;
    let marks = ap.chk(t.mark1_array(), "markmark mark1 array")?;
    let mark2s = ap.chk(t.mark2_array(), "markmark mark2 array")?;
    let rec = mark2s.mark2_records().get(mark2_index as usize);
    let rec = ap.chk(rec, "markmark mark2 record")?;
    let anchors = rec.mark2_anchors(mark2s.offset_data());
    attach_mark(
        ap,
        &marks,
        mark1_index,
        t.mark_class_count(),
        |class| {
            if (class as usize) < anchors.len() {
                anchors.get(class as usize)
            } else {
                None
            }
        },
        buf,
        pos,
        prev,
    )
}

// ------------------------------------------------------------- enumeration

/// See [`LFont::mark_attachments`].
pub fn enumerate_mark_attachments(
    font: &LFont,
    coords: &[f64],
) -> (Vec<MarkAttachment>, Vec<String>) {
    let mut out = Vec::new();
    let mut problems = Vec::new();
    let count = font.lookup_count(crate::Table::Gpos);
    for lookup_index in 0..count {
        let lookup = match font.gpos_lookup(lookup_index) {
            Ok(l) => l,
            Err(e) => {
                problems.push(format!("GPOS lookup {lookup_index}: {e}"));
                continue;
            }
        };
        let subtables = match lookup.subtables() {
            Ok(s) => s,
            Err(e) => {
                problems.push(format!("GPOS lookup {lookup_index} subtables: {e}"));
                continue;
            }
        };
        let mut sink = Sink {
            font,
            coords,
            lookup_index,
            subtable_index: 0,
            out: &mut out,
            problems: &mut problems,
        };
        match subtables {
            PositionSubtables::MarkToBase(sts) => {
                for (i, st) in sts.iter().enumerate() {
                    sink.subtable_index = i;
                    if let Err(e) = st.map_err(|e| e.to_string()).and_then(|st| sink.mark_base(&st))
                    {
                        sink.problem(e);
                    }
                }
            }
            PositionSubtables::MarkToLig(sts) => {
                for (i, st) in sts.iter().enumerate() {
                    sink.subtable_index = i;
                    if let Err(e) = st.map_err(|e| e.to_string()).and_then(|st| sink.mark_lig(&st))
                    {
                        sink.problem(e);
                    }
                }
            }
            PositionSubtables::MarkToMark(sts) => {
                for (i, st) in sts.iter().enumerate() {
                    sink.subtable_index = i;
                    if let Err(e) = st.map_err(|e| e.to_string()).and_then(|st| sink.mark_mark(&st))
                    {
                        sink.problem(e);
                    }
                }
            }
            _ => {}
        }
    }
    (out, problems)
}

struct Sink<'x, 'f, 'a> {
    font: &'f LFont<'a>,
    coords: &'x [f64],
    lookup_index: u16,
    subtable_index: usize,
    out: &'x mut Vec<MarkAttachment>,
    problems: &'x mut Vec<String>,
}

/// (mark gid, class, anchor) of every mark of a MarkArray, in mark coverage order.
type MarkList = Vec<(u16, u16, (f64, f64))>;

impl Sink<'_, '_, '_> {
    fn problem(&mut self, e: String) {
        self.problems.push(format!(
            "GPOS lookup {} subtable {}: {e}",
            self.lookup_index, self.subtable_index
        ));
    }

    fn marks(&self, cov_glyphs: &[u16], marks: &MarkArray) -> Result<MarkList, String> {
        let mut list = Vec::new();
        for (i, gid) in cov_glyphs.iter().enumerate() {
            let rec = marks
                .mark_records()
                .get(i)
                .ok_or_else(|| format!("mark coverage index {i} has no MarkRecord"))?;
            let a = rec
                .mark_anchor(marks.offset_data())
                .map_err(|e| format!("mark anchor: {e}"))?;
            list.push((*gid, rec.mark_class(), eval_anchor(self.font, self.coords, &a)?));
        }
        Ok(list)
    }

    /// Emit one entry per mark whose class has an anchor in `anchors`.
    fn emit<'d>(
        &mut self,
        kind: MarkAttachKind,
        base_gid: u16,
        component: u16,
        anchors: &write_fonts::read::ArrayOfNullableOffsets<'d, AnchorTable<'d>>,
        marks: &MarkList,
    ) -> Result<(), String> {
        for (mark_gid, class, mark_anchor) in marks {
            if *class as usize >= anchors.len() {
                continue; // class out of range
            }
            let base_anchor = match anchors.get(*class as usize) {
                Some(Ok(a)) => eval_anchor(self.font, self.coords, &a)?,
                Some(Err(e)) => return Err(format!("base anchor: {e}")),
                None => continue, // NULL anchor: no attachment for this class
            };
            self.out.push(MarkAttachment {
                lookup_index: self.lookup_index,
                subtable_index: self.subtable_index,
                kind,
                base_gid,
                component,
                mark_class: *class,
                base_anchor,
                mark_gid: *mark_gid,
                mark_anchor: *mark_anchor,
            });
        }
        Ok(())
    }

    fn mark_base(&mut self, t: &MarkBasePosFormat1) -> Result<(), String> {
        let e = |e: ReadError| e.to_string();
        let mark_glyphs = coverage_glyphs(&t.mark_coverage().map_err(e)?);
        let base_glyphs = coverage_glyphs(&t.base_coverage().map_err(e)?);
        let marks = self.marks(&mark_glyphs, &t.mark_array().map_err(e)?)?;
        let bases = t.base_array().map_err(e)?;
        for (i, base_gid) in base_glyphs.iter().enumerate() {
            let rec = bases.base_records().get(i).map_err(e)?;
            let anchors = rec.base_anchors(bases.offset_data());
            self.emit(MarkAttachKind::Base, *base_gid, 0, &anchors, &marks)?;
        }
        Ok(())
    }

    fn mark_lig(&mut self, t: &MarkLigPosFormat1) -> Result<(), String> {
        let e = |e: ReadError| e.to_string();
        let mark_glyphs = coverage_glyphs(&t.mark_coverage().map_err(e)?);
        let lig_glyphs = coverage_glyphs(&t.ligature_coverage().map_err(e)?);
        let marks = self.marks(&mark_glyphs, &t.mark_array().map_err(e)?)?;
        let ligs = t.ligature_array().map_err(e)?;
        for (i, lig_gid) in lig_glyphs.iter().enumerate() {
            let attach = ligs.ligature_attaches().get(i).map_err(e)?;
            for (c, comp) in attach.component_records().iter().enumerate() {
                let comp = comp.map_err(e)?;
                let anchors = comp.ligature_anchors(attach.offset_data());
                self.emit(MarkAttachKind::Ligature, *lig_gid, c as u16, &anchors, &marks)?;
            }
        }
        Ok(())
    }

    fn mark_mark(&mut self, t: &MarkMarkPosFormat1) -> Result<(), String> {
        let e = |e: ReadError| e.to_string();
        let mark1_glyphs = coverage_glyphs(&t.mark1_coverage().map_err(e)?);
        let mark2_glyphs = coverage_glyphs(&t.mark2_coverage().map_err(e)?);
        let marks = self.marks(&mark1_glyphs, &t.mark1_array().map_err(e)?)?;
        let mark2s = t.mark2_array().map_err(e)?;
        for (i, mark2_gid) in mark2_glyphs.iter().enumerate() {
            let rec = mark2s.mark2_records().get(i).map_err(e)?;
            let anchors = rec.mark2_anchors(mark2s.offset_data());
            self.emit(MarkAttachKind::Mark, *mark2_gid, 0, &anchors, &marks)?;
        }
        Ok(())
    }
}
