//! Coverage and ClassDef evaluation, written directly from the OpenType spec
//! ("Coverage Table", "Class Definition Table" in the common table formats chapter).
//!
//! read-fonts is only used to get at the raw arrays; the lookups themselves are
//! plain linear scans so that they do not share code (binary searches, range
//! arithmetic) with the implementation under test.

use write_fonts::read::tables::layout::{ClassDef, CoverageTable};

/// Coverage index of `gid`, or `None` if the glyph is not covered.
///
/// Format 1: the coverage index is the position in the glyph array.
/// Format 2: `startCoverageIndex + (gid - startGlyphID)` of the first range that
/// contains the glyph.
pub fn coverage_index(cov: &CoverageTable, gid: u16) -> Option<u16> {
    match cov {
        CoverageTable::Format1(t) => t
            .glyph_array()
            .iter()
            .position(|g| g.get().to_u16() == gid)
            .map(|i| i as u16),
        CoverageTable::Format2(t) => {
            for r in t.range_records() {
                let start = r.start_glyph_id().to_u16();
                let end = r.end_glyph_id().to_u16();
                if start <= gid && gid <= end {
                    return Some(r.start_coverage_index().wrapping_add(gid - start));
                }
            }
            None
        }
    }
}

/// All covered glyphs in coverage-index order.
pub fn coverage_glyphs(cov: &CoverageTable) -> Vec<u16> {
    match cov {
        CoverageTable::Format1(t) => t.glyph_array().iter().map(|g| g.get().to_u16()).collect(),
        CoverageTable::Format2(t) => {
            // ranges are required to be sorted by startCoverageIndex; place every glyph at the
            // index the range assigns to it
            let mut pairs: Vec<(u16, u16)> = Vec::new();
            for r in t.range_records() {
                let start = r.start_glyph_id().to_u16();
                let end = r.end_glyph_id().to_u16();
                if start > end {
                    continue;
                }
                for g in start..=end {
                    pairs.push((r.start_coverage_index().wrapping_add(g - start), g));
                }
            }
            pairs.sort();
            pairs.into_iter().map(|(_, g)| g).collect()
        }
    }
}

/// Class of `gid`. Glyphs not mentioned by the table are class 0.
pub fn class_of(cd: &ClassDef, gid: u16) -> u16 {
    match cd {
        ClassDef::Format1(t) => {
            let start = t.start_glyph_id().to_u16();
            if gid < start {
                return 0;
            }
            let i = (gid - start) as usize;
            t.class_value_array().get(i).map(|c| c.get()).unwrap_or(0)
        }
        ClassDef::Format2(t) => {
            for r in t.class_range_records() {
                let start = r.start_glyph_id().to_u16();
                let end = r.end_glyph_id().to_u16();
                if start <= gid && gid <= end {
                    return r.class();
                }
            }
            0
        }
    }
}
