//! `otlayout` — an independent OpenType Layout application engine (a mini shaper).
//!
//! Part of the trusted base of the fontc verification framework: it takes the bytes of a
//! compiled font and *applies* GSUB / GPOS / GDEF to glyph-id strings the way the OpenType
//! specification prescribes, so that checks can judge the compiler's output by behaviour.
//!
//! Table *parsing* is delegated to read-fonts typed tables (`write_fonts::read`). Everything
//! that is evaluation is written here from the spec: coverage / class lookup ([`cov`]),
//! ItemVariationStore interpolation ([`ivs`]), script / language / feature selection,
//! FeatureVariations condition evaluation, lookup-flag filtering through GDEF, and the
//! application of every GSUB (1-8) and GPOS (1-9) lookup type.
//!
//! Where the spec leaves behaviour open the engine follows HarfBuzz's reading, because that
//! is what the produced fonts are shaped with in practice:
//!
//! * lookups of all selected features are applied in ascending lookup-index order, each one
//!   over the whole glyph string, left to right (GSUB type 8: right to left);
//! * at each position the first subtable that matches wins and the cursor moves past the
//!   matched *input* sequence (pair positioning: to the second glyph if valueFormat2 is 0,
//!   otherwise past it);
//! * a lookup is tried at a position only if the glyph there is not ignored by the lookup's
//!   flags; "next"/"previous" glyph searches skip ignored glyphs;
//! * contextual lookups apply their nested lookups once, at the recorded sequence index,
//!   with the nested lookup's own flags, and the match positions are re-based when a nested
//!   substitution changes the string length (HarfBuzz `apply_lookup`);
//! * ligature substitution keeps skipped marks after the ligature glyph and tags them with
//!   the component they followed; mark-to-ligature uses that component.
//!
//! Deliberate deviations from HarfBuzz (all outside what the spec fixes):
//!
//! * no Unicode knowledge: glyph classes come from GDEF only (class 0 without GDEF), there
//!   are no default-ignorables, no script-specific shapers, no feature "pauses" — lookups
//!   of *all* selected features are merged into one ascending list;
//! * HarfBuzz refuses to ligate / context-match across marks that belong to different
//!   components of an earlier ligature; this engine matches purely by the skip filter;
//! * a mark after the output of a multiple substitution attaches to the nearest preceding
//!   non-mark glyph (HarfBuzz walks back to the first glyph of the sequence);
//! * cursive attachment (GPOS 3) uses default-location hmtx advances and does not re-link
//!   previously attached chains;
//! * mark offsets are reported relative to the glyph attached to (anchors coincide), not
//!   converted into pen-relative offsets; hinting Device tables and anchor contour points
//!   are ignored; values are never rounded.
//!
//! The engine always terminates: nested lookups are depth-limited ([`MAX_NESTING`]), every
//! subtable application is charged against an operation budget ([`MAX_OPS`]) and the glyph
//! string cannot grow beyond [`MAX_BUFFER_LEN`]. Hitting a limit, or a table that fails to
//! parse, is reported in `problems` of the result, never silently ignored.

pub mod cov;
pub mod ivs;

mod apply;
mod gpos;
mod gsub;

use serde::{Deserialize, Serialize};
use write_fonts::read::{
    FontRef, TableProvider,
    tables::{
        gdef::{Gdef, MarkGlyphSets},
        gpos::Gpos,
        gsub::Gsub,
        layout::{
            ClassDef, Condition, ConditionSet, FeatureList, FeatureVariations, LangSys,
            ScriptList,
        },
        variations::ItemVariationStore,
    },
    types::Tag,
};

/// Maximum depth of nested (contextual) lookup application.
pub const MAX_NESTING: u32 = 16;
/// Maximum number of subtable applications attempted by one `apply_lookup` call.
pub const MAX_OPS: u64 = 2_000_000;
/// Maximum glyph string length; substitutions that would exceed it are refused.
pub const MAX_BUFFER_LEN: usize = 16_384;
/// Maximum number of positions tracked for one contextual match (as HarfBuzz).
pub const MAX_CONTEXT_LEN: usize = 64;

/// Which layout table.
#[derive(Clone, Copy, Debug, PartialEq, Eq, Hash, PartialOrd, Ord, Serialize, Deserialize)]
pub enum Table {
    Gsub,
    Gpos,
}

/// How a glyph is attached to the glyph in `attached_to`.
#[derive(Clone, Copy, Debug, PartialEq, Eq, Serialize, Deserialize)]
pub enum AttachKind {
    /// GPOS 4, 5, 6
    Mark,
    /// GPOS 3
    Cursive,
}

/// One glyph of the buffer / of the shaping result.
///
/// Positions are *adjustments*: `x_advance_adj` is what GPOS adds to the glyph's hmtx
/// advance; `x_offset`/`y_offset` is the placement shift. For a glyph with
/// `attached_to == Some(j)` and `attach_kind == Some(Mark)` the offset is
/// `anchor(glyph j) - anchor(this mark)`, i.e. the position of the mark's origin relative
/// to the origin of glyph `j` (no advance back-tracking; chains are *not* accumulated, see
/// [`ShapeResult::offset_from_root`]).
#[derive(Clone, Debug, PartialEq, Serialize, Deserialize)]
pub struct ShapedGlyph {
    pub gid: u16,
    pub x_advance_adj: f64,
    pub y_advance_adj: f64,
    pub x_offset: f64,
    pub y_offset: f64,
    /// Index (in the same glyph vector) of the glyph this one is attached to.
    pub attached_to: Option<usize>,
    pub attach_kind: Option<AttachKind>,
    /// For a glyph produced by a ligature substitution: the number of components it
    /// stands for (sum of the components' own counts); 0 otherwise.
    pub lig_components: u8,
    /// For a mark that was skipped inside / follows a ligature: the 1-based component it
    /// belongs to; for the outputs of a multiple substitution the 0-based position in the
    /// sequence; 0 otherwise.
    pub lig_comp_index: u8,
    /// Identity of the ligature the two fields above refer to (0 = none).
    pub lig_id: u32,
    /// Index into the original input string this glyph descends from (first component for
    /// ligatures). Evidence only, never used for matching.
    pub cluster: usize,
}

impl ShapedGlyph {
    pub fn new(gid: u16, cluster: usize) -> Self {
        ShapedGlyph {
            gid,
            x_advance_adj: 0.0,
            y_advance_adj: 0.0,
            x_offset: 0.0,
            y_offset: 0.0,
            attached_to: None,
            attach_kind: None,
            lig_components: 0,
            lig_comp_index: 0,
            lig_id: 0,
            cluster,
        }
    }
}

/// The glyph string lookups are applied to.
///
/// `attached_to` indices are only meaningful while the string length does not change, so
/// apply GSUB lookups before GPOS lookups (as `shape` does).
#[derive(Clone, Debug, PartialEq, Serialize, Deserialize)]
pub struct Buffer {
    pub glyphs: Vec<ShapedGlyph>,
    /// Next ligature id to hand out.
    pub next_lig_id: u32,
}

impl Buffer {
    pub fn from_glyphs(gids: &[u16]) -> Self {
        Buffer {
            glyphs: gids
                .iter()
                .enumerate()
                .map(|(i, g)| ShapedGlyph::new(*g, i))
                .collect(),
            next_lig_id: 1,
        }
    }
    pub fn gids(&self) -> Vec<u16> {
        self.glyphs.iter().map(|g| g.gid).collect()
    }
    pub fn len(&self) -> usize {
        self.glyphs.len()
    }
    pub fn is_empty(&self) -> bool {
        self.glyphs.is_empty()
    }
}

/// Which features of the selected language system are applied.
#[derive(Clone, Debug, PartialEq, Serialize, Deserialize)]
pub enum FeatureSel {
    /// Every feature of the language system, including its required feature.
    All,
    /// Exactly the features with these tags (the required feature only if listed).
    Only(Vec<String>),
    /// The required feature, the features a default horizontal left-to-right shaper turns
    /// on ([`DEFAULT_ON_FEATURES`]), plus these tags.
    DefaultOnPlus(Vec<String>),
}

/// Features that are on by default for horizontal left-to-right text in HarfBuzz's default
/// shaper (`frac`/`numr`/`dnom` are context dependent there and not included).
pub const DEFAULT_ON_FEATURES: &[&str] = &[
    "rvrn", "ltra", "ltrm", "abvm", "blwm", "ccmp", "locl", "mark", "mkmk", "rlig", "calt",
    "clig", "curs", "dist", "kern", "liga", "rclt",
];

#[derive(Clone, Debug, PartialEq, Serialize, Deserialize)]
pub struct ShapeRequest {
    /// Script tag, e.g. "latn". Falls back to "DFLT" if the font does not have it.
    pub script: String,
    /// Language tag, e.g. "TRK "; "dflt" selects the default language system. Falls back to
    /// the default language system if the script does not have it.
    pub lang: String,
    pub features: FeatureSel,
    /// Normalized coordinates, one per fvar axis; empty = default location.
    pub coords: Vec<f64>,
    pub gsub: bool,
    pub gpos: bool,
    /// Which alternate GSUB type 3 lookups pick (0 = first). A set with fewer alternates
    /// leaves the glyph unchanged.
    #[serde(default)]
    pub alternate_index: usize,
}

impl ShapeRequest {
    /// All features of (script, lang), GSUB and GPOS, default location.
    pub fn all(script: &str, lang: &str) -> Self {
        ShapeRequest {
            script: script.to_string(),
            lang: lang.to_string(),
            features: FeatureSel::All,
            coords: Vec::new(),
            gsub: true,
            gpos: true,
            alternate_index: 0,
        }
    }
}

#[derive(Clone, Debug, PartialEq, Serialize, Deserialize)]
pub struct ShapeResult {
    pub glyphs: Vec<ShapedGlyph>,
    /// Lookups that were selected, in application order.
    pub lookups_selected: Vec<(Table, u16)>,
    /// The subset of `lookups_selected` that matched at least once.
    pub lookups_applied: Vec<(Table, u16)>,
    /// Parse failures, exhausted budgets, unsupported formats. Empty on a clean run; a
    /// check should treat a non-empty list as a machinery problem or a malformed font.
    pub problems: Vec<String>,
}

impl ShapeResult {
    pub fn gids(&self) -> Vec<u16> {
        self.glyphs.iter().map(|g| g.gid).collect()
    }

    /// Offset of glyph `i` accumulated along its attachment chain: its own offset plus
    /// the offsets of every glyph it is (transitively) attached to. For a mark attached to
    /// a base that was itself not shifted this equals the mark's own offset.
    pub fn offset_from_root(&self, i: usize) -> (f64, f64) {
        let mut x = 0.0;
        let mut y = 0.0;
        let mut cur = Some(i);
        let mut steps = 0;
        while let Some(k) = cur {
            let Some(g) = self.glyphs.get(k) else { break };
            x += g.x_offset;
            y += g.y_offset;
            cur = g.attached_to;
            steps += 1;
            if steps > self.glyphs.len() {
                break; // malformed chain; cannot happen with chains built by this engine
            }
        }
        (x, y)
    }
}

/// Result of applying one lookup over a buffer.
#[derive(Clone, Debug, Default, PartialEq)]
pub struct ApplyReport {
    /// The lookup matched at least once.
    pub applied: bool,
    pub problems: Vec<String>,
}

/// Which kind of attachment subtable an enumerated anchor pair comes from.
#[derive(Clone, Copy, Debug, PartialEq, Eq, Serialize, Deserialize)]
pub enum MarkAttachKind {
    /// GPOS 4
    Base,
    /// GPOS 5
    Ligature,
    /// GPOS 6
    Mark,
}

/// One (base glyph, component, mark glyph) combination a mark attachment subtable
/// provides anchors for.
#[derive(Clone, Debug, PartialEq, Serialize, Deserialize)]
pub struct MarkAttachment {
    pub lookup_index: u16,
    pub subtable_index: usize,
    pub kind: MarkAttachKind,
    pub base_gid: u16,
    /// 0-based ligature component; 0 for mark-to-base and mark-to-mark.
    pub component: u16,
    pub mark_class: u16,
    /// Base (or ligature component, or mark2) anchor at `coords`.
    pub base_anchor: (f64, f64),
    pub mark_gid: u16,
    pub mark_anchor: (f64, f64),
}

/// One feature of a language system, after FeatureVariations substitution.
#[derive(Clone, Debug, PartialEq, Serialize, Deserialize)]
pub struct FeatureEntry {
    /// Index into the FeatureList.
    pub index: u16,
    pub tag: String,
    pub lookups: Vec<u16>,
    /// This is the language system's required feature.
    pub required: bool,
    /// The lookup list comes from a FeatureTableSubstitution.
    pub substituted: bool,
}

/// A font opened for layout application.
pub struct LFont<'a> {
    pub(crate) font: FontRef<'a>,
    pub(crate) gsub: Option<Gsub<'a>>,
    pub(crate) gpos: Option<Gpos<'a>>,
    pub(crate) glyph_classes: Option<ClassDef<'a>>,
    pub(crate) mark_attach_classes: Option<ClassDef<'a>>,
    pub(crate) mark_sets: Option<MarkGlyphSets<'a>>,
    pub(crate) var_store: Option<ItemVariationStore<'a>>,
}

/// Tag as a string without trailing padding spaces ("TRK " -> "TRK").
pub fn tag_str(tag: Tag) -> String {
    tag.to_string().trim_end().to_string()
}

fn tags_equal(tag: Tag, wanted: &str) -> bool {
    tag_str(tag) == wanted.trim_end()
}

impl<'a> LFont<'a> {
    /// Open a font. GSUB, GPOS and GDEF are each optional, but a table that is present and
    /// does not parse is an error.
    pub fn new(bytes: &'a [u8]) -> Result<Self, String> {
        let font = FontRef::new(bytes).map_err(|e| format!("sfnt: {e}"))?;
        let has = |tag: &[u8; 4]| font.table_data(Tag::new(tag)).is_some();
        let gsub = if has(b"GSUB") {
            Some(font.gsub().map_err(|e| format!("GSUB: {e}"))?)
        } else {
            None
        };
        let gpos = if has(b"GPOS") {
            Some(font.gpos().map_err(|e| format!("GPOS: {e}"))?)
        } else {
            None
        };
        let gdef: Option<Gdef<'a>> = if has(b"GDEF") {
            Some(font.gdef().map_err(|e| format!("GDEF: {e}"))?)
        } else {
            None
        };
        let mut glyph_classes = None;
        let mut mark_attach_classes = None;
        let mut mark_sets = None;
        let mut var_store = None;
        if let Some(gdef) = &gdef {
            if let Some(r) = gdef.glyph_class_def() {
                glyph_classes = Some(r.map_err(|e| format!("GDEF GlyphClassDef: {e}"))?);
            }
            if let Some(r) = gdef.mark_attach_class_def() {
                mark_attach_classes =
                    Some(r.map_err(|e| format!("GDEF MarkAttachClassDef: {e}"))?);
            }
            if let Some(r) = gdef.mark_glyph_sets_def() {
                mark_sets = Some(r.map_err(|e| format!("GDEF MarkGlyphSets: {e}"))?);
            }
            if let Some(r) = gdef.item_var_store() {
                var_store = Some(r.map_err(|e| format!("GDEF ItemVariationStore: {e}"))?);
            }
        }
        Ok(LFont {
            font,
            gsub,
            gpos,
            glyph_classes,
            mark_attach_classes,
            mark_sets,
            var_store,
        })
    }

    pub fn has_table(&self, table: Table) -> bool {
        match table {
            Table::Gsub => self.gsub.is_some(),
            Table::Gpos => self.gpos.is_some(),
        }
    }

    /// Number of lookups in the table's LookupList (0 if the table is absent).
    pub fn lookup_count(&self, table: Table) -> u16 {
        match table {
            Table::Gsub => self
                .gsub
                .as_ref()
                .and_then(|t| t.lookup_list().ok())
                .map(|l| l.lookup_count())
                .unwrap_or(0),
            Table::Gpos => self
                .gpos
                .as_ref()
                .and_then(|t| t.lookup_list().ok())
                .map(|l| l.lookup_count())
                .unwrap_or(0),
        }
    }

    /// (lookup type, lookup flag, mark filtering set) of a lookup; the type is the
    /// extension's inner type for extension lookups.
    pub fn lookup_info(&self, table: Table, lookup_index: u16) -> Option<(u16, u16, Option<u16>)> {
        match table {
            Table::Gsub => {
                let l = self.gsub_lookup(lookup_index).ok()?;
                let ty = gsub::effective_type(&l);
                Some((ty, l.lookup_flag().to_bits(), l.mark_filtering_set()))
            }
            Table::Gpos => {
                let l = self.gpos_lookup(lookup_index).ok()?;
                let ty = gpos::effective_type(&l);
                Some((ty, l.lookup_flag().to_bits(), l.mark_filtering_set()))
            }
        }
    }

    // ----------------------------------------------------------------- GDEF

    /// GDEF glyph class (1 base, 2 ligature, 3 mark, 4 component; 0 if none).
    pub fn glyph_class(&self, gid: u16) -> u16 {
        match &self.glyph_classes {
            Some(cd) => cov::class_of(cd, gid),
            None => 0,
        }
    }

    /// Whether GDEF has a GlyphClassDef at all.
    pub fn has_glyph_classes(&self) -> bool {
        self.glyph_classes.is_some()
    }

    /// GDEF mark attachment class (0 if none).
    pub fn mark_attach_class(&self, gid: u16) -> u16 {
        match &self.mark_attach_classes {
            Some(cd) => cov::class_of(cd, gid),
            None => 0,
        }
    }

    /// Whether `gid` is in GDEF mark glyph set `set`. A missing set contains nothing.
    pub fn in_mark_set(&self, set: u16, gid: u16) -> bool {
        let Some(sets) = &self.mark_sets else {
            return false;
        };
        match sets.coverages().get(set as usize) {
            Ok(c) => cov::coverage_index(&c, gid).is_some(),
            Err(_) => false,
        }
    }

    /// Delta for a VariationIndex (outer, inner) at `coords`, from GDEF's store.
    pub fn var_delta(&self, outer: u16, inner: u16, coords: &[f64]) -> Result<f64, String> {
        match &self.var_store {
            Some(store) => ivs::delta(store, outer, inner, coords),
            None => Err("VariationIndex present but GDEF has no ItemVariationStore".into()),
        }
    }

    /// Default-location hmtx advance (used by cursive attachment only).
    pub(crate) fn hmtx_advance(&self, gid: u16) -> f64 {
        self.font
            .hmtx()
            .ok()
            .and_then(|h| h.advance(write_fonts::read::types::GlyphId::new(gid as u32)))
            .unwrap_or(0) as f64
    }

    // ------------------------------------------------ scripts and features

    fn script_list(&self, table: Table) -> Option<ScriptList<'a>> {
        match table {
            Table::Gsub => self.gsub.as_ref()?.script_list().ok(),
            Table::Gpos => self.gpos.as_ref()?.script_list().ok(),
        }
    }

    fn feature_list(&self, table: Table) -> Option<FeatureList<'a>> {
        match table {
            Table::Gsub => self.gsub.as_ref()?.feature_list().ok(),
            Table::Gpos => self.gpos.as_ref()?.feature_list().ok(),
        }
    }

    fn feature_variations(&self, table: Table) -> Option<FeatureVariations<'a>> {
        match table {
            Table::Gsub => self.gsub.as_ref()?.feature_variations()?.ok(),
            Table::Gpos => self.gpos.as_ref()?.feature_variations()?.ok(),
        }
    }

    /// Scripts of the table with their language systems, in table order. The default
    /// language system is listed as "dflt" (first) when present.
    pub fn scripts(&self, table: Table) -> Vec<(String, Vec<String>)> {
        let mut out = Vec::new();
        let Some(list) = self.script_list(table) else {
            return out;
        };
        for rec in list.script_records() {
            let mut langs = Vec::new();
            if let Ok(script) = rec.script(list.offset_data()) {
                if script.default_lang_sys().is_some() {
                    langs.push("dflt".to_string());
                }
                for l in script.lang_sys_records() {
                    langs.push(tag_str(l.lang_sys_tag()));
                }
            }
            out.push((tag_str(rec.script_tag()), langs));
        }
        out
    }

    /// Language system selection: requested script, else "DFLT"; requested language, else
    /// the script's default language system. "dflt" as `lang` selects the default
    /// language system directly.
    fn select_lang_sys(&self, table: Table, script: &str, lang: &str) -> Option<LangSys<'a>> {
        let list = self.script_list(table)?;
        let find = |wanted: &str| {
            list.script_records()
                .iter()
                .find(|r| tags_equal(r.script_tag(), wanted))
        };
        let rec = find(script).or_else(|| find("DFLT"))?;
        let script = rec.script(list.offset_data()).ok()?;
        if lang.trim_end() != "dflt" {
            for l in script.lang_sys_records() {
                if tags_equal(l.lang_sys_tag(), lang) {
                    return l.lang_sys(script.offset_data()).ok();
                }
            }
        }
        script.default_lang_sys()?.ok()
    }

    /// The features of (script, lang) in feature-index order, with FeatureVariations
    /// applied at `coords` (empty = default location). The required feature, if any, is
    /// included and flagged.
    pub fn feature_entries(
        &self,
        table: Table,
        script: &str,
        lang: &str,
        coords: &[f64],
    ) -> Vec<FeatureEntry> {
        let mut out = Vec::new();
        let Some(langsys) = self.select_lang_sys(table, script, lang) else {
            return out;
        };
        let Some(features) = self.feature_list(table) else {
            return out;
        };
        let substitutions = self.feature_variation_at(table, coords).unwrap_or_default();
        let required = langsys.required_feature_index();
        let mut indices: Vec<u16> = langsys.feature_indices().iter().map(|i| i.get()).collect();
        if required != 0xFFFF {
            indices.push(required);
        }
        indices.sort();
        indices.dedup();
        for index in indices {
            let Some(rec) = features.feature_records().get(index as usize) else {
                continue;
            };
            let (lookups, substituted) =
                match substitutions.iter().find(|(fi, _)| *fi == index) {
                    Some((_, lookups)) => (lookups.clone(), true),
                    None => match rec.feature(features.offset_data()) {
                        Ok(f) => (
                            f.lookup_list_indices().iter().map(|i| i.get()).collect(),
                            false,
                        ),
                        Err(_) => (Vec::new(), false),
                    },
                };
            out.push(FeatureEntry {
                index,
                tag: tag_str(rec.feature_tag()),
                lookups,
                required: index == required,
                substituted,
            });
        }
        out
    }

    /// `(tag, lookup indices)` of the features of (script, lang) in feature-index order.
    /// See [`LFont::feature_entries`].
    pub fn features_for(
        &self,
        table: Table,
        script: &str,
        lang: &str,
        coords: &[f64],
    ) -> Vec<(String, Vec<u16>)> {
        self.feature_entries(table, script, lang, coords)
            .into_iter()
            .map(|e| (e.tag, e.lookups))
            .collect()
    }

    /// FeatureVariations at `coords`: the `(feature index, substituted lookup list)` pairs
    /// of the *first* record whose condition set holds, or `None` if there is no
    /// FeatureVariations table or no record matches.
    ///
    /// A condition (format 1) holds when `min <= coord[axis] <= max`, a missing coordinate
    /// counting as 0; a record without a condition set always matches. Formats 3/4/5
    /// (and / or / negate) are evaluated recursively; format 2 never holds.
    pub fn feature_variation_at(&self, table: Table, coords: &[f64]) -> Option<Vec<(u16, Vec<u16>)>> {
        let fv = self.feature_variations(table)?;
        for rec in fv.feature_variation_records() {
            let holds = match rec.condition_set(fv.offset_data()) {
                None => true,
                Some(Ok(set)) => condition_set_holds(&set, coords),
                Some(Err(_)) => false,
            };
            if !holds {
                continue;
            }
            let mut out = Vec::new();
            if let Some(Ok(subst)) = rec.feature_table_substitution(fv.offset_data()) {
                for s in subst.substitutions() {
                    if let Ok(feature) = s.alternate_feature(subst.offset_data()) {
                        out.push((
                            s.feature_index(),
                            feature.lookup_list_indices().iter().map(|i| i.get()).collect(),
                        ));
                    }
                }
            }
            return Some(out);
        }
        None
    }

    /// Number of FeatureVariations records (0 if none).
    pub fn feature_variation_record_count(&self, table: Table) -> usize {
        self.feature_variations(table)
            .map(|fv| fv.feature_variation_records().len())
            .unwrap_or(0)
    }

    /// The lookups `shape` would apply for this request and table: union over the selected
    /// features, ascending, deduplicated.
    pub fn collect_lookups(&self, table: Table, req: &ShapeRequest) -> Vec<u16> {
        let mut lookups: Vec<u16> = Vec::new();
        for f in self.feature_entries(table, &req.script, &req.lang, &req.coords) {
            let on = match &req.features {
                FeatureSel::All => true,
                FeatureSel::Only(tags) => tags.iter().any(|t| t.trim_end() == f.tag),
                FeatureSel::DefaultOnPlus(tags) => {
                    f.required
                        || DEFAULT_ON_FEATURES.contains(&f.tag.as_str())
                        || tags.iter().any(|t| t.trim_end() == f.tag)
                }
            };
            if on {
                lookups.extend(f.lookups);
            }
        }
        lookups.sort();
        lookups.dedup();
        lookups
    }

    // ------------------------------------------------------------- applying

    /// Apply GSUB, then GPOS, to `glyphs` as described in the crate documentation.
    pub fn shape(&self, req: &ShapeRequest, glyphs: &[u16]) -> ShapeResult {
        let mut buffer = Buffer::from_glyphs(glyphs);
        let mut result = ShapeResult {
            glyphs: Vec::new(),
            lookups_selected: Vec::new(),
            lookups_applied: Vec::new(),
            problems: Vec::new(),
        };
        for (table, enabled) in [(Table::Gsub, req.gsub), (Table::Gpos, req.gpos)] {
            if !enabled || !self.has_table(table) {
                continue;
            }
            for lookup_index in self.collect_lookups(table, req) {
                result.lookups_selected.push((table, lookup_index));
                let report = self.apply_lookup_with(
                    table,
                    lookup_index,
                    &mut buffer,
                    &req.coords,
                    req.alternate_index,
                );
                if report.applied {
                    result.lookups_applied.push((table, lookup_index));
                }
                result.problems.extend(report.problems);
            }
        }
        result.glyphs = buffer.glyphs;
        result
    }

    /// Apply exactly one lookup over the whole buffer (left to right; GSUB type 8 right to
    /// left), regardless of features.
    pub fn apply_lookup(
        &self,
        table: Table,
        lookup_index: u16,
        buffer: &mut Buffer,
        coords: &[f64],
    ) -> ApplyReport {
        self.apply_lookup_with(table, lookup_index, buffer, coords, 0)
    }

    /// As [`LFont::apply_lookup`], choosing alternate number `alternate_index` (0 = first)
    /// in GSUB type 3 lookups.
    pub fn apply_lookup_with(
        &self,
        table: Table,
        lookup_index: u16,
        buffer: &mut Buffer,
        coords: &[f64],
        alternate_index: usize,
    ) -> ApplyReport {
        let mut applier = apply::Applier::new(self, table, coords);
        applier.alternate_index = alternate_index;
        let applied = applier.apply_whole(lookup_index, buffer);
        ApplyReport {
            applied,
            problems: applier.problems,
        }
    }

    /// The alternates a GSUB type 3 lookup offers for `gid` (`shape` always picks the first).
    pub fn alternates(&self, lookup_index: u16, gid: u16) -> Option<Vec<u16>> {
        gsub::alternates(self, lookup_index, gid)
    }

    /// Horizontal distance change between `g1` and `g2` caused by feature `tag` under
    /// (script, lang) at `coords`: shape `[g1, g2]` with only that feature of GPOS and
    /// return `x_advance_adj(g1) + x_offset(g2)`, unrounded.
    pub fn pair_adjustment(
        &self,
        script: &str,
        lang: &str,
        tag: &str,
        g1: u16,
        g2: u16,
        coords: &[f64],
    ) -> f64 {
        let req = ShapeRequest {
            script: script.to_string(),
            lang: lang.to_string(),
            features: FeatureSel::Only(vec![tag.to_string()]),
            coords: coords.to_vec(),
            gsub: false,
            gpos: true,
            alternate_index: 0,
        };
        let r = self.shape(&req, &[g1, g2]);
        r.glyphs[0].x_advance_adj + r.glyphs[1].x_offset
    }

    /// Every anchor pair offered by the mark-to-base / mark-to-ligature / mark-to-mark
    /// subtables of GPOS (including those behind extension lookups), evaluated at `coords`.
    /// One entry per (base glyph, component, mark glyph) whose base anchor for the mark's
    /// class is present. Order: lookup, subtable, base coverage order, component, mark
    /// coverage order.
    pub fn mark_attachments(&self, coords: &[f64]) -> Vec<MarkAttachment> {
        gpos::enumerate_mark_attachments(self, coords).0
    }

    /// As [`LFont::mark_attachments`], also returning parse problems met on the way.
    pub fn mark_attachments_checked(&self, coords: &[f64]) -> (Vec<MarkAttachment>, Vec<String>) {
        gpos::enumerate_mark_attachments(self, coords)
    }
}

fn condition_set_holds(set: &ConditionSet, coords: &[f64]) -> bool {
    // all conditions must hold; an empty set holds
    for c in set.conditions().iter() {
        match c {
            Ok(c) => {
                if !condition_holds(&c, coords, 0) {
                    return false;
                }
            }
            Err(_) => return false,
        }
    }
    true
}

fn condition_holds(c: &Condition, coords: &[f64], depth: u32) -> bool {
    if depth > 8 {
        return false;
    }
    match c {
        Condition::Format1AxisRange(c) => {
            let v = coords.get(c.axis_index() as usize).copied().unwrap_or(0.0);
            let min = c.filter_range_min_value().to_bits() as f64 / 16384.0;
            let max = c.filter_range_max_value().to_bits() as f64 / 16384.0;
            min <= v && v <= max
        }
        Condition::Format2VariableValue(_) => false,
        Condition::Format3And(c) => c
            .conditions()
            .iter()
            .all(|x| x.map(|x| condition_holds(&x, coords, depth + 1)).unwrap_or(false)),
        Condition::Format4Or(c) => c
            .conditions()
            .iter()
            .any(|x| x.map(|x| condition_holds(&x, coords, depth + 1)).unwrap_or(false)),
        Condition::Format5Negate(c) => match c.condition() {
            Ok(x) => !condition_holds(&x, coords, depth + 1),
            Err(_) => false,
        },
    }
}
