//! ItemVariationStore evaluation ("OpenType Font Variations Common Table Formats",
//! sections "Item variation store" and "Algorithm for interpolation of instance values").
//!
//! Only the byte-level table access is delegated to read-fonts. Region scalars, delta-set
//! row decoding and the weighted sum are done here in f64 without any rounding.

use write_fonts::read::tables::variations::ItemVariationStore;

/// Scalar of one axis of a region at normalized coordinate `coord`.
///
/// Follows the spec's per-axis rules in order:
/// * a peak of 0 means the axis does not participate (scalar 1);
/// * an ill-ordered region (start > peak or peak > end) is ignored (scalar 1);
/// * a region that spans zero without peaking at zero is ignored (scalar 1);
/// * at the peak the scalar is 1, at or outside start/end it is 0;
/// * otherwise linear interpolation toward the peak.
pub fn axis_scalar(start: f64, peak: f64, end: f64, coord: f64) -> f64 {
    if peak == 0.0 {
        return 1.0;
    }
    if start > peak || peak > end {
        return 1.0;
    }
    if start < 0.0 && end > 0.0 {
        return 1.0;
    }
    if coord == peak {
        return 1.0;
    }
    if coord <= start || coord >= end {
        return 0.0;
    }
    if coord < peak {
        (coord - start) / (peak - start)
    } else {
        (end - coord) / (end - peak)
    }
}

/// Scalar of region `region_index` of the store at `coords` (missing coords are 0).
pub fn region_scalar(
    store: &ItemVariationStore,
    region_index: u16,
    coords: &[f64],
) -> Result<f64, String> {
    let list = store
        .variation_region_list()
        .map_err(|e| format!("IVS region list: {e}"))?;
    let region = list
        .variation_regions()
        .get(region_index as usize)
        .map_err(|e| format!("IVS region {region_index}: {e}"))?;
    let mut scalar = 1.0;
    for (axis, rc) in region.region_axes().iter().enumerate() {
        let coord = coords.get(axis).copied().unwrap_or(0.0);
        let f = |v: i16| v as f64 / 16384.0;
        scalar *= axis_scalar(
            f(rc.start_coord().to_bits()),
            f(rc.peak_coord().to_bits()),
            f(rc.end_coord().to_bits()),
            coord,
        );
    }
    Ok(scalar)
}

/// The raw per-region deltas of delta set (`outer`, `inner`) together with the region index
/// each one belongs to.
pub fn delta_set(
    store: &ItemVariationStore,
    outer: u16,
    inner: u16,
) -> Result<Vec<(u16, i32)>, String> {
    let data = match store.item_variation_data().get(outer as usize) {
        Some(Ok(d)) => d,
        Some(Err(e)) => return Err(format!("IVS data {outer}: {e}")),
        None => return Err(format!("IVS data {outer}: null or out of range")),
    };
    if inner >= data.item_count() {
        return Err(format!(
            "IVS delta set ({outer},{inner}) out of range (itemCount {})",
            data.item_count()
        ));
    }
    let regions: Vec<u16> = data.region_indexes().iter().map(|r| r.get()).collect();
    let wdc = data.word_delta_count();
    let long_words = wdc & 0x8000 != 0;
    let word_count = (wdc & 0x7fff) as usize;
    let n = regions.len();
    let word_count = word_count.min(n);
    let (word_size, small_size) = if long_words { (4usize, 2usize) } else { (2, 1) };
    let row_len = word_count * word_size + (n - word_count) * small_size;
    let bytes = data.delta_sets();
    let row_start = row_len * inner as usize;
    let row = bytes
        .get(row_start..row_start + row_len)
        .ok_or_else(|| format!("IVS delta set ({outer},{inner}): row out of bounds"))?;
    let mut out = Vec::with_capacity(n);
    let mut p = 0usize;
    for (k, region) in regions.iter().enumerate() {
        let size = if k < word_count { word_size } else { small_size };
        let b = &row[p..p + size];
        p += size;
        let v: i32 = match size {
            1 => b[0] as i8 as i32,
            2 => i16::from_be_bytes([b[0], b[1]]) as i32,
            _ => i32::from_be_bytes([b[0], b[1], b[2], b[3]]),
        };
        out.push((*region, v));
    }
    Ok(out)
}

/// Interpolated delta of (`outer`, `inner`) at `coords`: sum over regions of scalar * delta.
pub fn delta(
    store: &ItemVariationStore,
    outer: u16,
    inner: u16,
    coords: &[f64],
) -> Result<f64, String> {
    // 0xFFFF/0xFFFF is the "no variation data" sentinel
    if outer == 0xFFFF && inner == 0xFFFF {
        return Ok(0.0);
    }
    let mut sum = 0.0;
    for (region, d) in delta_set(store, outer, inner)? {
        if d == 0 {
            continue;
        }
        sum += region_scalar(store, region, coords)? * d as f64;
    }
    Ok(sum)
}

#[cfg(test)]
mod tests {
    use super::axis_scalar;

    #[test]
    fn axis_scalar_rules() {
        // non participating
        assert_eq!(axis_scalar(0.0, 0.0, 0.0, 0.7), 1.0);
        // simple 0..1 region
        assert_eq!(axis_scalar(0.0, 1.0, 1.0, 0.0), 0.0);
        assert_eq!(axis_scalar(0.0, 1.0, 1.0, 0.25), 0.25);
        assert_eq!(axis_scalar(0.0, 1.0, 1.0, 1.0), 1.0);
        assert_eq!(axis_scalar(0.0, 1.0, 1.0, -0.5), 0.0);
        // intermediate region
        assert_eq!(axis_scalar(0.0, 0.5, 1.0, 0.25), 0.5);
        assert_eq!(axis_scalar(0.0, 0.5, 1.0, 0.75), 0.5);
        assert_eq!(axis_scalar(0.0, 0.5, 1.0, 1.0), 0.0);
        assert_eq!(axis_scalar(0.5, 1.0, 1.0, 0.75), 0.5);
        assert_eq!(axis_scalar(0.5, 1.0, 1.0, 0.5), 0.0);
        // negative side
        assert_eq!(axis_scalar(-1.0, -1.0, 0.0, -0.5), 0.5);
        assert_eq!(axis_scalar(-1.0, -1.0, 0.0, 0.5), 0.0);
        // malformed regions are ignored
        assert_eq!(axis_scalar(0.5, 0.2, 1.0, 0.9), 1.0);
        assert_eq!(axis_scalar(-1.0, 0.5, 1.0, -0.9), 1.0);
    }
}
