//! Debug aid: `otl_dump font.ttf [coord ...]` prints scripts, features, lookups and mark
//! attachments as seen by the otlayout engine; `otl_dump font.ttf --shape 1,2,3 [coord ...]`
//! additionally shapes a glyph-id string with all features of DFLT/dflt.

use otlayout::{LFont, ShapeRequest, Table};

fn main() {
    let args: Vec<String> = std::env::args().skip(1).collect();
    let Some(path) = args.first() else {
        eprintln!("usage: otl_dump font.ttf [--shape g1,g2,..] [coord ...]");
        std::process::exit(2);
    };
    let bytes = std::fs::read(path).expect("cannot read font");
    let font = LFont::new(&bytes).expect("cannot open font");
    let mut shape: Option<Vec<u16>> = None;
    let mut coords: Vec<f64> = Vec::new();
    let mut i = 1;
    while i < args.len() {
        if args[i] == "--shape" {
            i += 1;
            shape = Some(args[i].split(',').map(|g| g.parse().unwrap()).collect());
        } else {
            coords.push(args[i].parse().unwrap());
        }
        i += 1;
    }
    for table in [Table::Gsub, Table::Gpos] {
        if !font.has_table(table) {
            continue;
        }
        println!("{table:?}: {} lookups", font.lookup_count(table));
        for li in 0..font.lookup_count(table) {
            if let Some((ty, flag, set)) = font.lookup_info(table, li) {
                println!("  lookup {li}: type {ty} flag {flag:#06x} markset {set:?}");
            }
        }
        for (script, langs) in font.scripts(table) {
            for lang in langs {
                for f in font.feature_entries(table, &script, &lang, &coords) {
                    println!(
                        "  {script}/{lang}: #{} {} -> {:?}{}",
                        f.index,
                        f.tag,
                        f.lookups,
                        if f.substituted { " (substituted)" } else { "" }
                    );
                }
            }
        }
        println!(
            "  feature variation records: {}; at coords: {:?}",
            font.feature_variation_record_count(table),
            font.feature_variation_at(table, &coords)
        );
    }
    let (marks, problems) = font.mark_attachments_checked(&coords);
    for m in marks {
        println!("{m:?}");
    }
    for p in problems {
        println!("PROBLEM {p}");
    }
    if let Some(gids) = shape {
        let req = ShapeRequest {
            coords,
            ..ShapeRequest::all("DFLT", "dflt")
        };
        let r = font.shape(&req, &gids);
        println!("{r:#?}");
    }
}
