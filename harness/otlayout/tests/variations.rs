//! FeatureVariations produced by the product compiler from designspace `<rules>`.

mod common;

use common::*;
use otlayout::{Buffer, FeatureSel, LFont, ShapeRequest, Table};

fn shape_at(font: &LFont, c: &Compiled, feature: &str, coords: &[f64], input: &[&str]) -> Vec<String> {
    let req = ShapeRequest {
        script: "DFLT".into(),
        lang: "dflt".into(),
        features: FeatureSel::Only(vec![feature.into()]),
        coords: coords.to_vec(),
        gsub: true,
        gpos: false,
        alternate_index: 0,
    };
    let r = font.shape(&req, &c.gids(input));
    assert!(r.problems.is_empty(), "{:?}", r.problems);
    c.names_of(&r.gids())
}

/// What one lookup, applied alone, does to a single glyph.
fn lookup_maps(font: &LFont, c: &Compiled, lookup: u16, glyph: &str) -> String {
    let mut buffer = Buffer::from_glyphs(&[c.gid(glyph)]);
    let report = font.apply_lookup(Table::Gsub, lookup, &mut buffer, &[]);
    assert!(report.problems.is_empty());
    c.name(buffer.glyphs[0].gid)
}

#[test]
fn designspace_rules_substitute_only_inside_their_region() {
    // Basic.designspace, axis wght 400..700 (default 400):
    //   rule 1: 550 <= wght <= 700 (normalized 0.5 .. 1):      plus -> bar
    //   rule 2: 600 <= wght <= 700 (normalized 0.6667 .. 1):   bar -> plus
    let c = compile_source("fv-basic", "/repo/resources/testdata/dspace_rules/Basic.designspace");
    let font = LFont::new(&c.bytes).unwrap();
    let rvrn = |coords: &[f64]| {
        font.feature_entries(Table::Gsub, "DFLT", "dflt", coords)
            .into_iter()
            .find(|f| f.tag == "rvrn")
            .expect("rvrn feature")
    };
    // outside both regions: no record matches, rvrn keeps its (empty) default lookup list
    for coords in [vec![], vec![0.0], vec![0.25], vec![0.49], vec![-1.0]] {
        assert_eq!(font.feature_variation_at(Table::Gsub, &coords), None, "{coords:?}");
        assert!(rvrn(&coords).lookups.is_empty());
        assert!(!rvrn(&coords).substituted);
        assert_eq!(shape_at(&font, &c, "rvrn", &coords, &["plus", "bar"]), ["plus", "bar"]);
    }
    // inside rule 1 only (the boundary 0.5 is inclusive)
    for coords in [vec![0.5], vec![0.51], vec![0.6], vec![0.66]] {
        let f = rvrn(&coords);
        assert!(f.substituted, "{coords:?}");
        assert_eq!(f.lookups.len(), 1, "{coords:?}");
        assert_eq!(lookup_maps(&font, &c, f.lookups[0], "plus"), "bar");
        assert_eq!(lookup_maps(&font, &c, f.lookups[0], "bar"), "bar");
        assert_eq!(
            font.feature_variation_at(Table::Gsub, &coords),
            Some(vec![(f.index, f.lookups.clone())])
        );
        assert_eq!(shape_at(&font, &c, "rvrn", &coords, &["plus", "bar"]), ["bar", "bar"]);
    }
    // inside both rules: two single substitution lookups, applied in lookup-index order
    for coords in [vec![0.67], vec![0.8], vec![1.0]] {
        let f = rvrn(&coords);
        assert_eq!(f.lookups.len(), 2, "{coords:?}");
        let mut expected = vec!["plus".to_string(), "bar".to_string()];
        let mut sorted = f.lookups.clone();
        sorted.sort();
        for lookup in sorted {
            for glyph in expected.iter_mut() {
                *glyph = lookup_maps(&font, &c, lookup, glyph);
            }
        }
        assert_eq!(shape_at(&font, &c, "rvrn", &coords, &["plus", "bar"]), expected);
        // the two lookups are the two rules' maps
        let maps: Vec<(String, String)> = f
            .lookups
            .iter()
            .map(|l| (lookup_maps(&font, &c, *l, "plus"), lookup_maps(&font, &c, *l, "bar")))
            .collect();
        assert!(maps.contains(&("bar".into(), "bar".into())), "{maps:?}");
        assert!(maps.contains(&("plus".into(), "plus".into())), "{maps:?}");
    }
    // other features are not affected by the variation records
    assert_eq!(shape_at(&font, &c, "salt", &[0.8], &["bar"]), ["plus"]);
    assert_eq!(shape_at(&font, &c, "salt", &[], &["bar"]), ["plus"]);
    // GPOS has no FeatureVariations
    assert_eq!(font.feature_variation_at(Table::Gpos, &[0.8]), None);
}

#[test]
fn designspace_rules_processing_last_uses_rclt() {
    // Last.designspace: processing="last", one rule 550..700: bar -> plus
    let c = compile_source("fv-last", "/repo/resources/testdata/dspace_rules/Last.designspace");
    let font = LFont::new(&c.bytes).unwrap();
    assert_eq!(shape_at(&font, &c, "rclt", &[], &["bar", "plus"]), ["bar", "plus"]);
    assert_eq!(shape_at(&font, &c, "rclt", &[0.49], &["bar", "plus"]), ["bar", "plus"]);
    assert_eq!(shape_at(&font, &c, "rclt", &[0.5], &["bar", "plus"]), ["plus", "plus"]);
    assert_eq!(shape_at(&font, &c, "rclt", &[1.0], &["bar", "plus"]), ["plus", "plus"]);
    // with every feature on, rclt (bar -> plus) and the static aalt/salt lookups interact in
    // lookup order; the engine must at least report the same lookups at both ends
    let req = |coords: Vec<f64>| ShapeRequest {
        coords,
        ..ShapeRequest::all("DFLT", "dflt")
    };
    let inside = font.shape(&req(vec![0.75]), &c.gids(&["bar"]));
    let outside = font.shape(&req(vec![0.25]), &c.gids(&["bar"]));
    assert_eq!(inside.lookups_selected.len(), outside.lookups_selected.len() + 1);
}
