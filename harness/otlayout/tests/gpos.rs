//! GPOS behaviour on fonts compiled by the product binary. Expectations are hand-derived
//! from the feature files / UFO data.

mod common;

use common::*;
use otlayout::{
    AttachKind, FeatureSel, LFont, MarkAttachKind, ShapeRequest, ShapeResult, ShapedGlyph, Table,
};

fn shape_with(
    font: &LFont,
    c: &Compiled,
    features: &[&str],
    input: &[&str],
    coords: &[f64],
) -> ShapeResult {
    let req = ShapeRequest {
        script: "latn".into(),
        lang: "dflt".into(),
        features: FeatureSel::Only(features.iter().map(|s| s.to_string()).collect()),
        coords: coords.to_vec(),
        gsub: true,
        gpos: true,
        alternate_index: 0,
    };
    let r = font.shape(&req, &c.gids(input));
    assert!(r.problems.is_empty(), "problems: {:?}", r.problems);
    r
}

/// (x_advance_adj, y_advance_adj, x_offset, y_offset)
fn pos(g: &ShapedGlyph) -> (f64, f64, f64, f64) {
    (g.x_advance_adj, g.y_advance_adj, g.x_offset, g.y_offset)
}

fn advances(r: &ShapeResult) -> Vec<f64> {
    r.glyphs.iter().map(|g| g.x_advance_adj).collect()
}

#[test]
fn single_and_pair_positioning() {
    let fea = format!(
        "languagesystem DFLT dflt;\nlanguagesystem latn dflt;\n{LATIN_GDEF}
@L = [a b];
@R = [c d];
feature ss01 {{
  pos a 10;
  pos b <1 2 3 4>;
}} ss01;
feature kern {{
  pos a c -40;
  pos c a -7;
  enum pos @L d -15;
  pos @L @R -20;
}} kern;
feature dist {{
  pos a <0 0 -5 0> b <0 0 -6 0>;
  pos b a -9;
}} dist;
feature ss02 {{
  lookupflag IgnoreMarks;
  pos a c -40;
}} ss02;
feature ss03 {{
  pos a' 50 b;
}} ss03;
"
    );
    let c = compile(
        "gpos-basic",
        &UfoSpec {
            glyphs: latin_glyphs(),
            fea,
            ..Default::default()
        },
    );
    let font = LFont::new(&c.bytes).unwrap();

    // type 1
    let r = shape_with(&font, &c, &["ss01"], &["a", "b", "c"], &[]);
    assert_eq!(pos(&r.glyphs[0]), (10.0, 0.0, 0.0, 0.0));
    assert_eq!(pos(&r.glyphs[1]), (3.0, 4.0, 1.0, 2.0));
    assert_eq!(pos(&r.glyphs[2]), (0.0, 0.0, 0.0, 0.0));

    // type 2: specific pairs (format 1) come before the class subtable (format 2)
    let kern = |a: &str, b: &str| font.pair_adjustment("latn", "dflt", "kern", c.gid(a), c.gid(b), &[]);
    assert_eq!(kern("a", "c"), -40.0); // glyph pair wins over the class pair
    assert_eq!(kern("a", "d"), -15.0); // enumerated class pair
    assert_eq!(kern("b", "d"), -15.0);
    assert_eq!(kern("b", "c"), -20.0); // class pair
    assert_eq!(kern("a", "a"), 0.0); // class subtable covers a, class 0 on the right
    assert_eq!(kern("a", "f"), 0.0);
    assert_eq!(kern("c", "a"), -7.0);
    assert_eq!(kern("c", "c"), 0.0);
    assert_eq!(kern("f", "c"), 0.0);
    // valueFormat2 == 0: the second glyph of a pair is the first glyph of the next pair
    let r = shape_with(&font, &c, &["kern"], &["a", "c", "a", "d", "b", "c"], &[]);
    assert_eq!(advances(&r), [-40.0, -7.0, -15.0, 0.0, -20.0, 0.0]);
    // the pair lookup without IgnoreMarks sees the mark as second glyph
    let r = shape_with(&font, &c, &["kern"], &["a", "acutecomb", "c"], &[]);
    assert_eq!(advances(&r), [0.0, 0.0, 0.0]);
    // with IgnoreMarks the next glyph is found behind the mark
    let r = shape_with(&font, &c, &["ss02"], &["a", "acutecomb", "gravecomb", "c", "a"], &[]);
    assert_eq!(advances(&r), [-40.0, 0.0, 0.0, 0.0, 0.0]);

    // valueFormat2 != 0: the cursor moves past the second glyph, so "b a" is not examined
    let r = shape_with(&font, &c, &["dist"], &["a", "b", "a"], &[]);
    assert_eq!(advances(&r), [-5.0, -6.0, 0.0]);
    let r = shape_with(&font, &c, &["dist"], &["b", "a", "b"], &[]);
    assert_eq!(advances(&r), [-9.0, -5.0, -6.0]);

    // type 8 with an inline single positioning
    let r = shape_with(&font, &c, &["ss03"], &["a", "b", "a", "c"], &[]);
    assert_eq!(advances(&r), [50.0, 0.0, 0.0, 0.0]);
    let (_, lookups) = font
        .features_for(Table::Gpos, "latn", "dflt", &[])
        .into_iter()
        .find(|(t, _)| t == "ss03")
        .unwrap();
    let ty = font.lookup_info(Table::Gpos, lookups[0]).unwrap().0;
    assert!(ty == 7 || ty == 8, "contextual lookup expected, got type {ty}");
}

fn mark_font(test: &str) -> Compiled {
    let fea = format!(
        "languagesystem DFLT dflt;\nlanguagesystem latn dflt;\n{LATIN_GDEF}
markClass acutecomb <anchor 100 500> @TOP;
markClass gravecomb <anchor 120 510> @TOP;
markClass dotbelowcomb <anchor 90 -20> @BOT;
feature liga {{ lookupflag IgnoreMarks; sub f i by f_i; }} liga;
feature mark {{
  pos base a <anchor 250 700> mark @TOP <anchor 240 -10> mark @BOT;
  pos base b <anchor 260 720> mark @TOP;
  pos ligature f_i <anchor 110 710> mark @TOP <anchor 100 -5> mark @BOT
      ligComponent <anchor 390 705> mark @TOP;
}} mark;
feature mkmk {{
  pos mark [acutecomb gravecomb] <anchor 105 800> mark @TOP;
}} mkmk;
"
    );
    compile(
        test,
        &UfoSpec {
            glyphs: latin_glyphs(),
            fea,
            ..Default::default()
        },
    )
}

#[test]
fn mark_to_base_and_mark_to_mark() {
    let c = mark_font("gpos-marks-base");
    let font = LFont::new(&c.bytes).unwrap();

    let r = shape_with(&font, &c, &["mark"], &["a", "acutecomb"], &[]);
    assert_eq!((r.glyphs[1].x_offset, r.glyphs[1].y_offset), (150.0, 200.0));
    assert_eq!(r.glyphs[1].attached_to, Some(0));
    assert_eq!(r.glyphs[1].attach_kind, Some(AttachKind::Mark));
    assert_eq!(r.glyphs[0].attached_to, None);

    // both marks attach to the base under `mark` (the search for the base skips marks) ...
    let r = shape_with(&font, &c, &["mark"], &["a", "acutecomb", "gravecomb"], &[]);
    assert_eq!((r.glyphs[1].x_offset, r.glyphs[1].y_offset), (150.0, 200.0));
    assert_eq!((r.glyphs[2].x_offset, r.glyphs[2].y_offset), (130.0, 190.0));
    assert_eq!(r.glyphs[2].attached_to, Some(0));
    // ... and mkmk then re-attaches the second mark to the first
    let r = shape_with(&font, &c, &["mark", "mkmk"], &["a", "acutecomb", "gravecomb"], &[]);
    assert_eq!((r.glyphs[1].x_offset, r.glyphs[1].y_offset), (150.0, 200.0));
    assert_eq!((r.glyphs[2].x_offset, r.glyphs[2].y_offset), (-15.0, 290.0));
    assert_eq!(r.glyphs[2].attached_to, Some(1));
    assert_eq!(r.offset_from_root(2), (135.0, 490.0));
    assert_eq!(r.offset_from_root(1), (150.0, 200.0));

    // bottom and top marks on one base
    let r = shape_with(&font, &c, &["mark", "mkmk"], &["a", "dotbelowcomb", "acutecomb"], &[]);
    assert_eq!((r.glyphs[1].x_offset, r.glyphs[1].y_offset), (150.0, 10.0));
    assert_eq!(r.glyphs[1].attached_to, Some(0));
    // mkmk: the glyph before the acute is a mark that is not a mark2 -> stays on the base
    assert_eq!((r.glyphs[2].x_offset, r.glyphs[2].y_offset), (150.0, 200.0));
    assert_eq!(r.glyphs[2].attached_to, Some(0));

    // b has no bottom anchor
    let r = shape_with(&font, &c, &["mark"], &["b", "dotbelowcomb", "gravecomb"], &[]);
    assert_eq!((r.glyphs[1].x_offset, r.glyphs[1].y_offset), (0.0, 0.0));
    assert_eq!(r.glyphs[1].attached_to, None);
    assert_eq!((r.glyphs[2].x_offset, r.glyphs[2].y_offset), (140.0, 210.0));
    assert_eq!(r.glyphs[2].attached_to, Some(0));

    // a mark with nothing to attach to, and a mark after a glyph that is no base of the lookup
    let r = shape_with(&font, &c, &["mark", "mkmk"], &["acutecomb", "c", "acutecomb"], &[]);
    assert!(r.glyphs.iter().all(|g| g.attached_to.is_none()));
    // mkmk needs the *immediately* preceding glyph to be a mark
    let r = shape_with(&font, &c, &["mkmk"], &["acutecomb", "c", "gravecomb"], &[]);
    assert_eq!(r.glyphs[2].attached_to, None);
    let r = shape_with(&font, &c, &["mkmk"], &["acutecomb", "gravecomb"], &[]);
    assert_eq!(r.glyphs[1].attached_to, Some(0));
}

#[test]
fn mark_to_ligature_uses_component_tracking() {
    let c = mark_font("gpos-marks-lig");
    let font = LFont::new(&c.bytes).unwrap();

    // acute typed after f, grave after i
    let r = shape_with(&font, &c, &["liga", "mark"], &["f", "acutecomb", "i", "gravecomb"], &[]);
    assert_eq!(c.names_of(&r.gids()), ["f_i", "acutecomb", "gravecomb"]);
    assert_eq!((r.glyphs[1].x_offset, r.glyphs[1].y_offset), (10.0, 210.0));
    assert_eq!(r.glyphs[1].attached_to, Some(0));
    assert_eq!((r.glyphs[2].x_offset, r.glyphs[2].y_offset), (270.0, 195.0));
    assert_eq!(r.glyphs[2].attached_to, Some(0));

    // bottom mark on the first component has an anchor, on the second it is NULL
    let r = shape_with(&font, &c, &["liga", "mark"], &["f", "dotbelowcomb", "i"], &[]);
    assert_eq!((r.glyphs[1].x_offset, r.glyphs[1].y_offset), (10.0, 15.0));
    let r = shape_with(&font, &c, &["liga", "mark"], &["f", "i", "dotbelowcomb"], &[]);
    assert_eq!(c.names_of(&r.gids()), ["f_i", "dotbelowcomb"]);
    assert_eq!(r.glyphs[1].attached_to, None);

    // a ligature glyph that was not formed by GSUB here: marks go to the last component
    let r = shape_with(&font, &c, &["mark"], &["f_i", "acutecomb"], &[]);
    assert_eq!((r.glyphs[1].x_offset, r.glyphs[1].y_offset), (290.0, 205.0));

    // two marks on component 1, then mkmk between them
    let r = shape_with(
        &font,
        &c,
        &["liga", "mark", "mkmk"],
        &["f", "acutecomb", "gravecomb", "i", "acutecomb"],
        &[],
    );
    assert_eq!(c.names_of(&r.gids()), ["f_i", "acutecomb", "gravecomb", "acutecomb"]);
    assert_eq!((r.glyphs[1].x_offset, r.glyphs[1].y_offset), (10.0, 210.0));
    assert_eq!(r.glyphs[2].attached_to, Some(1)); // same component: mark to mark applies
    assert_eq!((r.glyphs[2].x_offset, r.glyphs[2].y_offset), (-15.0, 290.0));
    // the last acute belongs to component 2, the grave before it to component 1:
    // mark-to-mark must not connect them
    assert_eq!(r.glyphs[3].attached_to, Some(0));
    assert_eq!((r.glyphs[3].x_offset, r.glyphs[3].y_offset), (290.0, 205.0));
}

#[test]
fn mark_attachment_enumeration() {
    let c = mark_font("gpos-marks-enum");
    let font = LFont::new(&c.bytes).unwrap();
    let (all, problems) = font.mark_attachments_checked(&[]);
    assert!(problems.is_empty(), "{problems:?}");
    let find = |kind: MarkAttachKind, base: &str, comp: u16, mark: &str| {
        let hits: Vec<_> = all
            .iter()
            .filter(|m| {
                m.kind == kind
                    && m.base_gid == c.gid(base)
                    && m.component == comp
                    && m.mark_gid == c.gid(mark)
            })
            .collect();
        assert!(hits.len() <= 1, "duplicate entries for {base}/{comp}/{mark}");
        hits.first().map(|m| (m.base_anchor, m.mark_anchor))
    };
    use MarkAttachKind::*;
    assert_eq!(find(Base, "a", 0, "acutecomb"), Some(((250.0, 700.0), (100.0, 500.0))));
    assert_eq!(find(Base, "a", 0, "gravecomb"), Some(((250.0, 700.0), (120.0, 510.0))));
    assert_eq!(find(Base, "a", 0, "dotbelowcomb"), Some(((240.0, -10.0), (90.0, -20.0))));
    assert_eq!(find(Base, "b", 0, "acutecomb"), Some(((260.0, 720.0), (100.0, 500.0))));
    assert_eq!(find(Base, "b", 0, "dotbelowcomb"), None);
    assert_eq!(find(Ligature, "f_i", 0, "acutecomb"), Some(((110.0, 710.0), (100.0, 500.0))));
    assert_eq!(find(Ligature, "f_i", 1, "gravecomb"), Some(((390.0, 705.0), (120.0, 510.0))));
    assert_eq!(find(Ligature, "f_i", 0, "dotbelowcomb"), Some(((100.0, -5.0), (90.0, -20.0))));
    assert_eq!(find(Ligature, "f_i", 1, "dotbelowcomb"), None);
    assert_eq!(find(Mark, "acutecomb", 0, "gravecomb"), Some(((105.0, 800.0), (120.0, 510.0))));
    assert_eq!(find(Mark, "gravecomb", 0, "acutecomb"), Some(((105.0, 800.0), (100.0, 500.0))));
    assert_eq!(find(Mark, "dotbelowcomb", 0, "acutecomb"), None);
    // 5 base + 5 ligature (3 on component 0, 2 on component 1) + 4 mark-to-mark
    // combinations and nothing else
    assert_eq!(all.len(), 14);
}

#[test]
fn cursive_attachment() {
    let fea = format!(
        "languagesystem DFLT dflt;\nlanguagesystem latn dflt;\n{LATIN_GDEF}
feature curs {{
  pos cursive a <anchor 0 10> <anchor 480 30>;
  pos cursive b <anchor 20 50> <anchor 450 0>;
  pos cursive c <anchor 5 5> <anchor NULL>;
}} curs;
"
    );
    let c = compile(
        "gpos-cursive",
        &UfoSpec {
            glyphs: latin_glyphs(),
            fea,
            ..Default::default()
        },
    );
    let font = LFont::new(&c.bytes).unwrap();
    let r = shape_with(&font, &c, &["curs"], &["a", "b"], &[]);
    // a's advance (500) becomes its exit x (480); b is pulled left by its entry x (20)
    assert_eq!(pos(&r.glyphs[0]), (-20.0, 0.0, 0.0, 0.0));
    // b's entry (y 50) is moved onto a's exit (y 30)
    assert_eq!(pos(&r.glyphs[1]), (-20.0, 0.0, -20.0, -20.0));
    assert_eq!(r.glyphs[1].attached_to, Some(0));
    assert_eq!(r.glyphs[1].attach_kind, Some(AttachKind::Cursive));
    // c has no exit: nothing connects to it from the right
    let r = shape_with(&font, &c, &["curs"], &["c", "a"], &[]);
    assert_eq!(pos(&r.glyphs[0]), (0.0, 0.0, 0.0, 0.0));
    assert_eq!(pos(&r.glyphs[1]), (0.0, 0.0, 0.0, 0.0));
    assert_eq!(r.glyphs[1].attached_to, None);
    // but c can connect to a glyph on its left
    let r = shape_with(&font, &c, &["curs"], &["b", "c"], &[]);
    assert_eq!(pos(&r.glyphs[0]), (-50.0, 0.0, 0.0, 0.0));
    assert_eq!(pos(&r.glyphs[1]), (-5.0, 0.0, -5.0, -5.0));
}

#[test]
fn variable_kerning_matches_master_values() {
    // kerning.plist: bar/bar = -300 in WghtVar-Regular (wght 400), -200 in WghtVar-Bold (700)
    let c = compile_source("gpos-varkern", "/repo/resources/testdata/wght_var.designspace");
    let font = LFont::new(&c.bytes).unwrap();
    let bar = c.gid("bar");
    let plus = c.gid("plus");
    for script in ["DFLT", "latn"] {
        assert_eq!(font.pair_adjustment(script, "dflt", "kern", bar, bar, &[]), -300.0);
        assert_eq!(font.pair_adjustment(script, "dflt", "kern", bar, bar, &[0.0]), -300.0);
        assert_eq!(font.pair_adjustment(script, "dflt", "kern", bar, bar, &[1.0]), -200.0);
        assert_eq!(font.pair_adjustment(script, "dflt", "kern", bar, bar, &[0.5]), -250.0);
        assert_eq!(font.pair_adjustment(script, "dflt", "kern", bar, bar, &[0.25]), -275.0);
        assert_eq!(font.pair_adjustment(script, "dflt", "kern", bar, plus, &[1.0]), 0.0);
        assert_eq!(font.pair_adjustment(script, "dflt", "kern", plus, bar, &[0.3]), 0.0);
    }
}

#[test]
fn variable_kerning_with_groups_and_three_masters() {
    // A glyph+group design in the spirit of check C09, with an intermediate master.
    let glyphs = || vec![g(".notdef"), g("A").uni(0x41), g("B").uni(0x42), g("C").uni(0x43), g("D").uni(0x44)];
    let groups = || {
        vec![
            ("public.kern1.ab", vec!["A", "B"]),
            ("public.kern2.cd", vec!["C", "D"]),
        ]
    };
    let master = |group_kern: f64, exception: f64, glyph_pair: f64| UfoSpec {
        glyphs: glyphs(),
        groups: groups(),
        kerning: vec![
            ("public.kern1.ab", "public.kern2.cd", group_kern),
            ("A", "D", exception),
            ("C", "A", glyph_pair),
        ],
        ..Default::default()
    };
    let c = compile_designspace(
        "gpos-varkern3",
        &[
            (400.0, master(-50.0, 30.0, 10.0)),
            (550.0, master(-20.0, 30.0, 40.0)),
            (700.0, master(-80.0, 0.0, 20.0)),
        ],
    );
    let font = LFont::new(&c.bytes).unwrap();
    let kern = |a: &str, b: &str, at: f64| {
        font.pair_adjustment("latn", "dflt", "kern", c.gid(a), c.gid(b), &[at])
    };
    // masters sit at normalized 0, 0.5, 1
    for (at, group_kern, exception, glyph_pair) in
        [(0.0, -50.0, 30.0, 10.0), (0.5, -20.0, 30.0, 40.0), (1.0, -80.0, 0.0, 20.0)]
    {
        assert_eq!(kern("A", "C", at), group_kern, "A C at {at}");
        assert_eq!(kern("B", "C", at), group_kern, "B C at {at}");
        assert_eq!(kern("B", "D", at), group_kern, "B D at {at}");
        assert_eq!(kern("A", "D", at), exception, "A D at {at}");
        assert_eq!(kern("C", "A", at), glyph_pair, "C A at {at}");
        assert_eq!(kern("C", "B", at), 0.0, "C B at {at}");
        assert_eq!(kern("A", "A", at), 0.0, "A A at {at}");
    }
    // piecewise linear in between
    assert_eq!(kern("A", "C", 0.25), -35.0);
    assert_eq!(kern("A", "C", 0.75), -50.0);
    assert_eq!(kern("A", "D", 0.75), 15.0);
}

#[test]
fn variable_anchors_from_generated_mark_feature() {
    // No feature file: fontc writes mark/mkmk itself from the glyphs' anchors (check C10's
    // situation). Anchors move between the two masters.
    let master = |top: (f64, f64), under: (f64, f64), mark_top: (f64, f64)| UfoSpec {
        glyphs: vec![
            g(".notdef"),
            g("a").uni(0x61).anchor("top", top.0, top.1),
            g("acutecomb").uni(0x301).anchor("_top", under.0, under.1).anchor("top", mark_top.0, mark_top.1),
            g("gravecomb").uni(0x300).anchor("_top", 120.0, 510.0),
        ],
        categories: vec![("a", "base"), ("acutecomb", "mark"), ("gravecomb", "mark")],
        ..Default::default()
    };
    let c = compile_designspace(
        "gpos-varmark",
        &[
            (400.0, master((250.0, 700.0), (100.0, 500.0), (100.0, 800.0))),
            (700.0, master((260.0, 720.0), (130.0, 540.0), (100.0, 830.0))),
        ],
    );
    let font = LFont::new(&c.bytes).unwrap();
    assert_eq!(font.glyph_class(c.gid("a")), 1);
    assert_eq!(font.glyph_class(c.gid("acutecomb")), 3);

    let at = |coords: &[f64], kind: MarkAttachKind, base: &str, mark: &str| {
        let (all, problems) = font.mark_attachments_checked(coords);
        assert!(problems.is_empty(), "{problems:?}");
        let hits: Vec<_> = all
            .into_iter()
            .filter(|m| m.kind == kind && m.base_gid == c.gid(base) && m.mark_gid == c.gid(mark))
            .collect();
        // fontc registers the same mark-to-mark data under abvm and mkmk (U+0300/U+0301 are
        // also used by scripts shaped with abvm), so there may be two identical entries
        assert!(!hits.is_empty(), "{base} {mark}");
        for h in &hits {
            assert_eq!(
                (h.base_anchor, h.mark_anchor),
                (hits[0].base_anchor, hits[0].mark_anchor),
                "{base} {mark}: {hits:#?}"
            );
        }
        (hits[0].base_anchor, hits[0].mark_anchor)
    };
    use MarkAttachKind::*;
    assert_eq!(at(&[], Base, "a", "acutecomb"), ((250.0, 700.0), (100.0, 500.0)));
    assert_eq!(at(&[1.0], Base, "a", "acutecomb"), ((260.0, 720.0), (130.0, 540.0)));
    assert_eq!(at(&[0.5], Base, "a", "acutecomb"), ((255.0, 710.0), (115.0, 520.0)));
    assert_eq!(at(&[1.0], Base, "a", "gravecomb"), ((260.0, 720.0), (120.0, 510.0)));
    assert_eq!(at(&[0.5], Mark, "acutecomb", "gravecomb"), ((100.0, 815.0), (120.0, 510.0)));

    let shape_at = |coords: &[f64]| {
        let req = ShapeRequest {
            coords: coords.to_vec(),
            ..ShapeRequest::all("latn", "dflt")
        };
        let r = font.shape(&req, &c.gids(&["a", "acutecomb", "gravecomb"]));
        assert!(r.problems.is_empty(), "{:?}", r.problems);
        r
    };
    let r = shape_at(&[]);
    assert_eq!((r.glyphs[1].x_offset, r.glyphs[1].y_offset), (150.0, 200.0));
    assert_eq!(r.glyphs[1].attached_to, Some(0));
    assert_eq!((r.glyphs[2].x_offset, r.glyphs[2].y_offset), (-20.0, 290.0));
    assert_eq!(r.glyphs[2].attached_to, Some(1));
    let r = shape_at(&[1.0]);
    assert_eq!((r.glyphs[1].x_offset, r.glyphs[1].y_offset), (130.0, 180.0));
    assert_eq!((r.glyphs[2].x_offset, r.glyphs[2].y_offset), (-20.0, 320.0));
    let r = shape_at(&[0.5]);
    assert_eq!((r.glyphs[1].x_offset, r.glyphs[1].y_offset), (140.0, 190.0));
    assert_eq!((r.glyphs[2].x_offset, r.glyphs[2].y_offset), (-20.0, 305.0));
}
