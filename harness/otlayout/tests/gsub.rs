//! GSUB behaviour on fonts compiled by the product binary from small feature files.
//! Every expectation is derived by hand from the feature file and the OpenType spec.

mod common;

use common::*;
use otlayout::{FeatureSel, LFont, ShapeRequest, ShapeResult, Table};

fn shape(font: &LFont, c: &Compiled, feature: &str, input: &[&str]) -> ShapeResult {
    let req = ShapeRequest {
        script: "latn".into(),
        lang: "dflt".into(),
        features: FeatureSel::Only(vec![feature.to_string()]),
        coords: vec![],
        gsub: true,
        gpos: false,
        alternate_index: 0,
    };
    let r = font.shape(&req, &c.gids(input));
    assert!(r.problems.is_empty(), "problems: {:?}", r.problems);
    r
}

fn shaped_names(font: &LFont, c: &Compiled, feature: &str, input: &[&str]) -> Vec<String> {
    c.names_of(&shape(font, c, feature, input).gids())
}

fn basic_font() -> Compiled {
    let fea = format!(
        "languagesystem DFLT dflt;\nlanguagesystem latn dflt;\n{LATIN_GDEF}
feature ss01 {{ sub a by a.alt; sub b by b.alt; }} ss01;
feature ccmp {{ sub f_i by f i; }} ccmp;
feature salt {{ sub a from [a.alt a.alt2]; }} salt;
feature liga {{ sub f f i by f_f_i; sub f i by f_i; sub f f by f_f; }} liga;
feature ss02 {{ lookup EXT useExtension {{ sub c by d; }} EXT; }} ss02;
"
    );
    compile(
        "gsub-basic",
        &UfoSpec {
            glyphs: latin_glyphs(),
            fea,
            ..Default::default()
        },
    )
}

#[test]
fn single_multiple_alternate_ligature_extension() {
    let c = basic_font();
    let font = LFont::new(&c.bytes).unwrap();

    // script / feature enumeration
    let scripts = font.scripts(Table::Gsub);
    assert_eq!(
        scripts,
        vec![
            ("DFLT".to_string(), vec!["dflt".to_string()]),
            ("latn".to_string(), vec!["dflt".to_string()])
        ]
    );
    let mut tags: Vec<String> = font
        .features_for(Table::Gsub, "latn", "dflt", &[])
        .into_iter()
        .map(|(t, _)| t)
        .collect();
    tags.sort();
    assert_eq!(tags, ["ccmp", "liga", "salt", "ss01", "ss02"]);
    // unknown script falls back to DFLT, unknown language to the default langsys
    assert_eq!(
        font.features_for(Table::Gsub, "grek", "ELL", &[]),
        font.features_for(Table::Gsub, "DFLT", "dflt", &[])
    );

    // type 1
    assert_eq!(shaped_names(&font, &c, "ss01", &["a", "b", "c"]), ["a.alt", "b.alt", "c"]);
    // type 2
    assert_eq!(shaped_names(&font, &c, "ccmp", &["f_i", "a", "f_i"]), ["f", "i", "a", "f", "i"]);
    // type 3: first alternate is chosen, the set is available structurally
    assert_eq!(shaped_names(&font, &c, "salt", &["a", "b"]), ["a.alt", "b"]);
    let (_, salt_lookups) = font
        .features_for(Table::Gsub, "latn", "dflt", &[])
        .into_iter()
        .find(|(t, _)| t == "salt")
        .unwrap();
    assert_eq!(
        font.alternates(salt_lookups[0], c.gid("a")),
        Some(c.gids(&["a.alt", "a.alt2"]))
    );
    assert_eq!(font.alternates(salt_lookups[0], c.gid("b")), None);
    let second = ShapeRequest {
        features: FeatureSel::Only(vec!["salt".into()]),
        alternate_index: 1,
        ..ShapeRequest::all("latn", "dflt")
    };
    assert_eq!(c.names_of(&font.shape(&second, &c.gids(&["a", "b"])).gids()), ["a.alt2", "b"]);
    let third = ShapeRequest {
        alternate_index: 2,
        ..second.clone()
    };
    assert_eq!(c.names_of(&font.shape(&third, &c.gids(&["a"])).gids()), ["a"]);
    // type 4: longest ligature first, cursor moves past the consumed components
    assert_eq!(
        shaped_names(&font, &c, "liga", &["f", "f", "i", "f", "i", "f", "f", "a", "f"]),
        ["f_f_i", "f_i", "f_f", "a", "f"]
    );
    let r = shape(&font, &c, "liga", &["f", "f", "i"]);
    assert_eq!(r.glyphs[0].lig_components, 3);
    assert_eq!(r.glyphs[0].cluster, 0);
    // type 7 (extension) wraps a type 1 lookup
    assert_eq!(shaped_names(&font, &c, "ss02", &["c", "a"]), ["d", "a"]);
    let (_, ext_lookups) = font
        .features_for(Table::Gsub, "latn", "dflt", &[])
        .into_iter()
        .find(|(t, _)| t == "ss02")
        .unwrap();
    let gsub = write_fonts::read::TableProvider::gsub(
        &write_fonts::read::FontRef::new(&c.bytes).unwrap(),
    )
    .unwrap();
    let raw = gsub.lookup_list().unwrap().lookups().get(ext_lookups[0] as usize).unwrap();
    assert_eq!(raw.lookup_type(), 7, "fixture should really use an extension lookup");
    assert_eq!(font.lookup_info(Table::Gsub, ext_lookups[0]).unwrap().0, 1);

    // a feature that is not selected does nothing; lookups_applied tells which matched
    let r = shape(&font, &c, "ss01", &["c"]);
    assert_eq!(r.lookups_selected.len(), 1);
    assert!(r.lookups_applied.is_empty());
}

#[test]
fn all_features_apply_in_lookup_order() {
    // ss01 (lookup 0: a -> a.alt) precedes ss03 (lookup 1: a.alt -> a.alt2) in the lookup
    // list, so both apply in turn; with the features declared the other way round the
    // second substitution would not see a.alt.
    let fea = format!(
        "languagesystem DFLT dflt;\n{LATIN_GDEF}
feature ss01 {{ sub a by a.alt; }} ss01;
feature ss03 {{ sub a.alt by a.alt2; }} ss03;
feature ss04 {{ sub b.alt by c; }} ss04;
feature ss05 {{ sub b by b.alt; }} ss05;
"
    );
    let c = compile(
        "gsub-order",
        &UfoSpec {
            glyphs: latin_glyphs(),
            fea,
            ..Default::default()
        },
    );
    let font = LFont::new(&c.bytes).unwrap();
    let r = font.shape(&ShapeRequest::all("DFLT", "dflt"), &c.gids(&["a", "b"]));
    // b -> b.alt happens in a later lookup than b.alt -> c, so it stays b.alt
    assert_eq!(c.names_of(&r.gids()), ["a.alt2", "b.alt"]);
    assert_eq!(r.lookups_selected.len(), 4);
    assert_eq!(r.lookups_applied.len(), 3);
}

#[test]
fn chained_context_with_ignore() {
    let fea = format!(
        "languagesystem DFLT dflt;\nlanguagesystem latn dflt;\n{LATIN_GDEF}
feature calt {{
  ignore sub a b' c;
  sub b' c by b.alt;
}} calt;
"
    );
    let c = compile(
        "gsub-ignore",
        &UfoSpec {
            glyphs: latin_glyphs(),
            fea,
            ..Default::default()
        },
    );
    let font = LFont::new(&c.bytes).unwrap();
    assert_eq!(shaped_names(&font, &c, "calt", &["b", "c"]), ["b.alt", "c"]);
    assert_eq!(shaped_names(&font, &c, "calt", &["a", "b", "c"]), ["a", "b", "c"]);
    assert_eq!(shaped_names(&font, &c, "calt", &["d", "b", "c"]), ["d", "b.alt", "c"]);
    assert_eq!(shaped_names(&font, &c, "calt", &["b", "d"]), ["b", "d"]);
    assert_eq!(
        shaped_names(&font, &c, "calt", &["a", "b", "c", "b", "c"]),
        ["a", "b", "c", "b.alt", "c"]
    );
    // marks are not ignored by this lookup: they break the context
    assert_eq!(
        shaped_names(&font, &c, "calt", &["b", "acutecomb", "c"]),
        ["b", "acutecomb", "c"]
    );
}

#[test]
fn backtrack_is_matched_in_reverse_order() {
    // backtrack "a b" means: ... a b [c]; the table stores it as (b, a)
    let fea = format!(
        "languagesystem DFLT dflt;\nlanguagesystem latn dflt;\n{LATIN_GDEF}
feature calt {{
  sub a b c' d f by d;
}} calt;
"
    );
    let c = compile(
        "gsub-backtrack",
        &UfoSpec {
            glyphs: latin_glyphs(),
            fea,
            ..Default::default()
        },
    );
    let font = LFont::new(&c.bytes).unwrap();
    assert_eq!(
        shaped_names(&font, &c, "calt", &["a", "b", "c", "d", "f"]),
        ["a", "b", "d", "d", "f"]
    );
    assert_eq!(
        shaped_names(&font, &c, "calt", &["b", "a", "c", "d", "f"]),
        ["b", "a", "c", "d", "f"]
    );
    assert_eq!(
        shaped_names(&font, &c, "calt", &["a", "b", "c", "f", "d"]),
        ["a", "b", "c", "f", "d"]
    );
    assert_eq!(shaped_names(&font, &c, "calt", &["b", "c", "d", "f"]), ["b", "c", "d", "f"]);
}

#[test]
fn ignore_marks_ligature_keeps_marks_and_tracks_components() {
    let fea = format!(
        "languagesystem DFLT dflt;\nlanguagesystem latn dflt;\n{LATIN_GDEF}
feature liga {{ lookupflag IgnoreMarks; sub f i by f_i; }} liga;
feature rlig {{ sub f i by f_i; }} rlig;
"
    );
    let c = compile(
        "gsub-ignoremarks",
        &UfoSpec {
            glyphs: latin_glyphs(),
            fea,
            ..Default::default()
        },
    );
    let font = LFont::new(&c.bytes).unwrap();
    assert_eq!(font.glyph_class(c.gid("a")), 1);
    assert_eq!(font.glyph_class(c.gid("f_i")), 2);
    assert_eq!(font.glyph_class(c.gid("acutecomb")), 3);
    assert_eq!(font.glyph_class(c.gid(".notdef")), 0);

    let r = shape(&font, &c, "liga", &["f", "acutecomb", "i", "gravecomb", "a"]);
    assert_eq!(c.names_of(&r.gids()), ["f_i", "acutecomb", "gravecomb", "a"]);
    let lig = &r.glyphs[0];
    assert_eq!(lig.lig_components, 2);
    assert_ne!(lig.lig_id, 0);
    // the acute sat after component 1 (f)
    assert_eq!(r.glyphs[1].lig_id, lig.lig_id);
    assert_eq!(r.glyphs[1].lig_comp_index, 1);
    // the grave came after the last component and carries no component info
    assert_eq!(r.glyphs[2].lig_id, 0);
    assert_eq!(r.glyphs[2].lig_comp_index, 0);

    // two marks on the first component
    let r = shape(&font, &c, "liga", &["f", "acutecomb", "gravecomb", "i"]);
    assert_eq!(c.names_of(&r.gids()), ["f_i", "acutecomb", "gravecomb"]);
    assert_eq!(r.glyphs[1].lig_comp_index, 1);
    assert_eq!(r.glyphs[2].lig_comp_index, 1);

    // without the flag the mark blocks the ligature
    assert_eq!(
        shaped_names(&font, &c, "rlig", &["f", "acutecomb", "i"]),
        ["f", "acutecomb", "i"]
    );
    assert_eq!(shaped_names(&font, &c, "rlig", &["f", "i"]), ["f_i"]);
    // a lookup that ignores marks is not applied *at* a mark
    assert_eq!(shaped_names(&font, &c, "liga", &["acutecomb", "f", "i"]), ["acutecomb", "f_i"]);
}

#[test]
#[allow(clippy::useless_format)]
fn mark_filtering_set_and_mark_attachment_type() {
    let fea = format!(
        "languagesystem DFLT dflt;\nlanguagesystem latn dflt;
@TOP = [acutecomb gravecomb];
@BOTTOM = [dotbelowcomb];
table GDEF {{
  GlyphClassDef [a b c d f i l a.alt a.alt2 b.alt], [f_i f_f f_f_i], [acutecomb gravecomb dotbelowcomb], ;
}} GDEF;
feature ss01 {{ lookupflag UseMarkFilteringSet @TOP; sub f i by f_i; }} ss01;
feature ss02 {{ lookupflag MarkAttachmentType @TOP; sub f i by f_i; }} ss02;
feature ss03 {{ lookupflag MarkAttachmentType @BOTTOM; sub f i by f_i; }} ss03;
feature ss04 {{ lookupflag IgnoreBaseGlyphs; sub acutecomb gravecomb by dotbelowcomb; }} ss04;
feature ss05 {{ lookupflag IgnoreLigatures; sub a b by c; }} ss05;
"
    );
    let c = compile(
        "gsub-markfilter",
        &UfoSpec {
            glyphs: latin_glyphs(),
            fea,
            ..Default::default()
        },
    );
    let font = LFont::new(&c.bytes).unwrap();
    for feature in ["ss01", "ss02"] {
        // marks outside the set / of another attachment class are skipped ...
        assert_eq!(
            shaped_names(&font, &c, feature, &["f", "dotbelowcomb", "i"]),
            ["f_i", "dotbelowcomb"],
            "{feature}"
        );
        // ... marks inside are seen and break the sequence
        assert_eq!(
            shaped_names(&font, &c, feature, &["f", "acutecomb", "i"]),
            ["f", "acutecomb", "i"],
            "{feature}"
        );
        assert_eq!(
            shaped_names(&font, &c, feature, &["f", "dotbelowcomb", "gravecomb", "i"]),
            ["f", "dotbelowcomb", "gravecomb", "i"],
            "{feature}"
        );
    }
    assert_eq!(
        shaped_names(&font, &c, "ss03", &["f", "acutecomb", "i"]),
        ["f_i", "acutecomb"]
    );
    assert_eq!(
        shaped_names(&font, &c, "ss03", &["f", "dotbelowcomb", "i"]),
        ["f", "dotbelowcomb", "i"]
    );
    assert!(font.mark_attach_class(c.gid("acutecomb")) != 0);
    assert_eq!(
        font.mark_attach_class(c.gid("acutecomb")),
        font.mark_attach_class(c.gid("gravecomb"))
    );
    assert_ne!(
        font.mark_attach_class(c.gid("acutecomb")),
        font.mark_attach_class(c.gid("dotbelowcomb"))
    );
    // IgnoreBaseGlyphs: the base between the marks is skipped and stays behind the result
    assert_eq!(
        shaped_names(&font, &c, "ss04", &["acutecomb", "a", "gravecomb"]),
        ["dotbelowcomb", "a"]
    );
    // IgnoreLigatures
    assert_eq!(shaped_names(&font, &c, "ss05", &["a", "f_i", "b"]), ["c", "f_i"]);
    assert_eq!(shaped_names(&font, &c, "ss05", &["a", "d", "b"]), ["a", "d", "b"]);
}

#[test]
fn nested_lookups_and_position_rebasing() {
    let fea = format!(
        "languagesystem DFLT dflt;\nlanguagesystem latn dflt;\n{LATIN_GDEF}
lookup EXPAND {{ sub f_i by f i; }} EXPAND;
lookup ALT {{ sub a by a.alt; }} ALT;
lookup BALT {{ sub b by b.alt; }} BALT;
lookup ITOL {{ sub i by l; }} ITOL;
lookup LIG {{ sub f i by f_i; }} LIG;
feature ss01 {{ sub a' lookup ALT f' lookup LIG i'; }} ss01;
feature ss02 {{ sub f_i' lookup EXPAND a' lookup ITOL; }} ss02;
feature ss03 {{ sub f' lookup LIG i' a' lookup ALT; }} ss03;
feature ss04 {{ sub a' lookup ALT b' lookup BALT; sub b' lookup BALT c; }} ss04;
feature ss05 {{ sub c' lookup ALT d' lookup BALT; }} ss05;
"
    );
    let c = compile(
        "gsub-nested",
        &UfoSpec {
            glyphs: latin_glyphs(),
            fea,
            ..Default::default()
        },
    );
    let font = LFont::new(&c.bytes).unwrap();
    // records (0: ALT) (1: LIG): a -> a.alt, then f i -> f_i at sequence index 1; the
    // cursor ends behind the (shortened) input, so the trailing a is examined next
    assert_eq!(
        shaped_names(&font, &c, "ss01", &["a", "f", "i", "a", "f", "i"]),
        ["a.alt", "f_i", "a.alt", "f_i"]
    );
    // records (0: EXPAND) (1: ITOL): after f_i -> f i the inserted glyph becomes sequence
    // index 1, so ITOL hits the new i (HarfBuzz position rebasing), a is left alone
    assert_eq!(shaped_names(&font, &c, "ss02", &["f_i", "a"]), ["f", "l", "a"]);
    // records (0: LIG) (2: ALT): the ligature removes one matched position, sequence
    // index 2 no longer exists and ALT is not applied
    assert_eq!(shaped_names(&font, &c, "ss03", &["f", "i", "a"]), ["f_i", "a"]);
    // two rules in one lookup: the first matching rule wins at a position and the cursor
    // jumps past its whole input
    assert_eq!(shaped_names(&font, &c, "ss04", &["a", "b", "c"]), ["a.alt", "b.alt", "c"]);
    assert_eq!(shaped_names(&font, &c, "ss04", &["b", "c"]), ["b.alt", "c"]);
    assert_eq!(shaped_names(&font, &c, "ss04", &["b", "b", "c"]), ["b", "b.alt", "c"]);
    // nested lookups that do not cover the glyph at their index simply do nothing
    assert_eq!(shaped_names(&font, &c, "ss05", &["c", "d"]), ["c", "d"]);
}

#[test]
fn reverse_chaining_runs_right_to_left() {
    let fea = format!(
        "languagesystem DFLT dflt;\nlanguagesystem latn dflt;\n{LATIN_GDEF}
feature rclt {{ rsub a' a.alt by a.alt; }} rclt;
feature ss01 {{ sub a' a.alt by a.alt; }} ss01;
"
    );
    let c = compile(
        "gsub-reverse",
        &UfoSpec {
            glyphs: latin_glyphs(),
            fea,
            ..Default::default()
        },
    );
    let font = LFont::new(&c.bytes).unwrap();
    let (_, lookups) = font
        .features_for(Table::Gsub, "latn", "dflt", &[])
        .into_iter()
        .find(|(t, _)| t == "rclt")
        .unwrap();
    assert_eq!(font.lookup_info(Table::Gsub, lookups[0]).unwrap().0, 8);
    // right to left the substitution ripples all the way to the front ...
    assert_eq!(
        shaped_names(&font, &c, "rclt", &["a", "a", "a", "a.alt", "a"]),
        ["a.alt", "a.alt", "a.alt", "a.alt", "a"]
    );
    // ... the same rule as a forward chaining lookup only changes the last a
    assert_eq!(
        shaped_names(&font, &c, "ss01", &["a", "a", "a", "a.alt", "a"]),
        ["a", "a", "a.alt", "a.alt", "a"]
    );
}

#[test]
fn script_and_language_selection() {
    let fea = format!(
        "languagesystem DFLT dflt;\nlanguagesystem latn dflt;\nlanguagesystem latn TRK;\n{LATIN_GDEF}
feature locl {{
  script latn;
  language TRK;
  sub i by l;
}} locl;
feature ss01 {{ sub a by a.alt; }} ss01;
"
    );
    let c = compile(
        "gsub-langsys",
        &UfoSpec {
            glyphs: latin_glyphs(),
            fea,
            ..Default::default()
        },
    );
    let font = LFont::new(&c.bytes).unwrap();
    assert_eq!(
        font.scripts(Table::Gsub),
        vec![
            ("DFLT".to_string(), vec!["dflt".to_string()]),
            ("latn".to_string(), vec!["dflt".to_string(), "TRK".to_string()])
        ]
    );
    let shape_in = |script: &str, lang: &str| {
        let r = font.shape(&ShapeRequest::all(script, lang), &c.gids(&["i", "a"]));
        c.names_of(&r.gids())
    };
    assert_eq!(shape_in("latn", "TRK"), ["l", "a.alt"]);
    assert_eq!(shape_in("latn", "TRK "), ["l", "a.alt"]);
    assert_eq!(shape_in("latn", "dflt"), ["i", "a.alt"]);
    assert_eq!(shape_in("latn", "AZE"), ["i", "a.alt"]);
    assert_eq!(shape_in("DFLT", "dflt"), ["i", "a.alt"]);
    assert_eq!(shape_in("cyrl", "TRK"), ["i", "a.alt"]);

    // DefaultOnPlus: locl is default-on, ss01 is not
    let req = ShapeRequest {
        features: FeatureSel::DefaultOnPlus(vec![]),
        ..ShapeRequest::all("latn", "TRK")
    };
    assert_eq!(c.names_of(&font.shape(&req, &c.gids(&["i", "a"])).gids()), ["l", "a"]);
    let req = ShapeRequest {
        features: FeatureSel::DefaultOnPlus(vec!["ss01".into()]),
        ..ShapeRequest::all("latn", "TRK")
    };
    assert_eq!(c.names_of(&font.shape(&req, &c.gids(&["i", "a"])).gids()), ["l", "a.alt"]);
}
