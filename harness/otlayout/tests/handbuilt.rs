//! Tables assembled directly with write-fonts, to exercise formats and situations the
//! product compiler does not emit (context formats 1 and 2, coverage format 2, class
//! format 1, delta single substitution, hinting Device tables, multi-axis variation stores
//! with intermediate regions and long words, condition sets on two axes, required features)
//! and the engine's termination guards. Expectations are hand-computed from the spec.

use otlayout::{Buffer, FeatureSel, LFont, ShapeRequest, Table};
use write_fonts::{
    FontBuilder,
    tables::{
        gdef::{Gdef, MarkGlyphSets},
        gpos::{
            AnchorTable, BaseArray, BaseRecord, Class1Record, Class2Record, Gpos, MarkArray,
            MarkBasePosFormat1, MarkRecord, PairPos, PairSet, PairValueRecord, PositionLookup,
            SinglePos, ValueRecord,
        },
        gsub::{
            Gsub, Ligature, LigatureSet, LigatureSubstFormat1, MultipleSubstFormat1, Sequence,
            SingleSubst, SubstitutionLookup,
        },
        layout::{
            ChainedClassSequenceRule, ChainedClassSequenceRuleSet, ChainedSequenceContext,
            ChainedSequenceRule, ChainedSequenceRuleSet, ClassDef, ClassRangeRecord,
            ClassSequenceRule, ClassSequenceRuleSet, Condition, ConditionSet, CoverageTable,
            DeviceOrVariationIndex, Feature, FeatureList, FeatureRecord,
            FeatureTableSubstitution, FeatureTableSubstitutionRecord, FeatureVariationRecord,
            FeatureVariations, LangSys, Lookup, LookupFlag, LookupList, RangeRecord, Script,
            ScriptList, ScriptRecord, SequenceContext, SequenceLookupRecord, SequenceRule,
            SequenceRuleSet,
        },
        variations::{
            ItemVariationData, ItemVariationStore, RegionAxisCoordinates, VariationRegion,
            VariationRegionList,
        },
    },
    types::{F2Dot14, GlyphId16, Tag},
};

fn g(n: u16) -> GlyphId16 {
    GlyphId16::new(n)
}
fn gs(ns: &[u16]) -> Vec<GlyphId16> {
    ns.iter().map(|n| g(*n)).collect()
}
fn cov(ns: &[u16]) -> CoverageTable {
    CoverageTable::format_1(gs(ns))
}
fn rec(seq: u16, lookup: u16) -> SequenceLookupRecord {
    SequenceLookupRecord::new(seq, lookup)
}
fn f2(v: f64) -> F2Dot14 {
    F2Dot14::from_f32(v as f32)
}

/// Script list with DFLT/dflt -> all features (one required, if given).
fn scripts(feature_count: u16, required: Option<u16>) -> ScriptList {
    let mut langsys = LangSys::new(
        (0..feature_count)
            .filter(|i| Some(*i) != required)
            .collect(),
    );
    if let Some(r) = required {
        langsys.required_feature_index = r;
    }
    ScriptList::new(vec![ScriptRecord::new(
        Tag::new(b"DFLT"),
        Script::new(Some(langsys), vec![]),
    )])
}

fn features(list: &[(&[u8; 4], &[u16])]) -> FeatureList {
    FeatureList::new(
        list.iter()
            .map(|(tag, lookups)| {
                FeatureRecord::new(Tag::new(tag), Feature::new(None, lookups.to_vec()))
            })
            .collect(),
    )
}

/// GSUB with a single feature `test` that references `feature_lookups`.
fn gsub_with(lookups: Vec<SubstitutionLookup>, feature_lookups: &[u16]) -> Gsub {
    Gsub::new(
        scripts(1, None),
        features(&[(b"test", feature_lookups)]),
        LookupList::new(lookups),
    )
}

fn build(gsub: Option<&Gsub>, gpos: Option<&Gpos>, gdef: Option<&Gdef>) -> Vec<u8> {
    let mut b = FontBuilder::new();
    if let Some(t) = gsub {
        b.add_table(t).unwrap();
    }
    if let Some(t) = gpos {
        b.add_table(t).unwrap();
    }
    if let Some(t) = gdef {
        b.add_table(t).unwrap();
    }
    b.build()
}

fn run(bytes: &[u8], input: &[u16]) -> Vec<u16> {
    let font = LFont::new(bytes).unwrap();
    let r = font.shape(&ShapeRequest::all("DFLT", "dflt"), input);
    assert!(r.problems.is_empty(), "{:?}", r.problems);
    r.gids()
}

fn ctx_lookup(flag: LookupFlag, subtable: SequenceContext) -> SubstitutionLookup {
    SubstitutionLookup::Contextual(Lookup::new(flag, vec![subtable.into()]))
}

fn chain_lookup(flag: LookupFlag, subtable: ChainedSequenceContext) -> SubstitutionLookup {
    SubstitutionLookup::ChainContextual(Lookup::new(flag, vec![subtable.into()]))
}

/// Single substitution "+100" for glyphs 1..=5 (format 2).
fn plus100() -> SubstitutionLookup {
    SubstitutionLookup::Single(Lookup::new(
        LookupFlag::empty(),
        vec![SingleSubst::format_2(
            cov(&[1, 2, 3, 4, 5]),
            gs(&[101, 102, 103, 104, 105]),
        )],
    ))
}

#[test]
fn single_subst_delta_and_range_coverage() {
    let ranges = || {
        CoverageTable::format_2(vec![
            RangeRecord::new(g(2), g(2), 0),
            RangeRecord::new(g(10), g(12), 1),
            RangeRecord::new(g(20), g(21), 4),
        ])
    };
    // lookup 0: format 1, delta -5 (wraps modulo 65536); lookup 1: format 2 by coverage index
    let delta = SubstitutionLookup::Single(Lookup::new(
        LookupFlag::empty(),
        vec![SingleSubst::format_1(ranges(), -5)],
    ));
    let bytes = build(Some(&gsub_with(vec![delta], &[0])), None, None);
    assert_eq!(
        run(&bytes, &[2, 9, 10, 11, 12, 13, 20, 21, 22]),
        [65533, 9, 5, 6, 7, 13, 15, 16, 22]
    );
    let indexed = SubstitutionLookup::Single(Lookup::new(
        LookupFlag::empty(),
        vec![SingleSubst::format_2(
            ranges(),
            gs(&[100, 101, 102, 103, 104, 105]),
        )],
    ));
    let bytes = build(Some(&gsub_with(vec![indexed], &[0])), None, None);
    assert_eq!(
        run(&bytes, &[2, 10, 12, 13, 20, 21, 19]),
        [100, 101, 103, 13, 104, 105, 19]
    );
}

#[test]
fn coverage_and_class_def_primitives() {
    use write_fonts::{dump_table, read::{FontData, FontRead, tables::layout as rl}};
    let bytes = dump_table(&CoverageTable::format_2(vec![
        RangeRecord::new(g(2), g(2), 0),
        RangeRecord::new(g(10), g(12), 1),
    ]))
    .unwrap();
    let c = rl::CoverageTable::read(FontData::new(&bytes)).unwrap();
    assert_eq!(otlayout::cov::coverage_index(&c, 2), Some(0));
    assert_eq!(otlayout::cov::coverage_index(&c, 11), Some(2));
    assert_eq!(otlayout::cov::coverage_index(&c, 13), None);
    assert_eq!(otlayout::cov::coverage_index(&c, 0), None);
    assert_eq!(otlayout::cov::coverage_glyphs(&c), [2, 10, 11, 12]);
    let bytes = dump_table(&cov(&[3, 7, 9])).unwrap();
    let c = rl::CoverageTable::read(FontData::new(&bytes)).unwrap();
    assert_eq!(otlayout::cov::coverage_index(&c, 7), Some(1));
    assert_eq!(otlayout::cov::coverage_index(&c, 8), None);
    assert_eq!(otlayout::cov::coverage_glyphs(&c), [3, 7, 9]);

    let bytes = dump_table(&ClassDef::format_1(g(5), vec![2, 0, 7])).unwrap();
    let cd = rl::ClassDef::read(FontData::new(&bytes)).unwrap();
    let classes: Vec<u16> = (3..=9).map(|gid| otlayout::cov::class_of(&cd, gid)).collect();
    assert_eq!(classes, [0, 0, 2, 0, 7, 0, 0]);
    let bytes = dump_table(&ClassDef::format_2(vec![
        ClassRangeRecord::new(g(4), g(5), 3),
        ClassRangeRecord::new(g(8), g(8), 1),
    ]))
    .unwrap();
    let cd = rl::ClassDef::read(FontData::new(&bytes)).unwrap();
    let classes: Vec<u16> = (3..=9).map(|gid| otlayout::cov::class_of(&cd, gid)).collect();
    assert_eq!(classes, [0, 3, 3, 0, 0, 1, 0]);
}

#[test]
fn first_matching_subtable_wins() {
    // two subtables covering glyph 1 differently, a third covering only glyph 2
    let lookup = SubstitutionLookup::Single(Lookup::new(
        LookupFlag::empty(),
        vec![
            SingleSubst::format_2(cov(&[1]), gs(&[50])),
            SingleSubst::format_2(cov(&[1, 2]), gs(&[60, 61])),
            SingleSubst::format_2(cov(&[2, 3]), gs(&[70, 71])),
        ],
    ));
    let bytes = build(Some(&gsub_with(vec![lookup], &[0])), None, None);
    assert_eq!(run(&bytes, &[1, 2, 3, 4]), [50, 61, 71, 4]);
}

#[test]
fn lookups_sorted_and_deduplicated_across_features() {
    // lookup 0: 1 -> 2, lookup 1: 2 -> 3, lookup 2: 3 -> 1
    let single = |from: u16, to: u16| {
        SubstitutionLookup::Single(Lookup::new(
            LookupFlag::empty(),
            vec![SingleSubst::format_2(cov(&[from]), gs(&[to]))],
        ))
    };
    let gsub = Gsub::new(
        scripts(3, Some(2)),
        features(&[(b"aaaa", &[2, 0]), (b"bbbb", &[0, 1]), (b"rqrd", &[1])]),
        LookupList::new(vec![single(1, 2), single(2, 3), single(3, 1)]),
    );
    let bytes = build(Some(&gsub), None, None);
    let font = LFont::new(&bytes).unwrap();
    let all = ShapeRequest::all("DFLT", "dflt");
    assert_eq!(font.collect_lookups(Table::Gsub, &all), [0, 1, 2]);
    // 1 -> 2 -> 3 -> 1 when each lookup runs exactly once, in index order
    let r = font.shape(&all, &[1, 2, 3]);
    assert_eq!(r.gids(), [1, 1, 1]);
    // the required feature is part of All and DefaultOnPlus, but of Only just when named
    let entries = font.feature_entries(Table::Gsub, "DFLT", "dflt", &[]);
    assert_eq!(entries.len(), 3);
    assert!(entries[2].required && entries[2].tag == "rqrd");
    let only = |tags: &[&str]| ShapeRequest {
        features: FeatureSel::Only(tags.iter().map(|s| s.to_string()).collect()),
        ..all.clone()
    };
    assert_eq!(font.collect_lookups(Table::Gsub, &only(&["aaaa"])), [0, 2]);
    assert_eq!(font.shape(&only(&["aaaa"]), &[1, 2, 3]).gids(), [2, 2, 1]);
    let default_plus = ShapeRequest {
        features: FeatureSel::DefaultOnPlus(vec!["bbbb".into()]),
        ..all.clone()
    };
    assert_eq!(font.collect_lookups(Table::Gsub, &default_plus), [0, 1]);
}

#[test]
fn context_format_1_glyph_rules() {
    let context = ctx_lookup(LookupFlag::empty(), SequenceContext::format_1(
            cov(&[1, 2]),
            vec![
                // first glyph 1: "1 2 3" -> lookup 1 at positions 0 and 2; "1 2" -> at position 1
                Some(SequenceRuleSet::new(vec![
                    SequenceRule::new(gs(&[2, 3]), vec![rec(0, 1), rec(2, 1)]),
                    SequenceRule::new(gs(&[2]), vec![rec(1, 1)]),
                ])),
                // first glyph 2: covered, but no rules
                None,
            ],
        ));
    let bytes = build(Some(&gsub_with(vec![context, plus100()], &[0])), None, None);
    assert_eq!(run(&bytes, &[1, 2, 3]), [101, 2, 103]);
    assert_eq!(run(&bytes, &[1, 2, 4]), [1, 102, 4]);
    assert_eq!(run(&bytes, &[2, 1, 2]), [2, 1, 102]);
    assert_eq!(run(&bytes, &[1, 3]), [1, 3]);
    // the cursor moves past the whole matched input: the second "1 2 3" starts at index 3
    assert_eq!(run(&bytes, &[1, 2, 3, 1, 2, 3]), [101, 2, 103, 101, 2, 103]);
    assert_eq!(run(&bytes, &[1, 2, 1, 2, 3]), [1, 102, 101, 2, 103]);
}

#[test]
fn context_format_2_class_rules_and_class_zero() {
    // classes (format 1, starting at glyph 1): 1->1, 2->2, 3->2, 4->0, 5->1; everything else 0
    let classes = ClassDef::format_1(g(1), vec![1, 2, 2, 0, 1]);
    let context = ctx_lookup(LookupFlag::empty(), SequenceContext::format_2(
            cov(&[1, 4, 5]),
            classes,
            vec![
                // class 0 first glyph (here: glyph 4, the only covered one): followed by class 2
                Some(ClassSequenceRuleSet::new(vec![ClassSequenceRule::new(
                    vec![2],
                    vec![rec(1, 1)],
                )])),
                // class 1 first glyph: followed by class 2, class 2
                Some(ClassSequenceRuleSet::new(vec![ClassSequenceRule::new(
                    vec![2, 2],
                    vec![rec(0, 1)],
                )])),
                None,
            ],
        ));
    let bytes = build(Some(&gsub_with(vec![context, plus100()], &[0])), None, None);
    assert_eq!(run(&bytes, &[1, 2, 3]), [101, 2, 3]);
    assert_eq!(run(&bytes, &[5, 3, 2]), [105, 3, 2]);
    assert_eq!(run(&bytes, &[1, 2, 4]), [1, 2, 4]);
    assert_eq!(run(&bytes, &[4, 3]), [4, 103]);
    // glyph 6 is class 0 as well but not covered
    assert_eq!(run(&bytes, &[6, 3]), [6, 3]);
    // class 2 glyphs are not covered, and their rule set is NULL anyway
    assert_eq!(run(&bytes, &[2, 2, 2]), [2, 2, 2]);
}

#[test]
fn chain_format_1_and_backtrack_order() {
    let chain = chain_lookup(LookupFlag::empty(), ChainedSequenceContext::format_1(
            cov(&[2]),
            vec![Some(ChainedSequenceRuleSet::new(vec![
                // backtrack is stored nearest-first: glyph 1 directly before, glyph 9 before it
                ChainedSequenceRule::new(gs(&[1, 9]), gs(&[3]), gs(&[4, 5]), vec![rec(1, 1)]),
            ]))],
        ));
    let bytes = build(Some(&gsub_with(vec![chain, plus100()], &[0])), None, None);
    assert_eq!(run(&bytes, &[9, 1, 2, 3, 4, 5]), [9, 1, 2, 103, 4, 5]);
    assert_eq!(run(&bytes, &[1, 9, 2, 3, 4, 5]), [1, 9, 2, 3, 4, 5]);
    assert_eq!(run(&bytes, &[9, 1, 2, 3, 5, 4]), [9, 1, 2, 3, 5, 4]);
    assert_eq!(run(&bytes, &[1, 2, 3, 4, 5]), [1, 2, 3, 4, 5]);
    assert_eq!(run(&bytes, &[9, 1, 2, 3, 4]), [9, 1, 2, 3, 4]);
}

#[test]
fn chain_format_2_three_class_defs() {
    let backtrack_classes = ClassDef::format_2(vec![ClassRangeRecord::new(g(1), g(1), 1)]);
    let input_classes = ClassDef::format_2(vec![
        ClassRangeRecord::new(g(2), g(2), 1),
        ClassRangeRecord::new(g(3), g(3), 2),
    ]);
    let lookahead_classes = ClassDef::format_2(vec![ClassRangeRecord::new(g(4), g(4), 3)]);
    let chain = chain_lookup(LookupFlag::empty(), ChainedSequenceContext::format_2(
            cov(&[2]),
            backtrack_classes,
            input_classes,
            lookahead_classes,
            vec![
                None,
                Some(ChainedClassSequenceRuleSet::new(vec![
                    // [bt class 1] (in class 1) (in class 2) [la class 3]
                    ChainedClassSequenceRule::new(vec![1], vec![2], vec![3], vec![rec(0, 1)]),
                    // [bt class 0] (in class 1) [la class 0, i.e. anything but glyph 4]
                    ChainedClassSequenceRule::new(vec![0], vec![], vec![0], vec![rec(0, 2)]),
                ])),
            ],
        ));
    let to_200 = SubstitutionLookup::Single(Lookup::new(
        LookupFlag::empty(),
        vec![SingleSubst::format_2(cov(&[2]), gs(&[200]))],
    ));
    let bytes = build(
        Some(&gsub_with(vec![chain, plus100(), to_200], &[0])),
        None,
        None,
    );
    assert_eq!(run(&bytes, &[1, 2, 3, 4]), [1, 102, 3, 4]);
    // backtrack class 0 (glyph 5), lookahead 3 is class 0 of the lookahead class def
    assert_eq!(run(&bytes, &[5, 2, 3, 4]), [5, 200, 3, 4]);
    assert_eq!(run(&bytes, &[5, 2, 4]), [5, 2, 4]);
    // a class-0 backtrack still needs a glyph to be there
    assert_eq!(run(&bytes, &[2, 3]), [2, 3]);
    assert_eq!(run(&bytes, &[1, 2, 3, 3]), [1, 2, 3, 3]);
}

fn gdef_with_marks(marks: &[u16], mark_sets: Vec<CoverageTable>) -> Gdef {
    let classes = ClassDef::format_2(
        marks
            .iter()
            .map(|m| ClassRangeRecord::new(g(*m), g(*m), 3))
            .collect(),
    );
    let mut gdef = Gdef::new(Some(classes), None, None, None);
    if !mark_sets.is_empty() {
        gdef.mark_glyph_sets_def.set(MarkGlyphSets::new(mark_sets));
    }
    gdef
}

#[test]
fn chain_format_3_skips_ignored_glyphs_everywhere() {
    let chain = chain_lookup(LookupFlag::IGNORE_MARKS, ChainedSequenceContext::format_3(
            vec![cov(&[1])],
            vec![cov(&[2]), cov(&[3])],
            vec![cov(&[4])],
            vec![rec(1, 1)],
        ));
    let gdef = gdef_with_marks(&[50, 51], vec![]);
    let bytes = build(
        Some(&gsub_with(vec![chain, plus100()], &[0])),
        None,
        Some(&gdef),
    );
    assert_eq!(run(&bytes, &[1, 2, 3, 4]), [1, 2, 103, 4]);
    assert_eq!(
        run(&bytes, &[1, 50, 2, 51, 50, 3, 50, 4]),
        [1, 50, 2, 51, 50, 103, 50, 4]
    );
    assert_eq!(run(&bytes, &[1, 6, 2, 3, 4]), [1, 6, 2, 3, 4]);
}

#[test]
fn mark_filtering_set_in_handbuilt_lookup() {
    // ligature 1 2 -> 9, marks in set 1 ({51}) are seen, other marks (50) are skipped
    let mut lookup = Lookup::new(
        LookupFlag::USE_MARK_FILTERING_SET,
        vec![LigatureSubstFormat1::new(
            cov(&[1]),
            vec![LigatureSet::new(vec![Ligature::new(g(9), gs(&[2]))])],
        )],
    );
    lookup.mark_filtering_set = Some(1);
    let gdef = gdef_with_marks(&[50, 51], vec![cov(&[50]), cov(&[51])]);
    let bytes = build(
        Some(&gsub_with(vec![SubstitutionLookup::Ligature(lookup)], &[0])),
        None,
        Some(&gdef),
    );
    assert_eq!(run(&bytes, &[1, 50, 2]), [9, 50]);
    assert_eq!(run(&bytes, &[1, 51, 2]), [1, 51, 2]);
    assert_eq!(run(&bytes, &[1, 50, 50, 2, 51]), [9, 50, 50, 51]);
}

fn two_axis_store() -> ItemVariationStore {
    let axis = |s: f64, p: f64, e: f64| RegionAxisCoordinates::new(f2(s), f2(p), f2(e));
    let regions = VariationRegionList::new(
        2,
        vec![
            // R0: axis 0 from 0 to 1
            VariationRegion::new(vec![axis(0.0, 1.0, 1.0), axis(0.0, 0.0, 0.0)]),
            // R1: intermediate on axis 0 (peak 0.5) x negative side of axis 1
            VariationRegion::new(vec![axis(0.0, 0.5, 1.0), axis(-1.0, -1.0, 0.0)]),
            // R2: axis 1 from 0 to 1
            VariationRegion::new(vec![axis(0.0, 0.0, 0.0), axis(0.0, 1.0, 1.0)]),
        ],
    );
    // data 0: one word delta then two byte deltas per row
    let mut rows0 = Vec::new();
    for (w, b1, b2) in [(300i16, -10i8, 20i8), (-1000, 5, -7)] {
        rows0.extend_from_slice(&w.to_be_bytes());
        rows0.push(b1 as u8);
        rows0.push(b2 as u8);
    }
    let data0 = ItemVariationData::new(2, 1, vec![0, 1, 2], rows0);
    // data 1: LONG_WORDS, one 32-bit delta (region 2) then one 16-bit delta (region 0)
    let mut rows1 = Vec::new();
    rows1.extend_from_slice(&100_000i32.to_be_bytes());
    rows1.extend_from_slice(&(-300i16).to_be_bytes());
    let data1 = ItemVariationData::new(1, 0x8000 | 1, vec![2, 0], rows1);
    ItemVariationStore::new(regions, vec![Some(data0), Some(data1)])
}

#[test]
fn pair_pos_with_variation_index_and_device_tables() {
    let v1 = ValueRecord::new()
        .with_x_advance(-50)
        .with_x_advance_device(DeviceOrVariationIndex::variation_index(0, 1))
        .with_y_advance(7)
        // a hinting device table: ignored
        .with_y_advance_device(DeviceOrVariationIndex::device(9, 10, &[3, -2]));
    let v2 = ValueRecord::new()
        .with_x_placement(4)
        .with_x_placement_device(DeviceOrVariationIndex::variation_index(1, 0));
    let pair1 = PositionLookup::Pair(Lookup::new(
        LookupFlag::empty(),
        vec![PairPos::format_1(
            cov(&[1]),
            vec![PairSet::new(vec![PairValueRecord::new(g(2), v1, v2)])],
        )],
    ));
    let gpos = Gpos::new(
        scripts(1, None),
        features(&[(b"kern", &[0])]),
        LookupList::new(vec![pair1]),
    );
    let mut gdef = Gdef::new(None, None, None, None);
    gdef.item_var_store.set(two_axis_store());
    let bytes = build(None, Some(&gpos), Some(&gdef));
    let font = LFont::new(&bytes).unwrap();
    let at = |coords: &[f64]| {
        let req = ShapeRequest {
            coords: coords.to_vec(),
            ..ShapeRequest::all("DFLT", "dflt")
        };
        let r = font.shape(&req, &[1, 2]);
        assert!(r.problems.is_empty(), "{:?}", r.problems);
        (
            r.glyphs[0].x_advance_adj,
            r.glyphs[0].y_advance_adj,
            r.glyphs[1].x_offset,
        )
    };
    assert_eq!(at(&[]), (-50.0, 7.0, 4.0));
    assert_eq!(at(&[0.0, 0.0]), (-50.0, 7.0, 4.0));
    // (0.5, -0.5): R0 = 0.5, R1 = 1 * 0.5, R2 = 0
    //   item (0,1): -1000*0.5 + 5*0.5 = -497.5;   item (1,0): 100000*0 + -300*0.5 = -150
    assert_eq!(at(&[0.5, -0.5]), (-547.5, 7.0, -146.0));
    // (1, 1): R0 = 1, R1 = 0 (axis 0 at its end), R2 = 1
    //   item (0,1): -1000 - 7 = -1007;   item (1,0): 100000 - 300 = 99700
    assert_eq!(at(&[1.0, 1.0]), (-1057.0, 7.0, 99704.0));
    // (0.25, -1): R0 = 0.25, R1 = 0.5 * 1, R2 = 0
    //   item (0,1): -250 + 2.5 = -247.5;   item (1,0): -75
    assert_eq!(at(&[0.25, -1.0]), (-297.5, 7.0, -71.0));
    // a missing second coordinate counts as 0
    assert_eq!(at(&[1.0]), (-1050.0, 7.0, -296.0));
    assert_eq!(font.pair_adjustment("DFLT", "dflt", "kern", 1, 2, &[0.5, -0.5]), -693.5);
    assert_eq!(font.var_delta(0, 0, &[1.0, 1.0]), Ok(320.0));
    assert!(font.var_delta(0, 2, &[1.0, 1.0]).is_err());
    assert!(font.var_delta(2, 0, &[1.0, 1.0]).is_err());
}

#[test]
fn pair_pos_format_2_shadows_later_subtables() {
    let adv = |v: i16| ValueRecord::new().with_x_advance(v);
    // subtable 0 (format 2): first glyphs {1, 2}; class1: 1->1 (2 stays 0); class2: 5->1
    let class_pairs = PairPos::format_2(
        cov(&[1, 2]),
        ClassDef::format_2(vec![ClassRangeRecord::new(g(1), g(1), 1)]),
        ClassDef::format_2(vec![ClassRangeRecord::new(g(5), g(5), 1)]),
        vec![
            Class1Record::new(vec![Class2Record::new(adv(0), adv(0)), Class2Record::new(adv(-11), adv(0))]),
            Class1Record::new(vec![Class2Record::new(adv(0), adv(0)), Class2Record::new(adv(-22), adv(0))]),
        ],
    );
    // subtable 1 (format 1): 1 6 -> -33, 3 6 -> -44
    let glyph_pairs = PairPos::format_1(
        cov(&[1, 3]),
        vec![
            PairSet::new(vec![PairValueRecord::new(g(6), adv(-33), ValueRecord::new())]),
            PairSet::new(vec![PairValueRecord::new(g(6), adv(-44), ValueRecord::new())]),
        ],
    );
    let gpos = Gpos::new(
        scripts(1, None),
        features(&[(b"kern", &[0])]),
        LookupList::new(vec![PositionLookup::Pair(Lookup::new(
            LookupFlag::empty(),
            vec![class_pairs, glyph_pairs],
        ))]),
    );
    let bytes = build(None, Some(&gpos), None);
    let font = LFont::new(&bytes).unwrap();
    let kern = |a: u16, b: u16| font.pair_adjustment("DFLT", "dflt", "kern", a, b, &[]);
    assert_eq!(kern(1, 5), -22.0);
    assert_eq!(kern(2, 5), -11.0);
    // 1 is covered by the class subtable: it applies with a zero value and "1 6" in the
    // second subtable is never reached
    assert_eq!(kern(1, 6), 0.0);
    // 3 is not covered by the class subtable
    assert_eq!(kern(3, 6), -44.0);
    assert_eq!(kern(3, 5), 0.0);
}

#[test]
fn single_pos_formats_and_anchor_format_2() {
    let single1 = SinglePos::format_1(cov(&[1, 2]), ValueRecord::new().with_y_placement(-3));
    let single2 = SinglePos::format_2(
        cov(&[3, 4]),
        vec![
            ValueRecord::new().with_x_advance(10),
            ValueRecord::new().with_x_advance(20),
        ],
    );
    let mark_base = MarkBasePosFormat1::new(
        cov(&[50]),
        cov(&[1]),
        MarkArray::new(vec![MarkRecord::new(0, AnchorTable::format_2(10, 20, 3))]),
        BaseArray::new(vec![BaseRecord::new(vec![Some(AnchorTable::format_1(200, 300))])]),
    );
    let gpos = Gpos::new(
        scripts(1, None),
        features(&[(b"test", &[0, 1])]),
        LookupList::new(vec![
            PositionLookup::Single(Lookup::new(LookupFlag::empty(), vec![single1, single2])),
            PositionLookup::MarkToBase(Lookup::new(LookupFlag::empty(), vec![mark_base])),
        ]),
    );
    let gdef = gdef_with_marks(&[50], vec![]);
    let bytes = build(None, Some(&gpos), Some(&gdef));
    let font = LFont::new(&bytes).unwrap();
    let r = font.shape(&ShapeRequest::all("DFLT", "dflt"), &[1, 50, 4, 3, 5]);
    assert!(r.problems.is_empty());
    assert_eq!(r.glyphs[0].y_offset, -3.0);
    assert_eq!((r.glyphs[1].x_offset, r.glyphs[1].y_offset), (190.0, 280.0));
    assert_eq!(r.glyphs[1].attached_to, Some(0));
    assert_eq!(r.glyphs[2].x_advance_adj, 20.0);
    assert_eq!(r.glyphs[3].x_advance_adj, 10.0);
    assert_eq!(r.glyphs[4].x_advance_adj, 0.0);
}

#[test]
fn feature_variations_first_match_and_universal_record() {
    let single = |from: u16, to: u16| {
        SubstitutionLookup::Single(Lookup::new(
            LookupFlag::empty(),
            vec![SingleSubst::format_2(cov(&[from]), gs(&[to]))],
        ))
    };
    let mut gsub = Gsub::new(
        scripts(2, None),
        features(&[(b"rvrn", &[0]), (b"liga", &[4])]),
        LookupList::new(vec![
            single(1, 10),
            single(1, 11),
            single(1, 12),
            single(1, 13),
            single(2, 20),
        ]),
    );
    let substitute = |lookups: &[u16]| {
        Some(FeatureTableSubstitution::new(vec![
            FeatureTableSubstitutionRecord::new(0, Feature::new(None, lookups.to_vec())),
        ]))
    };
    let range = |axis: u16, min: f64, max: f64| Condition::format_1_axis_range(axis, f2(min), f2(max));
    let make = |with_universal: bool| {
        let mut records = vec![
            FeatureVariationRecord::new(
                Some(ConditionSet::new(vec![range(0, 0.5, 1.0), range(1, -1.0, -0.5)])),
                substitute(&[1]),
            ),
            FeatureVariationRecord::new(
                Some(ConditionSet::new(vec![range(0, 0.25, 1.0)])),
                substitute(&[2]),
            ),
        ];
        if with_universal {
            records.push(FeatureVariationRecord::new(None, substitute(&[3])));
        }
        FeatureVariations::new(records)
    };

    gsub.feature_variations.set(make(false));
    let bytes = build(Some(&gsub), None, None);
    let font = LFont::new(&bytes).unwrap();
    assert_eq!(font.feature_variation_record_count(Table::Gsub), 2);
    let shape_at = |font: &LFont, coords: &[f64]| {
        let req = ShapeRequest {
            coords: coords.to_vec(),
            ..ShapeRequest::all("DFLT", "dflt")
        };
        font.shape(&req, &[1, 2]).gids()
    };
    assert_eq!(font.feature_variation_at(Table::Gsub, &[0.75, -0.75]), Some(vec![(0, vec![1])]));
    assert_eq!(shape_at(&font, &[0.75, -0.75]), [11, 20]);
    // second condition of record 0 fails -> record 1
    assert_eq!(font.feature_variation_at(Table::Gsub, &[0.75, 0.0]), Some(vec![(0, vec![2])]));
    assert_eq!(shape_at(&font, &[0.75, 0.0]), [12, 20]);
    assert_eq!(shape_at(&font, &[0.3, -1.0]), [12, 20]);
    // range ends are inclusive
    assert_eq!(shape_at(&font, &[0.5, -0.5]), [11, 20]);
    assert_eq!(shape_at(&font, &[0.25, 0.0]), [12, 20]);
    // nothing matches: the default feature table
    assert_eq!(font.feature_variation_at(Table::Gsub, &[0.2, -1.0]), None);
    assert_eq!(shape_at(&font, &[0.2, -1.0]), [10, 20]);
    assert_eq!(shape_at(&font, &[]), [10, 20]);
    assert_eq!(shape_at(&font, &[-1.0, -1.0]), [10, 20]);
    // a missing coordinate is 0: axis 1 = 0 is outside [-1, -0.5]
    assert_eq!(shape_at(&font, &[0.75]), [12, 20]);
    // the substituted list shows up in the feature listing, other features are untouched
    let entries = font.feature_entries(Table::Gsub, "DFLT", "dflt", &[0.75, -0.75]);
    assert_eq!(entries[0].lookups, [1]);
    assert!(entries[0].substituted);
    assert_eq!(entries[1].lookups, [4]);
    assert!(!entries[1].substituted);

    // with a record without condition set at the end, that one always matches
    gsub.feature_variations.set(make(true));
    let bytes = build(Some(&gsub), None, None);
    let font = LFont::new(&bytes).unwrap();
    assert_eq!(shape_at(&font, &[0.75, -0.75]), [11, 20]);
    assert_eq!(shape_at(&font, &[0.3, 0.0]), [12, 20]);
    assert_eq!(shape_at(&font, &[0.0, 0.0]), [13, 20]);
    assert_eq!(shape_at(&font, &[]), [13, 20]);
}

#[test]
fn nested_multiple_substitution_rebases_following_positions() {
    // context "1 2 3": lookup 1 (1 -> 7 8 9) at index 0, then lookup 2 (+100) at index 3,
    // which after the insertion of two glyphs is the original glyph 2
    let context = ctx_lookup(LookupFlag::empty(), SequenceContext::format_3(
            vec![cov(&[1]), cov(&[2]), cov(&[3])],
            vec![rec(0, 1), rec(3, 2), rec(4, 2), rec(5, 2)],
        ));
    let expand = SubstitutionLookup::Multiple(Lookup::new(
        LookupFlag::empty(),
        vec![MultipleSubstFormat1::new(
            cov(&[1]),
            vec![Sequence::new(gs(&[7, 8, 9]))],
        )],
    ));
    let bytes = build(
        Some(&gsub_with(vec![context, expand, plus100()], &[0])),
        None,
        None,
    );
    // index 5 does not exist (the sequence has 5 glyphs now) and is skipped
    assert_eq!(run(&bytes, &[1, 2, 3, 1]), [7, 8, 9, 102, 103, 1]);
    // the cursor ends after the grown match: the trailing "1 2 3" is matched afresh
    assert_eq!(
        run(&bytes, &[1, 2, 3, 1, 2, 3]),
        [7, 8, 9, 102, 103, 7, 8, 9, 102, 103]
    );
}

#[test]
fn deletion_by_empty_sequence() {
    let delete = SubstitutionLookup::Multiple(Lookup::new(
        LookupFlag::empty(),
        vec![MultipleSubstFormat1::new(cov(&[1]), vec![Sequence::new(vec![])])],
    ));
    let bytes = build(Some(&gsub_with(vec![delete], &[0])), None, None);
    let font = LFont::new(&bytes).unwrap();
    let r = font.shape(&ShapeRequest::all("DFLT", "dflt"), &[1, 1, 2, 1, 3, 1]);
    assert_eq!(r.gids(), [2, 3]);
    assert_eq!(font.shape(&ShapeRequest::all("DFLT", "dflt"), &[1, 1]).gids(), []);
}

#[test]
fn recursion_is_cut_off_and_reported() {
    // lookup 0 and lookup 1 call each other at their first glyph, forever
    let calls = |other: u16| {
        ctx_lookup(LookupFlag::empty(), SequenceContext::format_3(vec![cov(&[1])], vec![rec(0, other)]))
    };
    let bytes = build(Some(&gsub_with(vec![calls(1), calls(0)], &[0])), None, None);
    let font = LFont::new(&bytes).unwrap();
    let r = font.shape(&ShapeRequest::all("DFLT", "dflt"), &[1, 1, 1]);
    assert_eq!(r.gids(), [1, 1, 1]);
    assert!(
        r.problems.iter().any(|p| p.contains("nesting")),
        "{:?}",
        r.problems
    );
    // a lookup naming itself at index 0 is simply not re-entered
    let bytes = build(Some(&gsub_with(vec![calls(0)], &[0])), None, None);
    let font = LFont::new(&bytes).unwrap();
    let r = font.shape(&ShapeRequest::all("DFLT", "dflt"), &[1]);
    assert!(r.problems.is_empty());
}

#[test]
fn exponential_nesting_hits_the_operation_budget() {
    // lookup k matches "1 1" and calls lookup k+1 four times; the innermost lookup maps
    // 1 to itself so that every context keeps matching: 15 levels need 4^15 applications
    let levels = 15u16;
    let mut lookups = Vec::new();
    for k in 0..levels {
        lookups.push(ctx_lookup(LookupFlag::empty(), SequenceContext::format_3(
                vec![cov(&[1]), cov(&[1])],
                vec![rec(0, k + 1), rec(1, k + 1), rec(0, k + 1), rec(1, k + 1)],
            )));
    }
    lookups.push(SubstitutionLookup::Single(Lookup::new(
        LookupFlag::empty(),
        vec![SingleSubst::format_2(cov(&[1]), gs(&[1]))],
    )));
    let bytes = build(Some(&gsub_with(lookups, &[0])), None, None);
    let font = LFont::new(&bytes).unwrap();
    let start = std::time::Instant::now();
    // long enough that a lookup invoked at the second glyph still finds its own "1 1"
    let r = font.shape(&ShapeRequest::all("DFLT", "dflt"), &[1; 20]);
    assert_eq!(r.gids(), [1; 20]);
    assert!(
        r.problems.iter().any(|p| p.contains("budget")),
        "{:?}",
        r.problems
    );
    assert!(start.elapsed().as_secs() < 60);
}

#[test]
fn buffer_growth_is_bounded() {
    let triple = SubstitutionLookup::Multiple(Lookup::new(
        LookupFlag::empty(),
        vec![MultipleSubstFormat1::new(
            cov(&[1]),
            vec![Sequence::new(gs(&[1, 1, 1]))],
        )],
    ));
    let bytes = build(Some(&gsub_with(vec![triple], &[0])), None, None);
    let font = LFont::new(&bytes).unwrap();
    let input = vec![1u16; 10_000];
    let r = font.shape(&ShapeRequest::all("DFLT", "dflt"), &input);
    assert!(r.glyphs.len() <= otlayout::MAX_BUFFER_LEN);
    assert!(r.glyphs.len() > 10_000);
    assert!(r.problems.iter().any(|p| p.contains("exceed")), "{:?}", r.problems);
}

#[test]
fn apply_single_lookup_directly() {
    let bytes = build(Some(&gsub_with(vec![plus100()], &[])), None, None);
    let font = LFont::new(&bytes).unwrap();
    // the feature references no lookup, shaping does nothing
    assert_eq!(run(&bytes, &[1, 2]), [1, 2]);
    let mut buffer = Buffer::from_glyphs(&[1, 9, 2]);
    let report = font.apply_lookup(Table::Gsub, 0, &mut buffer, &[]);
    assert!(report.applied && report.problems.is_empty());
    assert_eq!(buffer.gids(), [101, 9, 102]);
    // an out-of-range lookup index is reported, not a panic
    let report = font.apply_lookup(Table::Gsub, 7, &mut buffer, &[]);
    assert!(!report.applied);
    assert!(!report.problems.is_empty());
    let report = font.apply_lookup(Table::Gpos, 0, &mut buffer, &[]);
    assert!(!report.applied);
}
