//! Test support: write a tiny UFO under /dev/shm/otlayout-*, compile it with the product
//! `fontc` binary, and give access to the resulting bytes with a glyph-name -> gid map.
#![allow(dead_code)]

use std::{
    collections::HashMap,
    fs,
    path::{Path, PathBuf},
    process::Command,
};

use write_fonts::read::{FontRef, TableProvider, types::GlyphId16};

pub const FONTC: &str = "/verif/target-repo/release/fontc";

pub struct GlyphSpec {
    pub name: &'static str,
    pub unicode: Option<u32>,
    pub advance: i32,
    /// (anchor name, x, y)
    pub anchors: Vec<(&'static str, f64, f64)>,
}

pub fn g(name: &'static str) -> GlyphSpec {
    GlyphSpec {
        name,
        unicode: None,
        advance: 500,
        anchors: Vec::new(),
    }
}

impl GlyphSpec {
    pub fn uni(mut self, u: u32) -> Self {
        self.unicode = Some(u);
        self
    }
    pub fn anchor(mut self, name: &'static str, x: f64, y: f64) -> Self {
        self.anchors.push((name, x, y));
        self
    }
}

#[derive(Default)]
pub struct UfoSpec {
    pub glyphs: Vec<GlyphSpec>,
    pub fea: String,
    /// public.openTypeCategories entries: (glyph, "base" | "ligature" | "mark")
    pub categories: Vec<(&'static str, &'static str)>,
    /// kerning.plist entries (first, second, value); names may be glyphs or groups
    pub kerning: Vec<(&'static str, &'static str, f64)>,
    /// groups.plist entries
    pub groups: Vec<(&'static str, Vec<&'static str>)>,
}

pub struct Compiled {
    pub bytes: Vec<u8>,
    pub names: HashMap<String, u16>,
    dir: PathBuf,
}

impl Compiled {
    pub fn gid(&self, name: &str) -> u16 {
        *self
            .names
            .get(name)
            .unwrap_or_else(|| panic!("no glyph named {name} in compiled font"))
    }
    pub fn gids(&self, names: &[&str]) -> Vec<u16> {
        names.iter().map(|n| self.gid(n)).collect()
    }
    pub fn name(&self, gid: u16) -> String {
        self.names
            .iter()
            .find(|(_, g)| **g == gid)
            .map(|(n, _)| n.clone())
            .unwrap_or_else(|| format!("gid{gid}"))
    }
    pub fn names_of(&self, gids: &[u16]) -> Vec<String> {
        gids.iter().map(|g| self.name(*g)).collect()
    }
}

impl Drop for Compiled {
    fn drop(&mut self) {
        let _ = fs::remove_dir_all(&self.dir);
    }
}

fn plist(body: &str) -> String {
    format!(
        "<?xml version=\"1.0\" encoding=\"UTF-8\"?>\n<!DOCTYPE plist PUBLIC \"-//Apple//DTD PLIST 1.0//EN\" \"http://www.apple.com/DTDs/PropertyList-1.0.dtd\">\n<plist version=\"1.0\">\n{body}\n</plist>\n"
    )
}

fn file_name(glyph: &str) -> String {
    let mut s = String::new();
    for c in glyph.chars() {
        match c {
            '.' if s.is_empty() => s.push_str("_dot_"),
            c if c.is_ascii_uppercase() => {
                s.push(c);
                s.push('_');
            }
            c => s.push(c),
        }
    }
    s + ".glif"
}

pub fn scratch_dir(test: &str) -> PathBuf {
    let dir = PathBuf::from(format!("/dev/shm/otlayout-{}-{test}", std::process::id()));
    let _ = fs::remove_dir_all(&dir);
    fs::create_dir_all(&dir).unwrap();
    dir
}

pub fn write_ufo(path: &Path, spec: &UfoSpec) {
    fs::create_dir_all(path.join("glyphs")).unwrap();
    fs::write(
        path.join("metainfo.plist"),
        plist("<dict><key>creator</key><string>otlayout.tests</string><key>formatVersion</key><integer>3</integer></dict>"),
    )
    .unwrap();
    fs::write(
        path.join("fontinfo.plist"),
        plist("<dict><key>unitsPerEm</key><integer>1000</integer><key>familyName</key><string>OtlayoutTest</string><key>styleName</key><string>Regular</string><key>ascender</key><integer>800</integer><key>descender</key><integer>-200</integer><key>xHeight</key><integer>500</integer><key>capHeight</key><integer>700</integer></dict>"),
    )
    .unwrap();
    fs::write(
        path.join("layercontents.plist"),
        plist("<array><array><string>public.default</string><string>glyphs</string></array></array>"),
    )
    .unwrap();
    let mut contents = String::from("<dict>");
    let mut order = String::from("<array>");
    for gl in &spec.glyphs {
        let fname = file_name(gl.name);
        contents.push_str(&format!("<key>{}</key><string>{fname}</string>", gl.name));
        order.push_str(&format!("<string>{}</string>", gl.name));
        let unicode = gl
            .unicode
            .map(|u| format!("<unicode hex=\"{u:04X}\"/>"))
            .unwrap_or_default();
        let anchors: String = gl
            .anchors
            .iter()
            .map(|(n, x, y)| format!("<anchor name=\"{n}\" x=\"{x}\" y=\"{y}\"/>"))
            .collect();
        fs::write(
            path.join("glyphs").join(fname),
            format!(
                "<?xml version=\"1.0\" encoding=\"UTF-8\"?>\n<glyph name=\"{}\" format=\"2\"><advance width=\"{}\"/>{unicode}{anchors}<outline></outline></glyph>\n",
                gl.name, gl.advance
            ),
        )
        .unwrap();
    }
    contents.push_str("</dict>");
    order.push_str("</array>");
    fs::write(path.join("glyphs/contents.plist"), plist(&contents)).unwrap();
    let mut lib = format!("<dict><key>public.glyphOrder</key>{order}");
    if !spec.categories.is_empty() {
        lib.push_str("<key>public.openTypeCategories</key><dict>");
        for (n, c) in &spec.categories {
            lib.push_str(&format!("<key>{n}</key><string>{c}</string>"));
        }
        lib.push_str("</dict>");
    }
    lib.push_str("</dict>");
    fs::write(path.join("lib.plist"), plist(&lib)).unwrap();
    fs::write(path.join("features.fea"), &spec.fea).unwrap();
    if !spec.kerning.is_empty() {
        let mut firsts: Vec<&str> = Vec::new();
        for k in &spec.kerning {
            if !firsts.contains(&k.0) {
                firsts.push(k.0);
            }
        }
        let mut body = String::from("<dict>");
        for first in firsts {
            body.push_str(&format!("<key>{first}</key><dict>"));
            for (f, s, v) in &spec.kerning {
                if *f == first {
                    body.push_str(&format!("<key>{s}</key><real>{v}</real>"));
                }
            }
            body.push_str("</dict>");
        }
        body.push_str("</dict>");
        fs::write(path.join("kerning.plist"), plist(&body)).unwrap();
    }
    if !spec.groups.is_empty() {
        let mut body = String::from("<dict>");
        for (name, members) in &spec.groups {
            body.push_str(&format!("<key>{name}</key><array>"));
            for m in members {
                body.push_str(&format!("<string>{m}</string>"));
            }
            body.push_str("</array>");
        }
        body.push_str("</dict>");
        fs::write(path.join("groups.plist"), plist(&body)).unwrap();
    }
}

/// Run fontc on `source`, output to `<dir>/out.ttf`.
pub fn run_fontc(dir: &Path, source: &Path) -> Vec<u8> {
    let out = dir.join("out.ttf");
    let output = Command::new(FONTC)
        .arg(source)
        .arg("-o")
        .arg(&out)
        .arg("--build-dir")
        .arg(dir.join("build"))
        .arg("--no-production-names")
        .output()
        .expect("cannot run fontc");
    assert!(
        output.status.success(),
        "fontc failed on {}:\n{}\n{}",
        source.display(),
        String::from_utf8_lossy(&output.stdout),
        String::from_utf8_lossy(&output.stderr)
    );
    fs::read(&out).unwrap()
}

fn glyph_names(bytes: &[u8]) -> HashMap<String, u16> {
    let font = FontRef::new(bytes).unwrap();
    let post = font.post().unwrap();
    let n = font.maxp().unwrap().num_glyphs();
    let mut names = HashMap::new();
    for gid in 0..n {
        if let Some(name) = post.glyph_name(GlyphId16::new(gid)) {
            names.insert(name.to_string(), gid);
        }
    }
    names
}

/// Compile a generated UFO.
pub fn compile(test: &str, spec: &UfoSpec) -> Compiled {
    let dir = scratch_dir(test);
    let ufo = dir.join("t.ufo");
    write_ufo(&ufo, spec);
    let bytes = run_fontc(&dir, &ufo);
    let names = glyph_names(&bytes);
    Compiled { bytes, names, dir }
}

/// Compile a weight-axis designspace (axis 400..700, default 400) from generated masters
/// given as (user-space weight, UFO). The first master must be at 400.
pub fn compile_designspace(test: &str, masters: &[(f64, UfoSpec)]) -> Compiled {
    let dir = scratch_dir(test);
    let mut sources = String::new();
    for (i, (wght, spec)) in masters.iter().enumerate() {
        let name = format!("m{i}.ufo");
        write_ufo(&dir.join(&name), spec);
        sources.push_str(&format!(
            "<source filename=\"{name}\" name=\"m{i}\" familyname=\"OtlayoutTest\" stylename=\"m{i}\"><location><dimension name=\"Weight\" xvalue=\"{wght}\"/></location></source>"
        ));
    }
    let ds = format!(
        "<?xml version='1.0' encoding='UTF-8'?>\n<designspace format=\"4.1\"><axes><axis tag=\"wght\" name=\"Weight\" minimum=\"400\" maximum=\"700\" default=\"400\"/></axes><sources>{sources}</sources></designspace>\n"
    );
    let path = dir.join("t.designspace");
    fs::write(&path, ds).unwrap();
    let bytes = run_fontc(&dir, &path);
    let names = glyph_names(&bytes);
    Compiled { bytes, names, dir }
}

/// Compile an existing source (designspace / ufo) from the repository's test data.
pub fn compile_source(test: &str, source: &str) -> Compiled {
    let dir = scratch_dir(test);
    let bytes = run_fontc(&dir, Path::new(source));
    let names = glyph_names(&bytes);
    Compiled { bytes, names, dir }
}

/// The mini glyph set most tests use. `.notdef` first so gids are stable.
pub fn latin_glyphs() -> Vec<GlyphSpec> {
    vec![
        g(".notdef"),
        g("a").uni(0x61),
        g("b").uni(0x62),
        g("c").uni(0x63),
        g("d").uni(0x64),
        g("f").uni(0x66),
        g("i").uni(0x69),
        g("l").uni(0x6C),
        g("f_i"),
        g("f_f"),
        g("f_f_i"),
        g("a.alt"),
        g("a.alt2"),
        g("b.alt"),
        g("acutecomb").uni(0x301),
        g("gravecomb").uni(0x300),
        g("dotbelowcomb").uni(0x323),
    ]
}

/// GDEF block for [`latin_glyphs`].
pub const LATIN_GDEF: &str = "table GDEF {\n  GlyphClassDef [a b c d f i l a.alt a.alt2 b.alt], [f_i f_f f_f_i], [acutecomb gravecomb dotbelowcomb], ;\n} GDEF;\n";
