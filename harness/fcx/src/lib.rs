//! In-process compilation with the real compiler (hooks dormant: jobs run inline, single-threaded).
use fontc::{Flags, Input, Options};
use serde::{Deserialize, Serialize};
use std::path::Path;

#[derive(Debug, Clone, Default, PartialEq, Eq, Hash, Serialize, Deserialize)]
pub struct Opts {
    pub flatten: bool,
    pub decompose: bool,
    pub decompose_transformed: bool,
    pub no_prefer_simple: bool,
    pub keep_direction: bool,
    pub no_production_names: bool,
    pub skip_features: bool,
    pub propagate_anchors: Option<bool>,
}

impl Opts {
    pub fn name(&self) -> String {
        let mut v = vec![];
        if self.flatten { v.push("flatten") }
        if self.decompose { v.push("decompose") }
        if self.decompose_transformed { v.push("decompose-transformed") }
        if self.no_prefer_simple { v.push("no-prefer-simple") }
        if self.keep_direction { v.push("keep-direction") }
        if self.no_production_names { v.push("no-production-names") }
        if self.skip_features { v.push("skip-features") }
        if v.is_empty() { "default".into() } else { v.join("+") }
    }
    pub fn flags(&self) -> Flags {
        let mut f = Flags::default();
        f.set(Flags::FLATTEN_COMPONENTS, self.flatten);
        f.set(Flags::DECOMPOSE_COMPONENTS, self.decompose);
        f.set(Flags::DECOMPOSE_TRANSFORMED_COMPONENTS, self.decompose_transformed);
        f.set(Flags::PREFER_SIMPLE_GLYPHS, !self.no_prefer_simple);
        f.set(Flags::KEEP_DIRECTION, self.keep_direction);
        f.set(Flags::PRODUCTION_NAMES, !self.no_production_names);
        if let Some(p) = self.propagate_anchors {
            f.set(Flags::PROPAGATE_ANCHORS, p);
        }
        f
    }
    /// The same options as command-line arguments of the product binary.
    pub fn cli_args(&self) -> Vec<String> {
        let mut v = vec![];
        if self.flatten { v.push("--flatten-components=true".to_string()) }
        if self.decompose { v.push("--decompose-components".to_string()) }
        if self.decompose_transformed { v.push("--decompose-transformed-components".to_string()) }
        if self.no_prefer_simple { v.push("--prefer-simple-glyphs=false".to_string()) }
        if self.keep_direction { v.push("--keep-direction".to_string()) }
        if self.no_production_names { v.push("--no-production-names".to_string()) }
        if self.skip_features { v.push("--skip-features".to_string()) }
        match self.propagate_anchors { Some(true) => v.push("--propagate-anchors=true".to_string()), Some(false) => v.push("--propagate-anchors=false".to_string()), None => {} }
        v
    }
}

#[derive(Debug, Clone, PartialEq, Eq)]
pub enum Failure {
    /// the compiler returned an error
    Error(String),
    /// the compiler panicked (caught)
    Panic(String),
}

pub fn panic_message(p: Box<dyn std::any::Any + Send>) -> String {
    p.downcast_ref::<String>()
        .cloned()
        .or(p.downcast_ref::<&str>().map(|s| s.to_string()))
        .unwrap_or_else(|| "<non-string panic>".into())
}

/// Compile a source file/directory in process. `ir_dir` turns on IR emission.
pub fn compile(path: &Path, opts: &Opts, ir_dir: Option<&Path>) -> Result<Vec<u8>, Failure> {
    let r = std::panic::catch_unwind(std::panic::AssertUnwindSafe(|| {
        let input = Input::new(path).map_err(|e| e.to_string())?;
        let source = input.create_source().map_err(|e| e.to_string())?;
        let mut options = Options::default();
        options.flags = opts.flags();
        options.skip_features = opts.skip_features;
        options.ir_dir = ir_dir.map(|p| p.to_path_buf());
        if opts.propagate_anchors == Some(false) {
            options.flags_to_disable = Flags::PROPAGATE_ANCHORS.into();
        }
        fontc::generate_font(source, options).map_err(|e| e.to_string())
    }));
    match r {
        Ok(Ok(b)) => Ok(b),
        Ok(Err(e)) => Err(Failure::Error(e)),
        Err(p) => Err(Failure::Panic(panic_message(p))),
    }
}

pub fn silence_panics() {
    std::panic::set_hook(Box::new(|_| {}));
}
