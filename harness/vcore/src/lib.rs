//! Shared plumbing for the checks: arguments, evidence, known findings, verdict lines,
//! isolated worker sweeps, scratch directories, product-binary runs.

pub mod sweep;

use serde_json::{Map, Value, json};
use std::{
    collections::BTreeMap,
    path::{Path, PathBuf},
    time::Instant,
};

pub const VERIF: &str = "/verif";
pub const REPO: &str = "/repo";

#[derive(Debug, Clone, Copy, PartialEq, Eq)]
pub enum Tier {
    Quick,
    Thorough,
}

impl Tier {
    pub fn name(self) -> &'static str {
        match self {
            Tier::Quick => "quick",
            Tier::Thorough => "thorough",
        }
    }
    pub fn pick<T>(self, quick: T, thorough: T) -> T {
        match self {
            Tier::Quick => quick,
            Tier::Thorough => thorough,
        }
    }
}

#[derive(Debug, Clone)]
pub struct Args {
    pub tier: Tier,
    pub seed: u64,
    pub replay: Option<PathBuf>,
    pub rest: Vec<String>,
}

/// `<bin> quick|thorough` or `<bin> --replay <path>`; `VERIF_TIER` / `VERIF_SEED` are honoured.
pub fn parse_args() -> Args {
    let mut tier = match std::env::var("VERIF_TIER").as_deref() {
        Ok("thorough") => Tier::Thorough,
        _ => Tier::Quick,
    };
    let mut replay = None;
    let mut rest = Vec::new();
    let mut it = std::env::args().skip(1);
    while let Some(a) = it.next() {
        match a.as_str() {
            "quick" => tier = Tier::Quick,
            "thorough" => tier = Tier::Thorough,
            "--replay" => replay = it.next().map(PathBuf::from),
            _ => rest.push(a),
        }
    }
    let seed = std::env::var("VERIF_SEED")
        .ok()
        .and_then(|s| s.parse().ok())
        .unwrap_or(0);
    Args {
        tier,
        seed,
        replay,
        rest,
    }
}

/// Where evidence and replay files go (`/verif`, or `$VERIF_OUT` for runs against a scratch tree).
pub fn out_root() -> PathBuf {
    std::env::var("VERIF_OUT").map(PathBuf::from).unwrap_or_else(|_| PathBuf::from(VERIF))
}

/// The running executable, by a path that survives a rebuild of the binary during the run.
pub fn self_exe() -> PathBuf {
    let p = PathBuf::from("/proc/self/exe");
    if p.exists() { p } else { std::env::current_exe().unwrap_or_else(|e| machinery_error(&format!("{e}"))) }
}

pub fn ncores() -> usize {
    std::env::var("VERIF_JOBS")
        .ok()
        .and_then(|s| s.parse().ok())
        .unwrap_or_else(|| {
            std::thread::available_parallelism()
                .map(|n| n.get())
                .unwrap_or(4)
        })
}

/// Multiplier for every wall-clock safety cap of the checks (`VERIF_BUDGET_SCALE`, default 1): the caps only exist
/// so that a run on an overloaded machine ends; a run that hits one reports `exhaustive: false`.
pub fn budget_scale() -> f64 {
    std::env::var("VERIF_BUDGET_SCALE").ok().and_then(|s| s.parse().ok()).filter(|v: &f64| *v > 0.0).unwrap_or(1.0)
}

/// FNV-1a, good enough to name outputs.
pub fn hash64(bytes: &[u8]) -> u64 {
    let mut h: u64 = 0xcbf29ce484222325;
    for b in bytes {
        h ^= *b as u64;
        h = h.wrapping_mul(0x100000001b3);
    }
    h
}

// ---------------------------------------------------------------- known findings

#[derive(Debug, Clone)]
pub struct Finding {
    pub property: String,
    pub status: String,
    pub key: String,
    pub what: String,
}

pub fn load_findings(property: &str) -> Vec<Finding> {
    let p = Path::new(VERIF).join("known_findings.json");
    let Ok(s) = std::fs::read_to_string(&p) else {
        return vec![];
    };
    let v: Value = serde_json::from_str(&s).unwrap_or_else(|e| {
        eprintln!("known_findings.json does not parse: {e}");
        std::process::exit(2)
    });
    v.as_array()
        .map(|a| {
            a.iter()
                .filter_map(|e| {
                    Some(Finding {
                        property: e.get("property")?.as_str()?.to_string(),
                        status: e.get("status")?.as_str()?.to_string(),
                        key: e.get("key")?.as_str()?.to_string(),
                        what: e.get("what")?.as_str()?.to_string(),
                    })
                })
                .filter(|f| f.property == property)
                .collect()
        })
        .unwrap_or_default()
}

fn key_matches(pattern: &str, key: &str) -> bool {
    match pattern.strip_suffix('*') {
        Some(prefix) => key.starts_with(prefix),
        None => pattern == key,
    }
}

// ---------------------------------------------------------------- reporter

/// Collects violations, sorts them into known findings and new ones, writes replay files,
/// prints the interface lines and the evidence file.
pub struct Reporter {
    pub id: String,
    pub level: &'static str,
    pub tier: Tier,
    pub seed: u64,
    start: Instant,
    findings: Vec<Finding>,
    known_hits: BTreeMap<String, (String, usize)>,
    new_keys: BTreeMap<String, PathBuf>,
    new_count: usize,
    pub coverage: Map<String, Value>,
    pub assumptions: Vec<String>,
}

impl Reporter {
    pub fn new(id: &str, level: &'static str, args: &Args) -> Self {
        if std::env::var("VERIF_WORKER").is_err() {
            // replay files of an earlier run would otherwise sit next to this run's
            let _ = std::fs::remove_dir_all(out_root().join("replays").join(id));
        }
        Reporter {
            id: id.to_string(),
            level,
            tier: args.tier,
            seed: args.seed,
            start: Instant::now(),
            findings: load_findings(id),
            known_hits: BTreeMap::new(),
            new_keys: BTreeMap::new(),
            new_count: 0,
            coverage: Map::new(),
            assumptions: vec![],
        }
    }

    pub fn elapsed_s(&self) -> f64 {
        self.start.elapsed().as_secs_f64()
    }

    /// Is `key` listed as a known (unrepaired) finding?
    pub fn is_known(&self, key: &str) -> bool {
        self.findings
            .iter()
            .any(|f| f.status == "known" && key_matches(&f.key, key))
    }

    /// Report one violating case. `key` is the canonical identity of the failing case class.
    pub fn violation(&mut self, key: &str, what: &str, replay: Value) {
        if let Some(f) = self
            .findings
            .iter()
            .find(|f| f.status == "known" && key_matches(&f.key, key))
        {
            let e = self
                .known_hits
                .entry(f.key.clone())
                .or_insert((f.what.clone(), 0));
            e.1 += 1;
            return;
        }
        self.new_count += 1;
        if self.new_keys.contains_key(key) {
            return;
        }
        let dir = out_root().join("replays").join(&self.id);
        let _ = std::fs::create_dir_all(&dir);
        let n = self.new_keys.len();
        let path = dir.join(format!("{n:04}.json"));
        let body = json!({"property": self.id, "key": key, "what": what, "replay": replay});
        let _ = std::fs::write(&path, serde_json::to_string_pretty(&body).unwrap_or_default());
        if n < 25 {
            println!("VIOLATION property={} replay={}", self.id, path.display());
            eprintln!("  [{}] {key}: {what}", self.id);
        } else if n == 25 {
            eprintln!("  (further violations are written to replay files without a line each)");
        }
        self.new_keys.insert(key.to_string(), path);
    }

    pub fn new_violations(&self) -> usize {
        self.new_keys.len()
    }

    pub fn set(&mut self, k: &str, v: impl Into<Value>) {
        self.coverage.insert(k.to_string(), v.into());
    }

    pub fn assume(&mut self, s: &str) {
        self.assumptions.push(s.to_string());
    }

    /// Write evidence, print KNOWN-FINDING lines, exit with the interface status.
    pub fn finish(mut self) -> ! {
        for (key, (what, n)) in &self.known_hits {
            println!(
                "KNOWN-FINDING: property={} {} [key={} cases={}]",
                self.id, what, key, n
            );
        }
        let known: Vec<Value> = self
            .known_hits
            .iter()
            .map(|(k, (w, n))| json!({"key": k, "what": w, "cases": n}))
            .collect();
        self.coverage
            .insert("known_findings_hit".into(), Value::Array(known));
        let stale: Vec<&str> = self
            .findings
            .iter()
            .filter(|f| f.status == "known" && !self.known_hits.contains_key(&f.key))
            .map(|f| f.key.as_str())
            .collect();
        self.coverage
            .insert("known_findings_not_reproduced".into(), json!(stale));
        let ev = json!({
            "property_id": self.id,
            "tier": self.tier.name(),
            "seed": self.seed,
            "level": self.level,
            "coverage": Value::Object(self.coverage.clone()),
            "assumptions": self.assumptions,
            "wall_s": (self.start.elapsed().as_secs_f64() * 100.0).round() / 100.0,
            "violations": self.new_keys.len(),
        });
        let dir = out_root().join("evidence");
        let _ = std::fs::create_dir_all(&dir);
        let path = dir.join(format!("{}.json", self.id));
        if let Err(e) = std::fs::write(&path, serde_json::to_string_pretty(&ev).unwrap_or_default())
        {
            eprintln!("cannot write evidence {path:?}: {e}");
            std::process::exit(2);
        }
        eprintln!(
            "[{}] {} tier done in {:.1}s: new violations {} (cases {}), known findings hit {}",
            self.id,
            self.tier.name(),
            self.start.elapsed().as_secs_f64(),
            self.new_keys.len(),
            self.new_count,
            self.known_hits.len()
        );
        cleanup_scratch();
        std::process::exit(if self.new_keys.is_empty() { 0 } else { 1 })
    }
}

/// Machinery failure: not a verdict.
pub fn machinery_error(msg: &str) -> ! {
    eprintln!("MACHINERY ERROR: {msg}");
    cleanup_scratch();
    std::process::exit(2)
}

// ---------------------------------------------------------------- scratch space

pub fn scratch_root() -> PathBuf {
    let base = if Path::new("/dev/shm").is_dir() {
        PathBuf::from("/dev/shm")
    } else {
        std::env::temp_dir()
    };
    let root = std::env::var("VERIF_SCRATCH_ROOT")
        .map(PathBuf::from)
        .unwrap_or_else(|_| base.join(format!("verif-{}", std::process::id())));
    let _ = std::fs::create_dir_all(&root);
    root
}

/// A fresh directory, removed when the value is dropped.
pub struct Scratch(pub PathBuf);

impl Scratch {
    pub fn new(tag: &str) -> Scratch {
        use std::sync::atomic::{AtomicU64, Ordering};
        static N: AtomicU64 = AtomicU64::new(0);
        let n = N.fetch_add(1, Ordering::Relaxed);
        let p = scratch_root().join(format!("{tag}-{}-{n}", std::process::id()));
        let _ = std::fs::remove_dir_all(&p);
        std::fs::create_dir_all(&p).unwrap_or_else(|e| machinery_error(&format!("scratch {p:?}: {e}")));
        Scratch(p)
    }
    pub fn path(&self) -> &Path {
        &self.0
    }
    pub fn join(&self, s: &str) -> PathBuf {
        self.0.join(s)
    }
}

impl Drop for Scratch {
    fn drop(&mut self) {
        let _ = std::fs::remove_dir_all(&self.0);
    }
}

pub fn cleanup_scratch() {
    if std::env::var("VERIF_WORKER").is_ok() || std::env::var("VERIF_KEEP_SCRATCH").is_ok() {
        return;
    }
    let _ = std::fs::remove_dir_all(scratch_root());
}

// ---------------------------------------------------------------- product binary

/// Path of the unmodified fontc binary built from /repo (by `./check`).
pub fn fontc_bin() -> PathBuf {
    std::env::var("VERIF_FONTC_BIN")
        .map(PathBuf::from)
        .unwrap_or_else(|_| PathBuf::from("/verif/target-repo/release/fontc"))
}

/// Path of the overflow-checked twin (C19).
pub fn fontc_bin_checked() -> PathBuf {
    std::env::var("VERIF_FONTC_BIN_OC")
        .map(PathBuf::from)
        .unwrap_or_else(|_| PathBuf::from("/verif/target-repo-oc/release/fontc"))
}

pub fn shim_path() -> PathBuf {
    PathBuf::from("/verif/shim/getrandom.so")
}

#[derive(Debug, Clone)]
pub struct ProcOutcome {
    /// Some(code) on normal exit
    pub code: Option<i32>,
    pub signal: Option<i32>,
    pub timed_out: bool,
    pub stdout: String,
    pub stderr: String,
    pub wall_ms: u64,
}

impl ProcOutcome {
    pub fn summary(&self) -> String {
        if self.timed_out {
            "timeout".into()
        } else if let Some(s) = self.signal {
            format!("signal {s}")
        } else {
            format!("exit {}", self.code.unwrap_or(-1))
        }
    }
}

/// Run a command with a wall-clock limit and an address-space cap; output captured.
pub fn run_proc(
    cmd: &mut std::process::Command,
    timeout_ms: u64,
    mem_cap: Option<u64>,
) -> ProcOutcome {
    use std::io::Read;
    use std::os::unix::process::{CommandExt, ExitStatusExt};
    use std::process::Stdio;
    cmd.stdin(Stdio::null())
        .stdout(Stdio::piped())
        .stderr(Stdio::piped());
    if let Some(cap) = mem_cap {
        unsafe {
            cmd.pre_exec(move || {
                let lim = libc::rlimit {
                    rlim_cur: cap,
                    rlim_max: cap,
                };
                libc::setrlimit(libc::RLIMIT_AS, &lim);
                let core = libc::rlimit {
                    rlim_cur: 0,
                    rlim_max: 0,
                };
                libc::setrlimit(libc::RLIMIT_CORE, &core);
                Ok(())
            });
        }
    }
    let t = Instant::now();
    let mut child = match cmd.spawn() {
        Ok(c) => c,
        Err(e) => machinery_error(&format!("cannot spawn {cmd:?}: {e}")),
    };
    let mut so = child.stdout.take();
    let mut se = child.stderr.take();
    let h1 = std::thread::spawn(move || {
        let mut s = Vec::new();
        if let Some(o) = so.as_mut() {
            let _ = o.read_to_end(&mut s);
        }
        String::from_utf8_lossy(&s).into_owned()
    });
    let h2 = std::thread::spawn(move || {
        let mut s = Vec::new();
        if let Some(o) = se.as_mut() {
            let _ = o.read_to_end(&mut s);
        }
        String::from_utf8_lossy(&s).into_owned()
    });
    let mut timed_out = false;
    let status = loop {
        match child.try_wait() {
            Ok(Some(st)) => break st,
            Ok(None) => {
                if t.elapsed().as_millis() as u64 > timeout_ms {
                    timed_out = true;
                    let _ = child.kill();
                    break child.wait().unwrap_or_else(|e| machinery_error(&format!("wait: {e}")));
                }
                std::thread::sleep(std::time::Duration::from_millis(2));
            }
            Err(e) => machinery_error(&format!("try_wait: {e}")),
        }
    };
    let stdout = h1.join().unwrap_or_default();
    let stderr = h2.join().unwrap_or_default();
    ProcOutcome {
        code: status.code(),
        signal: if timed_out { None } else { status.signal() },
        timed_out,
        stdout,
        stderr,
        wall_ms: t.elapsed().as_millis() as u64,
    }
}

/// A `Command` for the product binary with owned nondeterminism (hash seed, epoch, log level).
pub fn fontc_cmd(bin: &Path, hash_seed: Option<u64>) -> std::process::Command {
    let mut c = std::process::Command::new(bin);
    c.env("SOURCE_DATE_EPOCH", "1700000000");
    c.env_remove("RUST_LOG");
    c.env_remove("RUST_BACKTRACE");
    if let Some(s) = hash_seed {
        c.env("LD_PRELOAD", shim_path());
        c.env("VERIF_HASH_SEED", s.to_string());
    }
    c
}

/// Parallel map over indices with plain threads (for work that needs no isolation).
pub fn par_for<T: Send>(
    n: usize,
    threads: usize,
    f: impl Fn(usize) -> T + Sync,
) -> Vec<T> {
    use std::sync::atomic::{AtomicUsize, Ordering};
    let next = AtomicUsize::new(0);
    let out: std::sync::Mutex<Vec<(usize, T)>> = std::sync::Mutex::new(Vec::with_capacity(n));
    std::thread::scope(|s| {
        for _ in 0..threads.max(1).min(n.max(1)) {
            s.spawn(|| {
                loop {
                    let i = next.fetch_add(1, Ordering::Relaxed);
                    if i >= n {
                        break;
                    }
                    let r = f(i);
                    out.lock().unwrap().push((i, r));
                }
            });
        }
    });
    let mut v = out.into_inner().unwrap();
    v.sort_by_key(|(i, _)| *i);
    v.into_iter().map(|(_, t)| t).collect()
}

/// Merge `b` into `a`: numbers add, arrays concatenate (capped), objects recurse.
pub fn merge_counts(a: &mut Value, b: &Value) {
    match (a, b) {
        (Value::Object(ma), Value::Object(mb)) => {
            for (k, vb) in mb {
                match ma.get_mut(k) {
                    Some(va) => merge_counts(va, vb),
                    None => {
                        ma.insert(k.clone(), vb.clone());
                    }
                }
            }
        }
        (Value::Array(xa), Value::Array(xb)) => {
            for v in xb {
                if xa.len() < 200 {
                    xa.push(v.clone());
                }
            }
        }
        (a @ Value::Number(_), Value::Number(nb)) => {
            if let (Some(x), Some(y)) = (a.as_u64(), nb.as_u64()) {
                *a = json!(x + y);
            } else if let (Some(x), Some(y)) = (a.as_f64(), nb.as_f64()) {
                *a = json!(x + y);
            }
        }
        _ => {}
    }
}

/// Re-executes the current program under the `getrandom` interposer so that std's
/// `RandomState` keys are a function of `VERIF_HASH_SEED` (DESIGN §2.1). No-op once active.
pub fn ensure_shim(seed: u64) {
    use std::os::unix::process::CommandExt;
    if std::env::var("VERIF_SHIM").as_deref() == Ok("1") {
        return;
    }
    if !shim_path().exists() {
        machinery_error("shim/getrandom.so is missing (run ./check setup)");
    }
    let err = std::process::Command::new(self_exe())
        .args(std::env::args().skip(1))
        .env("LD_PRELOAD", shim_path())
        .env("VERIF_HASH_SEED", seed.to_string())
        .env("VERIF_SHIM", "1")
        .env("SOURCE_DATE_EPOCH", "1700000000")
        .exec();
    machinery_error(&format!("exec under shim failed: {err}"));
}

/// Change the hash seed of the running (shimmed) process: threads started afterwards draw their keys from it.
pub fn set_hash_seed(seed: u64) {
    unsafe {
        let sym = libc::dlsym(libc::RTLD_DEFAULT, c"verif_seed_override".as_ptr());
        let flag = libc::dlsym(libc::RTLD_DEFAULT, c"verif_seed_set".as_ptr());
        if sym.is_null() || flag.is_null() {
            machinery_error("getrandom shim not loaded (verif_seed_override not found)");
        }
        std::ptr::write_volatile(sym as *mut u64, seed);
        std::ptr::write_volatile(flag as *mut i32, 1);
    }
}

/// Tags of the sfnt tables whose bytes differ between two fonts (or that exist in only one).
pub fn table_diff(a: &[u8], b: &[u8]) -> Vec<String> {
    fn dir(d: &[u8]) -> BTreeMap<String, &[u8]> {
        let mut m = BTreeMap::new();
        if d.len() < 12 {
            return m;
        }
        let n = u16::from_be_bytes([d[4], d[5]]) as usize;
        for i in 0..n {
            let Some(r) = d.get(12 + 16 * i..28 + 16 * i) else { break };
            let off = u32::from_be_bytes([r[8], r[9], r[10], r[11]]) as usize;
            let len = u32::from_be_bytes([r[12], r[13], r[14], r[15]]) as usize;
            if let Some(t) = d.get(off..off + len) {
                m.insert(String::from_utf8_lossy(&r[0..4]).into_owned(), t);
            }
        }
        m
    }
    let (da, db) = (dir(a), dir(b));
    let mut out = vec![];
    for (k, va) in &da {
        match db.get(k) {
            Some(vb) if vb == va => {}
            Some(vb) => out.push(format!("{k}({}/{})", va.len(), vb.len())),
            None => out.push(format!("{k}(only first)")),
        }
    }
    for k in db.keys() {
        if !da.contains_key(k) {
            out.push(format!("{k}(only second)"));
        }
    }
    out
}

/// Every compilable-looking source under /repo/resources/testdata: designspaces, Glyphs files and
/// packages, and UFOs that no designspace next to them references.
pub fn repo_fixtures() -> Vec<PathBuf> {
    fn walk(dir: &Path, out: &mut Vec<PathBuf>) {
        let Ok(rd) = std::fs::read_dir(dir) else { return };
        let mut entries: Vec<PathBuf> = rd.filter_map(|e| e.ok().map(|e| e.path())).collect();
        entries.sort();
        for p in entries {
            let ext = p.extension().and_then(|e| e.to_str()).unwrap_or("");
            match ext {
                "designspace" | "glyphs" | "glyphspackage" | "ufo" => out.push(p),
                _ if p.is_dir() => walk(&p, out),
                _ => {}
            }
        }
    }
    let mut v = vec![];
    walk(&Path::new(REPO).join("resources/testdata"), &mut v);
    // drop UFOs referenced by some designspace in the same directory
    let mut referenced = std::collections::BTreeSet::new();
    for p in v.iter().filter(|p| p.extension().is_some_and(|e| e == "designspace")) {
        if let Ok(s) = std::fs::read_to_string(p) {
            for part in s.split("filename=\"").skip(1) {
                if let Some(end) = part.find('"') {
                    if let Some(dir) = p.parent() {
                        referenced.insert(dir.join(&part[..end]));
                    }
                }
            }
        }
    }
    v.retain(|p| !(p.extension().is_some_and(|e| e == "ufo") && referenced.contains(p)));
    v
}
