//! Isolated sweeps: the parent hands chunks of case indices to worker subprocesses (the
//! same executable, `VERIF_WORKER=<name>`); a worker publishes the index of the case it is
//! running in a shared-memory word, so a crash, an allocation failure or a hang is
//! attributed to exactly one case, the worker is restarted and the chunk resumed after it.

use serde_json::Value;
use std::{
    io::{BufRead, BufReader, Write},
    os::unix::process::{CommandExt, ExitStatusExt},
    path::PathBuf,
    process::{Command, Stdio},
    sync::{
        Mutex,
        atomic::{AtomicU64, Ordering},
        mpsc,
    },
    time::{Duration, Instant},
};

#[derive(Debug, Clone)]
pub struct SweepCfg {
    pub name: String,
    pub total: u64,
    pub chunk: u64,
    pub workers: usize,
    /// a case that makes no progress for this long is a hang
    pub case_timeout_ms: u64,
    /// address-space cap of a worker
    pub mem_cap: Option<u64>,
    /// extra arguments (passed to the worker as VERIF_WORKER_ARG)
    pub arg: String,
    /// stop handing out chunks after this much wall time (reported as a cap)
    pub deadline: Option<Instant>,
}

#[derive(Debug, Clone)]
pub enum Abnormal {
    /// the worker process died while running this case
    Crashed { signal: Option<i32>, code: Option<i32> },
    /// no progress on this case within the deadline
    Hang,
}

#[derive(Debug, Default)]
pub struct SweepResult {
    /// one aggregated value per completed chunk piece
    pub chunks: Vec<Value>,
    pub abnormal: Vec<(u64, Abnormal)>,
    pub cases_done: u64,
    pub capped: bool,
}

struct Shm {
    ptr: *mut u64,
    path: PathBuf,
}
unsafe impl Send for Shm {}

impl Shm {
    fn create(path: PathBuf) -> Shm {
        let f = std::fs::OpenOptions::new()
            .read(true)
            .write(true)
            .create(true)
            .truncate(true)
            .open(&path)
            .unwrap_or_else(|e| crate::machinery_error(&format!("shm {path:?}: {e}")));
        f.set_len(16).ok();
        use std::os::fd::AsRawFd;
        let ptr = unsafe {
            libc::mmap(
                std::ptr::null_mut(),
                16,
                libc::PROT_READ | libc::PROT_WRITE,
                libc::MAP_SHARED,
                f.as_raw_fd(),
                0,
            )
        };
        if ptr == libc::MAP_FAILED {
            crate::machinery_error("mmap failed");
        }
        Shm {
            ptr: ptr as *mut u64,
            path,
        }
    }
    fn open(path: PathBuf) -> Shm {
        let f = std::fs::OpenOptions::new()
            .read(true)
            .write(true)
            .open(&path)
            .unwrap_or_else(|e| crate::machinery_error(&format!("shm open {path:?}: {e}")));
        use std::os::fd::AsRawFd;
        let ptr = unsafe {
            libc::mmap(
                std::ptr::null_mut(),
                16,
                libc::PROT_READ | libc::PROT_WRITE,
                libc::MAP_SHARED,
                f.as_raw_fd(),
                0,
            )
        };
        if ptr == libc::MAP_FAILED {
            crate::machinery_error("mmap failed");
        }
        Shm {
            ptr: ptr as *mut u64,
            path,
        }
    }
    fn cell(&self) -> &AtomicU64 {
        unsafe { &*(self.ptr as *const AtomicU64) }
    }
}

/// Handle a worker uses to announce the case it is about to run.
pub struct Progress {
    shm: Shm,
}

impl Progress {
    #[inline]
    pub fn begin(&self, idx: u64) {
        self.shm.cell().store(idx + 1, Ordering::SeqCst);
    }
}

/// If this process is a sweep worker, returns (name, arg).
pub fn worker_env() -> Option<(String, String)> {
    let name = std::env::var("VERIF_WORKER").ok()?;
    Some((name, std::env::var("VERIF_WORKER_ARG").unwrap_or_default()))
}

/// Worker side: reads `lo hi` lines, runs `f(lo, hi, progress)` and prints
/// one JSON line per chunk. Never returns.
pub fn worker_loop(mut f: impl FnMut(u64, u64, &Progress) -> Value) -> ! {
    let shm = Shm::open(PathBuf::from(
        std::env::var("VERIF_WORKER_SHM").unwrap_or_default(),
    ));
    let progress = Progress { shm };
    let stdin = std::io::stdin();
    let mut line = String::new();
    loop {
        line.clear();
        match stdin.lock().read_line(&mut line) {
            Ok(0) | Err(_) => std::process::exit(0),
            Ok(_) => {}
        }
        let mut it = line.split_whitespace();
        let lo: u64 = it.next().and_then(|s| s.parse().ok()).unwrap_or(0);
        let hi: u64 = it.next().and_then(|s| s.parse().ok()).unwrap_or(0);
        let v = f(lo, hi, &progress);
        let out = std::io::stdout();
        let mut o = out.lock();
        let _ = writeln!(o, "VWR {}", serde_json::to_string(&v).unwrap_or_default());
        let _ = o.flush();
    }
}

struct Child {
    proc: std::process::Child,
    stdin: std::process::ChildStdin,
    rx: mpsc::Receiver<String>,
    shm: Shm,
}

fn spawn_child(cfg: &SweepCfg, slot: usize) -> Child {
    let shm_path = crate::scratch_root().join(format!("sweep-{}-{slot}.shm", cfg.name));
    let shm = Shm::create(shm_path.clone());
    // /proc/self/exe keeps working when the binary is rebuilt during a run
    let mut cmd = Command::new(crate::self_exe());
    cmd.args(std::env::args().skip(1))
        .env("VERIF_WORKER", &cfg.name)
        .env("VERIF_WORKER_ARG", &cfg.arg)
        .env("VERIF_WORKER_SHM", &shm_path)
        .env("VERIF_SCRATCH_ROOT", crate::scratch_root().join(format!("w{slot}")))
        .env("SOURCE_DATE_EPOCH", "1700000000")
        .stdin(Stdio::piped())
        .stdout(Stdio::piped())
        .stderr(Stdio::null());
    if std::env::var("VERIF_WORKER_STDERR").is_ok() {
        cmd.stderr(Stdio::inherit());
    }
    let cap = cfg.mem_cap;
    unsafe {
        cmd.pre_exec(move || {
            if let Some(cap) = cap {
                let lim = libc::rlimit {
                    rlim_cur: cap,
                    rlim_max: cap,
                };
                libc::setrlimit(libc::RLIMIT_AS, &lim);
            }
            let core = libc::rlimit {
                rlim_cur: 0,
                rlim_max: 0,
            };
            libc::setrlimit(libc::RLIMIT_CORE, &core);
            // do not outlive the parent (a machinery error must not leave a hung worker behind)
            libc::prctl(libc::PR_SET_PDEATHSIG, libc::SIGKILL);
            Ok(())
        });
    }
    let mut proc = cmd
        .spawn()
        .unwrap_or_else(|e| crate::machinery_error(&format!("spawn worker: {e}")));
    let stdin = proc.stdin.take().unwrap();
    let stdout = proc.stdout.take().unwrap();
    let (tx, rx) = mpsc::channel();
    std::thread::spawn(move || {
        let r = BufReader::new(stdout);
        for l in r.lines() {
            let Ok(l) = l else { break };
            if let Some(rest) = l.strip_prefix("VWR ") {
                if tx.send(rest.to_string()).is_err() {
                    break;
                }
            }
        }
    });
    Child {
        proc,
        stdin,
        rx,
        shm,
    }
}

/// Parent side.
pub fn run_sweep(cfg: &SweepCfg) -> SweepResult {
    let next = AtomicU64::new(0);
    let result = Mutex::new(SweepResult::default());
    let nchunks = cfg.total.div_ceil(cfg.chunk.max(1));
    std::thread::scope(|s| {
        for slot in 0..cfg.workers.max(1) {
            let next = &next;
            let result = &result;
            s.spawn(move || {
                let mut child: Option<Child> = None;
                loop {
                    if let Some(d) = cfg.deadline {
                        if Instant::now() > d {
                            result.lock().unwrap().capped = true;
                            break;
                        }
                    }
                    let c = next.fetch_add(1, Ordering::Relaxed);
                    if c >= nchunks {
                        break;
                    }
                    let lo0 = c * cfg.chunk;
                    let hi = ((c + 1) * cfg.chunk).min(cfg.total);
                    let mut lo = lo0;
                    // run [lo, hi), resuming after every abnormal case
                    while lo < hi {
                        let ch = child.get_or_insert_with(|| spawn_child(cfg, slot));
                        ch.shm.cell().store(0, Ordering::SeqCst);
                        if writeln!(ch.stdin, "{lo} {hi}").is_err() || ch.stdin.flush().is_err() {
                            // worker died before reading; restart
                            let _ = ch.proc.kill();
                            let _ = ch.proc.wait();
                            child = None;
                            continue;
                        }
                        let mut last_seen = 0u64;
                        let mut last_change = Instant::now();
                        let outcome: Result<String, Abnormal> = loop {
                            match ch.rx.recv_timeout(Duration::from_millis(20)) {
                                Ok(line) => break Ok(line),
                                Err(mpsc::RecvTimeoutError::Timeout) => {
                                    let cur = ch.shm.cell().load(Ordering::SeqCst);
                                    if cur != last_seen {
                                        last_seen = cur;
                                        last_change = Instant::now();
                                    } else if last_change.elapsed().as_millis() as u64
                                        > if cur == 0 { cfg.case_timeout_ms.max(60_000) } else { cfg.case_timeout_ms }
                                    {
                                        break Err(Abnormal::Hang);
                                    }
                                    if let Ok(Some(st)) = ch.proc.try_wait() {
                                        // drain a possibly pending line
                                        if let Ok(line) = ch.rx.recv_timeout(Duration::from_millis(50)) {
                                            break Ok(line);
                                        }
                                        break Err(Abnormal::Crashed {
                                            signal: st.signal(),
                                            code: st.code(),
                                        });
                                    }
                                }
                                Err(mpsc::RecvTimeoutError::Disconnected) => {
                                    let st = ch.proc.wait().ok();
                                    break Err(Abnormal::Crashed {
                                        signal: st.and_then(|s| s.signal()),
                                        code: st.and_then(|s| s.code()),
                                    });
                                }
                            }
                        };
                        match outcome {
                            Ok(line) => {
                                let v: Value = serde_json::from_str(&line).unwrap_or(Value::Null);
                                let mut r = result.lock().unwrap();
                                r.chunks.push(v);
                                r.cases_done += hi - lo;
                                lo = hi;
                            }
                            Err(ab) => {
                                let cur = ch.shm.cell().load(Ordering::SeqCst);
                                let _ = ch.proc.kill();
                                let _ = ch.proc.wait();
                                let _ = std::fs::remove_file(&ch.shm.path);
                                child = None;
                                if cur == 0 {
                                    // died before starting any case: machinery problem
                                    crate::machinery_error(&format!(
                                        "sweep worker for {} died before its first case ({ab:?})",
                                        cfg.name
                                    ));
                                }
                                let bad = cur - 1;
                                {
                                    let mut r = result.lock().unwrap();
                                    r.abnormal.push((bad, ab));
                                    r.cases_done += 1;
                                }
                                // the cases lo..bad ran but their aggregate is lost: re-run them
                                // (sweeps are deterministic), then continue after `bad`
                                if bad > lo {
                                    // re-issue [lo, bad) as its own piece
                                    let ch2 = child.get_or_insert_with(|| spawn_child(cfg, slot));
                                    ch2.shm.cell().store(0, Ordering::SeqCst);
                                    let _ = writeln!(ch2.stdin, "{lo} {bad}");
                                    let _ = ch2.stdin.flush();
                                    match ch2.rx.recv_timeout(Duration::from_millis(
                                        cfg.case_timeout_ms * (bad - lo + 1).min(50) + 5000,
                                    )) {
                                        Ok(line) => {
                                            let v: Value =
                                                serde_json::from_str(&line).unwrap_or(Value::Null);
                                            let mut r = result.lock().unwrap();
                                            r.chunks.push(v);
                                            r.cases_done += bad - lo;
                                        }
                                        Err(_) => crate::machinery_error(&format!(
                                            "sweep {}: re-run of [{lo},{bad}) did not complete although it did before",
                                            cfg.name
                                        )),
                                    }
                                }
                                lo = bad + 1;
                            }
                        }
                    }
                }
                if let Some(mut ch) = child {
                    drop(ch.stdin);
                    let _ = ch.proc.kill();
                    let _ = ch.proc.wait();
                    let _ = std::fs::remove_file(&ch.shm.path);
                }
            });
        }
    });
    let mut r = result.into_inner().unwrap();
    r.abnormal.sort_by_key(|(i, _)| *i);
    r
}
