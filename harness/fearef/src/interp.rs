//! Reference interpreter for the AST of [`crate::ast`].
//!
//! It works on the source rules directly, following the OpenType Feature File
//! specification (which lookups exist, in which order, what each rule means, which language
//! systems a feature's lookups are registered under) and the OpenType layout application
//! model (each lookup runs over the whole glyph string left to right; at each position the
//! first matching rule is applied and the cursor moves past the consumed input; lookup
//! flags make glyphs invisible to matching; contextual rules run their nested lookups once
//! at the marked positions).
//!
//! False-alarm control: wherever the specification does not fix the meaning of a program
//! (or implementations are known to read it differently) the interpreter does not pick a
//! reading — it returns [`Reject::Ambiguous`] and the caller skips the case. Programs the
//! specification makes invalid give [`Reject::IllFormed`].

use crate::ast::*;
use std::collections::{BTreeMap, BTreeSet, HashMap};

#[derive(Clone, Debug, PartialEq, Eq)]
pub enum Reject {
    /// The specification makes this program invalid (a compiler is expected to refuse it).
    IllFormed(String),
    /// The specification does not fix the meaning (or the construct is outside the modelled
    /// subset); no verdict is possible.
    Ambiguous(String),
}

fn ill<T>(s: impl Into<String>) -> Result<T, Reject> {
    Err(Reject::IllFormed(s.into()))
}
fn amb<T>(s: impl Into<String>) -> Result<T, Reject> {
    Err(Reject::Ambiguous(s.into()))
}

#[derive(Clone, Copy, Debug, PartialEq, Eq, Hash, PartialOrd, Ord)]
pub enum Kind {
    Single,
    Multiple,
    Ligature,
    Chain,
    SinglePos,
    PairPos,
}

impl Kind {
    pub fn is_gsub(self) -> bool {
        matches!(self, Kind::Single | Kind::Multiple | Kind::Ligature | Kind::Chain)
    }
    pub fn name(self) -> &'static str {
        match self {
            Kind::Single => "single",
            Kind::Multiple => "multiple",
            Kind::Ligature => "ligature",
            Kind::Chain => "chain",
            Kind::SinglePos => "singlepos",
            Kind::PairPos => "pairpos",
        }
    }
}

pub fn rule_kind(r: &Rule) -> Kind {
    match r {
        Rule::Single { .. } => Kind::Single,
        Rule::Multiple { .. } => Kind::Multiple,
        Rule::Ligature { .. } => Kind::Ligature,
        Rule::Chain { .. } | Rule::ChainMultiple { .. } | Rule::Ignore { .. } => Kind::Chain,
        Rule::SinglePos { .. } => Kind::SinglePos,
        Rule::PairPos { .. } => Kind::PairPos,
    }
}

#[derive(Clone, Debug)]
pub enum Action {
    /// inline single substitution at the (only) input position
    InlineSingle(Vec<(Gid, Gid)>),
    /// inline ligature substitution of the whole input sequence
    InlineLigature(Gid),
    /// inline multiple substitution of the (only) input glyph
    InlineMultiple(Vec<Gid>),
    /// `lookup NAME` at input position `pos`
    Nested { pos: usize, lookup: usize },
}

#[derive(Clone, Debug)]
pub enum RRule {
    Single(Vec<(Gid, Gid)>),
    Multiple(Gid, Vec<Gid>),
    /// every concrete component sequence of the rule, in class-expansion order
    Ligature { seqs: Vec<Vec<Gid>>, to: Gid },
    /// `back` is in logical (reading) order; `ignore` rules have no actions
    Chain {
        back: Vec<Vec<Gid>>,
        input: Vec<Vec<Gid>>,
        ahead: Vec<Vec<Gid>>,
        actions: Vec<Action>,
        is_ignore: bool,
    },
    SinglePos(Vec<Gid>, [i32; 4]),
    PairPos {
        first: Vec<Gid>,
        second: Vec<Gid>,
        value: [i32; 4],
        class: bool,
    },
}

/// A lookup flag after class resolution: the plain bits and the mark classes (sorted glyph
/// lists) of `MarkAttachmentType` / `UseMarkFilteringSet`.
#[derive(Clone, Debug, Default, PartialEq, Eq)]
pub struct RFlag {
    pub bits: u16,
    pub mark_attach: Option<Vec<Gid>>,
    pub mark_filter: Option<Vec<Gid>>,
}

impl RFlag {
    pub fn plain(bits: u16) -> Self {
        RFlag {
            bits,
            mark_attach: None,
            mark_filter: None,
        }
    }
    pub fn is_zero(&self) -> bool {
        self.bits == 0 && self.mark_attach.is_none() && self.mark_filter.is_none()
    }
}

#[derive(Clone, Debug)]
pub struct RLookup {
    pub kind: Kind,
    /// the plain flag bits (same as `filter.bits`)
    pub flag: u16,
    /// the whole flag, including the mark classes
    pub filter: RFlag,
    pub rules: Vec<RRule>,
    pub name: Option<String>,
}

pub type LangSys = (String, String);

/// The program after name resolution: lookups in declaration order, and for every feature
/// and language system the lookups registered there.
#[derive(Clone, Debug, Default)]
pub struct Resolved {
    pub lookups: Vec<RLookup>,
    pub names: HashMap<String, usize>,
    /// (feature, script, language) -> lookup indices in registration order
    pub registry: BTreeMap<(String, String, String), Vec<usize>>,
    pub declared: Vec<LangSys>,
}

#[derive(Clone, Debug, PartialEq, Eq)]
enum FlagState {
    Known(RFlag),
    Unknown,
}

struct Resolver {
    classes: HashMap<String, Vec<Gid>>,
    /// the classes named by MarkAttachmentType statements so far
    mat_classes: Vec<Vec<Gid>>,
    out: Resolved,
}

fn has_dup(v: &[Gid]) -> bool {
    let s: BTreeSet<_> = v.iter().collect();
    s.len() != v.len()
}

fn disjoint(a: &[Gid], b: &[Gid]) -> bool {
    !a.iter().any(|x| b.contains(x))
}

fn same_set(a: &[Gid], b: &[Gid]) -> bool {
    let x: BTreeSet<_> = a.iter().collect();
    let y: BTreeSet<_> = b.iter().collect();
    x == y
}

impl Resolver {
    fn expand(&self, g: &Gs) -> Result<Vec<Gid>, Reject> {
        let v = match g {
            Gs::G(g) => vec![*g],
            Gs::Lit(v) => v.clone(),
            Gs::Range(a, b) => {
                // spec 2.g.ii: a range over names that differ in a single letter, in
                // alphabetical order; only the one-letter names a..d (gids 1..4) are modelled
                if !(1..=4).contains(a) || !(1..=4).contains(b) {
                    return amb("range over glyph names that are not single letters");
                }
                if a > b {
                    return ill("glyph range start after end");
                }
                (*a..=*b).collect()
            }
            Gs::Named(n) => match self.classes.get(n) {
                Some(v) => v.clone(),
                None => return ill(format!("undefined glyph class @{n}")),
            },
        };
        if v.is_empty() {
            return ill("empty glyph class");
        }
        if v.iter().any(|g| *g == 0 || *g as usize >= GLYPH_NAMES.len()) {
            return ill("glyph not in font");
        }
        if has_dup(&v) {
            return amb("glyph class with a repeated glyph");
        }
        Ok(v)
    }

    /// A mark class operand of a lookupflag statement, as a sorted glyph list.
    fn mark_class(&self, g: &Gs) -> Result<Vec<Gid>, Reject> {
        let mut v = self.expand(g)?;
        if v.iter().any(|g| gdef_class(*g) != 3) {
            // only marks are filtered; what a non-mark member means is not modelled
            return amb("mark class of a lookupflag containing a glyph that is not a mark");
        }
        v.sort();
        Ok(v)
    }

    fn resolve_flag(&mut self, f: &LFlag) -> Result<RFlag, Reject> {
        if f.bits & !(FLAG_RIGHT_TO_LEFT | FLAG_IGNORE_BASE_GLYPHS | FLAG_IGNORE_LIGATURES | FLAG_IGNORE_MARKS) != 0 {
            return amb("lookupflag bits outside the four named flags");
        }
        let mark_attach = match &f.mark_attach {
            Some(c) => Some(self.mark_class(c)?),
            None => None,
        };
        let mark_filter = match &f.mark_filter {
            Some(c) => Some(self.mark_class(c)?),
            None => None,
        };
        if mark_attach.is_some() && mark_filter.is_some() {
            // OpenType states both conditions independently; shaping engines let the
            // filtering set take precedence
            return amb("MarkAttachmentType together with UseMarkFilteringSet");
        }
        if let Some(c) = &mark_attach {
            // spec 4.d: "The glyph sets of the referenced classes must not overlap"
            for other in &self.mat_classes {
                if other != c && !disjoint(other, c) {
                    return ill("MarkAttachmentType classes overlap");
                }
            }
            if !self.mat_classes.contains(c) {
                if self.mat_classes.len() >= 15 {
                    return ill("more than 15 MarkAttachmentType classes");
                }
                self.mat_classes.push(c.clone());
            }
        }
        Ok(RFlag {
            bits: f.bits,
            mark_attach,
            mark_filter,
        })
    }

    fn single_map(&self, from: &Gs, to: &Gs) -> Result<Vec<(Gid, Gid)>, Reject> {
        let f = self.expand(from)?;
        let t = self.expand(to)?;
        let from_is_class = !matches!(from, Gs::G(_));
        let to_is_class = !matches!(to, Gs::G(_));
        match (from_is_class, to_is_class) {
            (false, false) => Ok(vec![(f[0], t[0])]),
            (false, true) => {
                if t.len() == 1 {
                    Ok(vec![(f[0], t[0])])
                } else {
                    ill("glyph substituted by a glyph class")
                }
            }
            (true, false) => Ok(f.iter().map(|g| (*g, t[0])).collect()),
            (true, true) => {
                if t.len() == 1 {
                    Ok(f.iter().map(|g| (*g, t[0])).collect())
                } else if t.len() == f.len() {
                    Ok(f.iter().copied().zip(t.iter().copied()).collect())
                } else {
                    ill("class substitution with classes of different length")
                }
            }
        }
    }

    fn expand_seq(&self, v: &[Gs]) -> Result<Vec<Vec<Gid>>, Reject> {
        v.iter().map(|g| self.expand(g)).collect()
    }

    fn resolve_rule(&self, r: &Rule) -> Result<RRule, Reject> {
        Ok(match r {
            Rule::Single { from, to } => RRule::Single(self.single_map(from, to)?),
            Rule::Multiple { from, to } => {
                if to.len() < 2 {
                    return amb("multiple substitution with fewer than two output glyphs");
                }
                RRule::Multiple(*from, to.clone())
            }
            Rule::Ligature { comps, to } => {
                if comps.len() < 2 {
                    return amb("ligature with a single component");
                }
                let sets = self.expand_seq(comps)?;
                let mut seqs: Vec<Vec<Gid>> = vec![vec![]];
                for set in &sets {
                    let mut next = vec![];
                    for s in &seqs {
                        for g in set {
                            let mut t = s.clone();
                            t.push(*g);
                            next.push(t);
                        }
                    }
                    seqs = next;
                }
                RRule::Ligature { seqs, to: *to }
            }
            Rule::Chain {
                back,
                input,
                ahead,
                by,
            } => {
                if input.is_empty() {
                    return ill("contextual rule without marked glyphs");
                }
                let in_sets: Vec<Vec<Gid>> = input
                    .iter()
                    .map(|(g, _)| self.expand(g))
                    .collect::<Result<_, _>>()?;
                let mut actions = vec![];
                let has_refs = input.iter().any(|(_, l)| !l.is_empty());
                match by {
                    Some(by) => {
                        if has_refs {
                            return amb("contextual rule with both inline and named lookups");
                        }
                        if input.len() == 1 {
                            actions.push(Action::InlineSingle(self.single_map(&input[0].0, by)?));
                        } else {
                            match by {
                                Gs::G(g) => actions.push(Action::InlineLigature(*g)),
                                _ => return ill("inline ligature replaced by a class"),
                            }
                        }
                    }
                    None => {
                        if !has_refs {
                            return amb("contextual rule without any action");
                        }
                        for (pos, (_, refs)) in input.iter().enumerate() {
                            for name in refs {
                                let Some(&li) = self.out.names.get(name) else {
                                    return ill(format!("lookup {name} referenced before definition"));
                                };
                                let k = self.out.lookups[li].kind;
                                if !k.is_gsub() {
                                    return ill("GPOS lookup referenced from a substitution rule");
                                }
                                if k == Kind::Chain {
                                    return amb("contextual lookup nested in a contextual rule");
                                }
                                actions.push(Action::Nested { pos, lookup: li });
                            }
                        }
                    }
                }
                RRule::Chain {
                    back: self.expand_seq(back)?,
                    input: in_sets,
                    ahead: self.expand_seq(ahead)?,
                    actions,
                    is_ignore: false,
                }
            }
            Rule::ChainMultiple {
                back,
                input,
                ahead,
                to,
            } => {
                if to.len() < 2 {
                    return amb("multiple substitution with fewer than two output glyphs");
                }
                let input = self.expand(&Gs::G(*input))?;
                for g in to {
                    self.expand(&Gs::G(*g))?;
                }
                RRule::Chain {
                    back: self.expand_seq(back)?,
                    input: vec![input],
                    ahead: self.expand_seq(ahead)?,
                    actions: vec![Action::InlineMultiple(to.clone())],
                    is_ignore: false,
                }
            }
            Rule::Ignore { back, input, ahead } => {
                if input.len() != 1 {
                    // with several marked glyphs the binary skips the whole input sequence;
                    // the feature-file text ("exception to the following rules") does not say so
                    return amb("ignore rule with other than one marked glyph");
                }
                RRule::Chain {
                    back: self.expand_seq(back)?,
                    input: self.expand_seq(input)?,
                    ahead: self.expand_seq(ahead)?,
                    actions: vec![],
                    is_ignore: true,
                }
            }
            Rule::SinglePos { target, value } => {
                RRule::SinglePos(self.expand(target)?, value.as_array())
            }
            Rule::PairPos {
                first,
                second,
                value,
                enumerate,
            } => {
                let class = !*enumerate
                    && (!matches!(first, Gs::G(_)) || !matches!(second, Gs::G(_)));
                RRule::PairPos {
                    first: self.expand(first)?,
                    second: self.expand(second)?,
                    value: value.as_array(),
                    class,
                }
            }
        })
    }

    /// Whole-lookup conditions under which "first matching rule" is what the specification
    /// fixes.
    fn check_lookup(&self, l: &RLookup) -> Result<(), Reject> {
        if l.rules.is_empty() {
            return amb("empty lookup");
        }
        match l.kind {
            Kind::Single => {
                let mut seen: Vec<Gid> = vec![];
                for r in &l.rules {
                    if let RRule::Single(m) = r {
                        for (f, _) in m {
                            if seen.contains(f) {
                                return amb("glyph substituted by two rules of one lookup");
                            }
                            seen.push(*f);
                        }
                    }
                }
            }
            Kind::Multiple => {
                let mut seen: Vec<Gid> = vec![];
                for r in &l.rules {
                    if let RRule::Multiple(f, _) = r {
                        if seen.contains(f) {
                            return amb("glyph substituted by two rules of one lookup");
                        }
                        seen.push(*f);
                    }
                }
            }
            Kind::Ligature => {
                let mut seen: Vec<&Vec<Gid>> = vec![];
                for r in &l.rules {
                    if let RRule::Ligature { seqs, .. } = r {
                        for s in seqs {
                            if seen.contains(&s) {
                                return amb("two ligature rules for the same component sequence");
                            }
                            seen.push(s);
                        }
                    }
                }
            }
            Kind::Chain => {
                // an ignore rule is an exception to the rules that follow it in the lookup
                if let Some(RRule::Chain { is_ignore: true, .. }) = l.rules.last() {
                    return amb("ignore rule not followed by a substitution rule");
                }
            }
            Kind::SinglePos => {
                let mut seen: Vec<Gid> = vec![];
                for r in &l.rules {
                    if let RRule::SinglePos(t, _) = r {
                        for g in t {
                            if seen.contains(g) {
                                return amb("glyph positioned by two rules of one lookup");
                            }
                            seen.push(*g);
                        }
                    }
                }
            }
            Kind::PairPos => {
                let mut seen_class = false;
                let mut pairs: Vec<(Gid, Gid)> = vec![];
                let mut classes: Vec<(&Vec<Gid>, &Vec<Gid>)> = vec![];
                for r in &l.rules {
                    if let RRule::PairPos {
                        first,
                        second,
                        class,
                        value,
                    } = r
                    {
                        if *value == [0, 0, 0, 0] {
                            return amb("pair rule with an all-zero value");
                        }
                        if *class {
                            seen_class = true;
                            for (f, s) in &classes {
                                if same_set(f, first) {
                                    if !disjoint(s, second) {
                                        return amb(
                                            "class pairs with the same first class and overlapping second classes",
                                        );
                                    }
                                } else if !disjoint(f, first) {
                                    return amb("class pairs with partially overlapping first classes");
                                }
                            }
                            classes.push((first, second));
                        } else {
                            if seen_class {
                                return amb("specific glyph pair after a class pair");
                            }
                            for f in first {
                                for s in second {
                                    if pairs.contains(&(*f, *s)) {
                                        return amb("the same glyph pair positioned twice");
                                    }
                                    pairs.push((*f, *s));
                                }
                            }
                        }
                    }
                }
            }
        }
        Ok(())
    }

    /// The body of a named lookup block: optional `lookupflag` first, then rules of one kind.
    fn named_block(
        &mut self,
        name: &str,
        body: &[Stmt],
        inherited: FlagState,
    ) -> Result<(usize, bool), Reject> {
        if self.out.names.contains_key(name) {
            return ill(format!("lookup {name} defined twice"));
        }
        let mut flag = inherited;
        let mut had_flag_stmt = false;
        let mut rules: Vec<RRule> = vec![];
        let mut kind: Option<Kind> = None;
        for s in body {
            match s {
                Stmt::LookupFlag(_) | Stmt::LookupFlagEx(_) => {
                    if !rules.is_empty() {
                        return amb("lookupflag after rules inside a lookup block");
                    }
                    let f = match s {
                        Stmt::LookupFlag(bits) => self.resolve_flag(&LFlag::bits(*bits))?,
                        Stmt::LookupFlagEx(f) => self.resolve_flag(f)?,
                        _ => unreachable!(),
                    };
                    flag = FlagState::Known(f);
                    had_flag_stmt = true;
                }
                Stmt::Rule(r) => {
                    let k = rule_kind(r);
                    match kind {
                        None => kind = Some(k),
                        Some(k0) if k0 != k => {
                            return ill("rules of different types in one lookup block");
                        }
                        _ => {}
                    }
                    rules.push(self.resolve_rule(r)?);
                }
                _ => return amb("statement other than lookupflag/rule in a lookup block"),
            }
        }
        let FlagState::Known(flag) = flag else {
            return amb("lookup block inherits a lookupflag whose value the specification does not fix");
        };
        let Some(kind) = kind else {
            return amb("empty lookup block");
        };
        let l = RLookup {
            kind,
            flag: flag.bits,
            filter: flag,
            rules,
            name: Some(name.to_string()),
        };
        self.check_lookup(&l)?;
        let idx = self.out.lookups.len();
        self.out.lookups.push(l);
        self.out.names.insert(name.to_string(), idx);
        Ok((idx, had_flag_stmt))
    }

    fn feature(&mut self, tag: &str, body: &[Stmt]) -> Result<(), Reject> {
        let declared: Vec<LangSys> = if self.out.declared.is_empty() {
            vec![("DFLT".to_string(), "dflt".to_string())]
        } else {
            self.out.declared.clone()
        };
        // a declared non-default language needs its script default declared as well, otherwise
        // what `script`/`language` statements inherit differs between readings
        for (s, l) in &declared {
            if l != "dflt" && !declared.contains(&(s.clone(), "dflt".to_string())) {
                return amb("languagesystem with a language but without the script's dflt");
            }
        }
        let mut map: BTreeMap<LangSys, Vec<usize>> = BTreeMap::new();
        for k in &declared {
            map.insert(k.clone(), vec![]);
        }
        let mut cur: Option<LangSys> = None;
        let mut seen: Vec<LangSys> = vec![];
        let mut flag = FlagState::Known(RFlag::default());
        // the open anonymous lookup, if the previous statement was a rule
        let mut open: Option<usize> = None;

        fn register(
            map: &mut BTreeMap<LangSys, Vec<usize>>,
            cur: &Option<LangSys>,
            declared: &[LangSys],
            idx: usize,
        ) {
            match cur {
                None => {
                    for k in declared {
                        map.entry(k.clone()).or_default().push(idx);
                    }
                }
                Some(k) => map.entry(k.clone()).or_default().push(idx),
            }
        }

        for s in body {
            match s {
                Stmt::Rule(r) => {
                    let k = rule_kind(r);
                    let rr = self.resolve_rule(r)?;
                    if let Some(i) = open {
                        if self.out.lookups[i].kind == k {
                            self.out.lookups[i].rules.push(rr);
                            continue;
                        }
                        let k0 = self.out.lookups[i].kind;
                        let mergeable = |a: Kind, b: Kind| {
                            a == Kind::Single && matches!(b, Kind::Multiple | Kind::Ligature)
                        };
                        if mergeable(k0, k) || mergeable(k, k0) {
                            // feaLib and fea-rs fold these into one lookup, the specification
                            // text starts a new lookup at every change of rule type
                            return amb("single substitution next to multiple/ligature substitution outside a lookup block");
                        }
                    }
                    let FlagState::Known(f) = flag.clone() else {
                        return amb("rule after a lookup block that set a lookupflag, without a new lookupflag statement");
                    };
                    let idx = self.out.lookups.len();
                    self.out.lookups.push(RLookup {
                        kind: k,
                        flag: f.bits,
                        filter: f,
                        rules: vec![rr],
                        name: None,
                    });
                    register(&mut map, &cur, &declared, idx);
                    open = Some(idx);
                }
                Stmt::LookupFlag(_) | Stmt::LookupFlagEx(_) => {
                    let f = match s {
                        Stmt::LookupFlag(bits) => self.resolve_flag(&LFlag::bits(*bits))?,
                        Stmt::LookupFlagEx(f) => self.resolve_flag(f)?,
                        _ => unreachable!(),
                    };
                    if open.is_some() && flag == FlagState::Known(f.clone()) {
                        // new lookup (feaLib) or not (fea-rs)?
                        return amb("lookupflag statement that does not change the flag between rules");
                    }
                    flag = FlagState::Known(f);
                    open = None;
                }
                Stmt::Lookup { name, body } => {
                    open = None;
                    // spec: "defaults to 0 at the start of a named lookup block"; feaLib and
                    // fea-rs inherit the feature's current flag. Only flag 0 is unambiguous.
                    let inherited = match &flag {
                        FlagState::Known(f) if f.is_zero() => FlagState::Known(RFlag::default()),
                        _ => FlagState::Unknown,
                    };
                    let (idx, had_flag) = self.named_block(name, body, inherited)?;
                    if had_flag {
                        flag = FlagState::Unknown;
                    }
                    register(&mut map, &cur, &declared, idx);
                }
                Stmt::LookupRef(name) => {
                    open = None;
                    let Some(&idx) = self.out.names.get(name) else {
                        return ill(format!("lookup {name} referenced before definition"));
                    };
                    // spec: the lookupflag attribute stays "until a lookup reference
                    // statement is encountered that changes it"; implementations do not
                    // change it. Unknown unless both readings coincide.
                    if flag != FlagState::Known(self.out.lookups[idx].filter.clone()) {
                        flag = FlagState::Unknown;
                    }
                    register(&mut map, &cur, &declared, idx);
                }
                Stmt::Script(tag) => {
                    open = None;
                    if flag != FlagState::Known(RFlag::default()) {
                        return amb("script statement while a lookupflag is set");
                    }
                    let key = (tag.clone(), "dflt".to_string());
                    if seen.contains(&key) {
                        return amb("script statement repeated in a feature");
                    }
                    seen.push(key.clone());
                    map.entry(key.clone()).or_default();
                    cur = Some(key);
                }
                Stmt::Language { tag, exclude_dflt } => {
                    open = None;
                    if flag != FlagState::Known(RFlag::default()) {
                        return amb("language statement while a lookupflag is set");
                    }
                    let Some((script, _)) = cur.clone() else {
                        return amb("language statement before any script statement");
                    };
                    if tag == "dflt" {
                        return amb("explicit 'language dflt'");
                    }
                    let key = (script.clone(), tag.clone());
                    if seen.contains(&key) {
                        return amb("language statement repeated in a feature");
                    }
                    seen.push(key.clone());
                    let inherited = if *exclude_dflt {
                        vec![]
                    } else {
                        map.get(&(script, "dflt".to_string())).cloned().unwrap_or_default()
                    };
                    map.insert(key.clone(), inherited);
                    cur = Some(key);
                }
            }
        }
        // anonymous lookups are complete only now
        for i in 0..self.out.lookups.len() {
            if self.out.lookups[i].name.is_none() {
                let l = self.out.lookups[i].clone();
                self.check_lookup(&l)?;
            }
        }
        for ((s, l), v) in map {
            self.out
                .registry
                .entry((tag.to_string(), s, l))
                .or_default()
                .extend(v);
        }
        Ok(())
    }
}

/// Resolve names, group rules into lookups (declaration order), register lookups under
/// language systems.
pub fn resolve(p: &Program) -> Result<Resolved, Reject> {
    let mut r = Resolver {
        classes: HashMap::new(),
        mat_classes: vec![],
        out: Resolved::default(),
    };
    let mut seen_other = false;
    for t in &p.items {
        match t {
            Top::LanguageSystem { script, lang } => {
                if seen_other {
                    return amb("languagesystem after other statements");
                }
                let key = (script.clone(), lang.clone());
                if r.out.declared.contains(&key) {
                    return amb("languagesystem declared twice");
                }
                if script == "DFLT" && lang == "dflt" && !r.out.declared.is_empty() {
                    return ill("languagesystem DFLT dflt must come first");
                }
                r.out.declared.push(key);
            }
            Top::ClassDef { name, glyphs } => {
                seen_other = true;
                if r.classes.contains_key(name) {
                    return amb("glyph class redefined");
                }
                if has_dup(glyphs) {
                    return amb("glyph class with a repeated glyph");
                }
                r.classes.insert(name.clone(), glyphs.clone());
            }
            Top::Gdef => seen_other = true,
            Top::Lookup { name, body } => {
                seen_other = true;
                r.named_block(name, body, FlagState::Known(RFlag::default()))?;
            }
            Top::Feature { tag, body } => {
                seen_other = true;
                r.feature(tag, body)?;
            }
        }
    }
    Ok(r.out)
}

// ------------------------------------------------------------------ application

#[derive(Clone, Debug, PartialEq, Eq)]
pub struct OutGlyph {
    pub gid: Gid,
    /// xPlacement, yPlacement, xAdvance, yAdvance adjustments
    pub adj: [i32; 4],
}

/// What happened while shaping one string (for the non-vacuity counters).
#[derive(Clone, Debug, Default, PartialEq, Eq)]
pub struct Trace {
    pub rules_fired: u32,
    pub contextual_fired: u32,
    pub ignore_fired: u32,
    pub nested_fired: u32,
    /// a rule matched across at least one glyph made invisible by the lookup flag
    pub skip_mattered: u32,
    pub ligature_longest_won: u32,
    /// as `skip_mattered`, in a lookup with MarkAttachmentType or UseMarkFilteringSet
    pub mark_class_skip_mattered: u32,
}

/// OpenType "LookupFlag": IgnoreBaseGlyphs / IgnoreLigatures / IgnoreMarks make the glyphs
/// of GDEF class 1 / 2 / 3 invisible; of the remaining marks a mark filtering set keeps
/// only its members, a mark attachment type only the marks of that class.
fn skipped(flag: &RFlag, g: Gid) -> bool {
    let class = gdef_class(g);
    if flag.bits & FLAG_IGNORE_BASE_GLYPHS != 0 && class == 1 {
        return true;
    }
    if flag.bits & FLAG_IGNORE_LIGATURES != 0 && class == 2 {
        return true;
    }
    if flag.bits & FLAG_IGNORE_MARKS != 0 && class == 3 {
        return true;
    }
    if class == 3 {
        if let Some(set) = &flag.mark_filter {
            if !set.contains(&g) {
                return true;
            }
        }
        if let Some(cls) = &flag.mark_attach {
            if !cls.contains(&g) {
                return true;
            }
        }
    }
    false
}

fn next_visible(buf: &[OutGlyph], from: usize, flag: &RFlag) -> Option<usize> {
    (from..buf.len()).find(|&i| !skipped(flag, buf[i].gid))
}

fn prev_visible(buf: &[OutGlyph], before: usize, flag: &RFlag) -> Option<usize> {
    (0..before).rev().find(|&i| !skipped(flag, buf[i].gid))
}

/// Match `sets` against the visible glyphs starting with the glyph at `start` exactly.
fn match_from(buf: &[OutGlyph], start: usize, sets: &[&[Gid]], flag: &RFlag) -> Option<Vec<usize>> {
    let mut pos = Vec::with_capacity(sets.len());
    let mut cur = start;
    for (k, set) in sets.iter().enumerate() {
        let i = if k == 0 {
            if cur >= buf.len() {
                return None;
            }
            cur
        } else {
            next_visible(buf, cur, flag)?
        };
        if !set.contains(&buf[i].gid) {
            return None;
        }
        pos.push(i);
        cur = i + 1;
    }
    Some(pos)
}

struct Applied {
    /// cursor after the application
    next: usize,
    /// change of the string length
    delta: isize,
    /// positions (before the application) that were matched as input
    touched: Vec<usize>,
}

impl Resolved {
    /// Language systems that have at least one lookup of the table, per table.
    pub fn keys(&self) -> (BTreeSet<LangSys>, BTreeSet<LangSys>) {
        let mut gsub = BTreeSet::new();
        let mut gpos = BTreeSet::new();
        for ((_, s, l), v) in &self.registry {
            for i in v {
                if self.lookups[*i].kind.is_gsub() {
                    gsub.insert((s.clone(), l.clone()));
                } else {
                    gpos.insert((s.clone(), l.clone()));
                }
            }
        }
        (gsub, gpos)
    }

    /// Lookups of all features registered under exactly (script, lang), ascending and
    /// without repeats, split into (GSUB, GPOS).
    pub fn active(&self, script: &str, lang: &str) -> (Vec<usize>, Vec<usize>) {
        let mut all: BTreeSet<usize> = BTreeSet::new();
        for ((_, s, l), v) in &self.registry {
            if s == script && l == lang {
                all.extend(v.iter().copied());
            }
        }
        let gsub = all
            .iter()
            .copied()
            .filter(|i| self.lookups[*i].kind.is_gsub())
            .collect();
        let gpos = all
            .iter()
            .copied()
            .filter(|i| !self.lookups[*i].kind.is_gsub())
            .collect();
        (gsub, gpos)
    }

    /// Apply the lookups registered under (script, lang): GSUB lookups in declaration
    /// order, then GPOS lookups in declaration order.
    pub fn shape(
        &self,
        script: &str,
        lang: &str,
        gsub: bool,
        gpos: bool,
        input: &[Gid],
    ) -> Result<(Vec<OutGlyph>, Trace), Reject> {
        let mut buf: Vec<OutGlyph> = input
            .iter()
            .map(|g| OutGlyph {
                gid: *g,
                adj: [0; 4],
            })
            .collect();
        let mut trace = Trace::default();
        let (s, p) = self.active(script, lang);
        if gsub {
            for li in s {
                self.apply_whole(li, &mut buf, &mut trace)?;
            }
        }
        if gpos {
            for li in p {
                self.apply_whole(li, &mut buf, &mut trace)?;
            }
        }
        Ok((buf, trace))
    }

    pub fn apply_whole(
        &self,
        li: usize,
        buf: &mut Vec<OutGlyph>,
        trace: &mut Trace,
    ) -> Result<(), Reject> {
        let flag = &self.lookups[li].filter;
        let mut i = 0;
        while i < buf.len() {
            if skipped(flag, buf[i].gid) {
                i += 1;
                continue;
            }
            match self.apply_at(li, buf, i, trace)? {
                Some(a) => {
                    if a.next <= i {
                        return amb("cursor does not advance");
                    }
                    i = a.next;
                }
                None => i += 1,
            }
        }
        Ok(())
    }

    /// Try the rules of lookup `li` at position `i` (whose glyph is visible to the lookup).
    fn apply_at(
        &self,
        li: usize,
        buf: &mut Vec<OutGlyph>,
        i: usize,
        trace: &mut Trace,
    ) -> Result<Option<Applied>, Reject> {
        let l = &self.lookups[li];
        let flag = &l.filter;
        let has_mark_class = flag.mark_attach.is_some() || flag.mark_filter.is_some();
        let g = buf[i].gid;
        match l.kind {
            Kind::Single => {
                for r in &l.rules {
                    if let RRule::Single(m) = r {
                        if let Some((_, t)) = m.iter().find(|(f, _)| *f == g) {
                            buf[i].gid = *t;
                            trace.rules_fired += 1;
                            return Ok(Some(Applied {
                                next: i + 1,
                                delta: 0,
                                touched: vec![i],
                            }));
                        }
                    }
                }
                Ok(None)
            }
            Kind::Multiple => {
                for r in &l.rules {
                    if let RRule::Multiple(f, to) = r {
                        if *f == g {
                            let adj = buf[i].adj;
                            let new: Vec<OutGlyph> =
                                to.iter().map(|g| OutGlyph { gid: *g, adj }).collect();
                            buf.splice(i..i + 1, new);
                            trace.rules_fired += 1;
                            return Ok(Some(Applied {
                                next: i + to.len(),
                                delta: to.len() as isize - 1,
                                touched: vec![i],
                            }));
                        }
                    }
                }
                Ok(None)
            }
            Kind::Ligature => {
                // spec 5.d: the implementation sorts so that the longest match wins;
                // otherwise source order
                let mut best: Option<(Vec<usize>, Gid)> = None;
                let mut n_matching = 0;
                for r in &l.rules {
                    if let RRule::Ligature { seqs, to } = r {
                        for s in seqs {
                            let sets: Vec<&[Gid]> = s.iter().map(std::slice::from_ref).collect();
                            if let Some(pos) = match_from(buf, i, &sets, flag) {
                                n_matching += 1;
                                if best.as_ref().map(|(p, _)| pos.len() > p.len()).unwrap_or(true) {
                                    best = Some((pos, *to));
                                }
                            }
                        }
                    }
                }
                let Some((pos, to)) = best else {
                    return Ok(None);
                };
                if n_matching > 1 {
                    trace.ligature_longest_won += 1;
                }
                if has_mark_class && pos.windows(2).any(|w| w[1] != w[0] + 1) {
                    trace.mark_class_skip_mattered += 1;
                }
                Ok(Some(self.ligate(buf, &pos, to, trace)))
            }
            Kind::SinglePos => {
                for r in &l.rules {
                    if let RRule::SinglePos(t, v) = r {
                        if t.contains(&g) {
                            for k in 0..4 {
                                buf[i].adj[k] += v[k];
                            }
                            trace.rules_fired += 1;
                            return Ok(Some(Applied {
                                next: i + 1,
                                delta: 0,
                                touched: vec![i],
                            }));
                        }
                    }
                }
                Ok(None)
            }
            Kind::PairPos => {
                let Some(j) = next_visible(buf, i + 1, flag) else {
                    return Ok(None);
                };
                let g2 = buf[j].gid;
                for r in &l.rules {
                    if let RRule::PairPos {
                        first,
                        second,
                        value,
                        ..
                    } = r
                    {
                        if first.contains(&g) && second.contains(&g2) {
                            for k in 0..4 {
                                buf[i].adj[k] += value[k];
                            }
                            trace.rules_fired += 1;
                            if j > i + 1 {
                                trace.skip_mattered += 1;
                                if has_mark_class {
                                    trace.mark_class_skip_mattered += 1;
                                }
                            }
                            // no value for the second glyph: it is the next first glyph
                            return Ok(Some(Applied {
                                next: j,
                                delta: 0,
                                touched: vec![i, j],
                            }));
                        }
                    }
                }
                Ok(None)
            }
            Kind::Chain => {
                for r in &l.rules {
                    let RRule::Chain {
                        back,
                        input,
                        ahead,
                        actions,
                        is_ignore,
                    } = r
                    else {
                        continue;
                    };
                    let in_sets: Vec<&[Gid]> = input.iter().map(|v| v.as_slice()).collect();
                    let Some(pos) = match_from(buf, i, &in_sets, flag) else {
                        continue;
                    };
                    let mut skipped_any = pos.windows(2).any(|w| w[1] != w[0] + 1);
                    // backtrack: nearest first
                    let mut cur = i;
                    let mut ok = true;
                    for set in back.iter().rev() {
                        match prev_visible(buf, cur, flag) {
                            Some(p) if set.contains(&buf[p].gid) => {
                                if p + 1 != cur {
                                    skipped_any = true;
                                }
                                cur = p;
                            }
                            _ => {
                                ok = false;
                                break;
                            }
                        }
                    }
                    if !ok {
                        continue;
                    }
                    let mut cur = *pos.last().unwrap() + 1;
                    for set in ahead {
                        match next_visible(buf, cur, flag) {
                            Some(p) if set.contains(&buf[p].gid) => {
                                if p != cur {
                                    skipped_any = true;
                                }
                                cur = p + 1;
                            }
                            _ => {
                                ok = false;
                                break;
                            }
                        }
                    }
                    if !ok {
                        continue;
                    }
                    // the rule matches
                    trace.rules_fired += 1;
                    trace.contextual_fired += 1;
                    if skipped_any {
                        trace.skip_mattered += 1;
                        if has_mark_class {
                            trace.mark_class_skip_mattered += 1;
                        }
                    }
                    if *is_ignore {
                        trace.ignore_fired += 1;
                    }
                    let mut end = *pos.last().unwrap() + 1;
                    let mut total_delta: isize = 0;
                    let n_actions = actions.len();
                    for (ai, a) in actions.iter().enumerate() {
                        match a {
                            Action::InlineSingle(m) => {
                                let p = pos[0];
                                let (_, t) = m
                                    .iter()
                                    .find(|(f, _)| *f == buf[p].gid)
                                    .expect("input glyph is in the rule's class");
                                buf[p].gid = *t;
                            }
                            Action::InlineLigature(to) => {
                                let a = self.ligate(buf, &pos, *to, &mut Trace::default());
                                total_delta += a.delta;
                                end = (end as isize + a.delta) as usize;
                            }
                            Action::InlineMultiple(to) => {
                                let p = pos[0];
                                let adj = buf[p].adj;
                                let new: Vec<OutGlyph> =
                                    to.iter().map(|g| OutGlyph { gid: *g, adj }).collect();
                                buf.splice(p..p + 1, new);
                                let d = to.len() as isize - 1;
                                total_delta += d;
                                end = (end as isize + d) as usize;
                            }
                            Action::Nested { pos: k, lookup } => {
                                if total_delta != 0 {
                                    return amb("nested lookup after a nested lookup that changed the string length");
                                }
                                let p = pos[*k];
                                let nl = &self.lookups[*lookup];
                                if skipped(&nl.filter, buf[p].gid) {
                                    return amb("nested lookup applied at a glyph its own flag ignores");
                                }
                                if let Some(ap) = self.apply_at(*lookup, buf, p, trace)? {
                                    trace.nested_fired += 1;
                                    // everything the nested lookup consumed must be part of
                                    // the marked input of this rule
                                    if ap.touched.iter().any(|t| !pos.contains(t)) {
                                        return amb("nested lookup consumed glyphs outside the marked input");
                                    }
                                    if ap.delta != 0 && ai + 1 != n_actions {
                                        return amb("nested lookup changed the string length before another nested lookup");
                                    }
                                    total_delta += ap.delta;
                                    end = (end as isize + ap.delta) as usize;
                                }
                            }
                        }
                    }
                    if end <= i {
                        return amb("contextual match ends before it starts");
                    }
                    return Ok(Some(Applied {
                        next: end,
                        delta: total_delta,
                        touched: pos,
                    }));
                }
                Ok(None)
            }
        }
    }

    /// Replace the glyphs at `pos` by the ligature at `pos[0]`; glyphs in between (ignored
    /// marks) stay, after the ligature.
    fn ligate(&self, buf: &mut Vec<OutGlyph>, pos: &[usize], to: Gid, trace: &mut Trace) -> Applied {
        let last = *pos.last().unwrap();
        let n = pos.len();
        if pos.windows(2).any(|w| w[1] != w[0] + 1) {
            trace.skip_mattered += 1;
        }
        buf[pos[0]].gid = to;
        for p in pos[1..].iter().rev() {
            buf.remove(*p);
        }
        trace.rules_fired += 1;
        Applied {
            next: last + 1 - (n - 1),
            delta: -((n - 1) as isize),
            touched: pos.to_vec(),
        }
    }
}

#[cfg(test)]
mod tests {
    use super::*;

    fn feat(body: Vec<Stmt>) -> Program {
        Program {
            items: vec![
                Top::Gdef,
                Top::Feature {
                    tag: "test".into(),
                    body,
                },
            ],
        }
    }

    fn gids(v: &[OutGlyph]) -> Vec<Gid> {
        v.iter().map(|g| g.gid).collect()
    }

    fn run(p: &Program, s: &[Gid]) -> Vec<OutGlyph> {
        resolve(p).unwrap().shape("DFLT", "dflt", true, true, s).unwrap().0
    }

    #[test]
    fn single_is_not_chained_within_a_lookup() {
        let p = feat(vec![
            Stmt::Rule(Rule::Single { from: Gs::G(G_A), to: Gs::G(G_B) }),
            Stmt::Rule(Rule::Single { from: Gs::G(G_B), to: Gs::G(G_C) }),
        ]);
        assert_eq!(gids(&run(&p, &[G_A, G_B])), vec![G_B, G_C]);
    }

    #[test]
    fn two_lookups_are_chained() {
        let p = feat(vec![
            Stmt::Lookup {
                name: "L0".into(),
                body: vec![Stmt::Rule(Rule::Single { from: Gs::G(G_A), to: Gs::G(G_B) })],
            },
            Stmt::Lookup {
                name: "L1".into(),
                body: vec![Stmt::Rule(Rule::Single { from: Gs::G(G_B), to: Gs::G(G_C) })],
            },
        ]);
        assert_eq!(gids(&run(&p, &[G_A, G_B])), vec![G_C, G_C]);
    }

    #[test]
    fn ligature_longest_first_and_marks() {
        let lig = |c: Vec<Gid>, to| {
            Stmt::Rule(Rule::Ligature { comps: c.into_iter().map(Gs::G).collect(), to })
        };
        let p = feat(vec![lig(vec![G_A, G_B], G_FF), lig(vec![G_A, G_B, G_C], G_D)]);
        assert_eq!(gids(&run(&p, &[G_A, G_B, G_C])), vec![G_D]);
        assert_eq!(gids(&run(&p, &[G_A, G_B, G_B])), vec![G_FF, G_B]);
        assert_eq!(gids(&run(&p, &[G_A, G_ACUTE, G_B])), vec![G_A, G_ACUTE, G_B]);
        let p = feat(vec![Stmt::LookupFlag(FLAG_IGNORE_MARKS), lig(vec![G_A, G_B], G_FF)]);
        assert_eq!(gids(&run(&p, &[G_A, G_ACUTE, G_B, G_A])), vec![G_FF, G_ACUTE, G_A]);
    }

    #[test]
    fn contextual_with_ignore() {
        let p = feat(vec![
            Stmt::Rule(Rule::Ignore { back: vec![Gs::G(G_A)], input: vec![Gs::G(G_B)], ahead: vec![Gs::G(G_C)] }),
            Stmt::Rule(Rule::Chain {
                back: vec![],
                input: vec![(Gs::G(G_B), vec![])],
                ahead: vec![Gs::G(G_C)],
                by: Some(Gs::G(G_A)),
            }),
        ]);
        assert_eq!(gids(&run(&p, &[G_A, G_B, G_C])), vec![G_A, G_B, G_C]);
        assert_eq!(gids(&run(&p, &[G_D, G_B, G_C])), vec![G_D, G_A, G_C]);
    }

    #[test]
    fn pair_second_glyph_is_next_first() {
        let pair = |a, b, v| {
            Stmt::Rule(Rule::PairPos { first: Gs::G(a), second: Gs::G(b), value: Value::Adv(v), enumerate: false })
        };
        let p = feat(vec![pair(G_A, G_B, 10), pair(G_B, G_C, 20)]);
        let out = run(&p, &[G_A, G_B, G_C]);
        assert_eq!(out[0].adj, [0, 0, 10, 0]);
        assert_eq!(out[1].adj, [0, 0, 20, 0]);
    }

    #[test]
    fn language_inherits_script_default() {
        let sub = |a, b| Stmt::Rule(Rule::Single { from: Gs::G(a), to: Gs::G(b) });
        let p = Program {
            items: vec![
                Top::LanguageSystem { script: "DFLT".into(), lang: "dflt".into() },
                Top::LanguageSystem { script: "latn".into(), lang: "dflt".into() },
                Top::Feature {
                    tag: "test".into(),
                    body: vec![
                        sub(G_A, G_B),
                        Stmt::Script("latn".into()),
                        Stmt::Language { tag: "TRK".into(), exclude_dflt: false },
                        sub(G_C, G_D),
                    ],
                },
            ],
        };
        let r = resolve(&p).unwrap();
        assert_eq!(r.active("latn", "TRK").0, vec![0, 1]);
        assert_eq!(r.active("latn", "dflt").0, vec![0]);
        assert_eq!(r.active("DFLT", "dflt").0, vec![0]);
    }

    #[test]
    fn mark_filtering_set_and_attachment_type() {
        let lig = |c: Vec<Gid>, to| {
            Stmt::Rule(Rule::Ligature { comps: c.into_iter().map(Gs::G).collect(), to })
        };
        let umfs = |c: Vec<Gid>| {
            Stmt::LookupFlagEx(LFlag { bits: 0, mark_attach: None, mark_filter: Some(Gs::Lit(c)) })
        };
        let mat = |c: Vec<Gid>| {
            Stmt::LookupFlagEx(LFlag { bits: 0, mark_attach: Some(Gs::Lit(c)), mark_filter: None })
        };
        // only acutecomb is seen: gravecomb is skipped, acutecomb blocks the match
        for flag in [umfs(vec![G_ACUTE]), mat(vec![G_ACUTE])] {
            let p = feat(vec![flag, lig(vec![G_A, G_B], G_C)]);
            assert_eq!(gids(&run(&p, &[G_A, G_GRAVE, G_B])), vec![G_C, G_GRAVE]);
            assert_eq!(gids(&run(&p, &[G_A, G_ACUTE, G_B])), vec![G_A, G_ACUTE, G_B]);
            assert_eq!(gids(&run(&p, &[G_A, G_FF, G_B])), vec![G_A, G_FF, G_B]);
        }
        // a change of the set alone starts a new lookup with its own filter
        let p = feat(vec![
            umfs(vec![G_ACUTE]),
            lig(vec![G_A, G_B], G_C),
            umfs(vec![G_GRAVE]),
            lig(vec![G_B, G_A], G_D),
        ]);
        let r = resolve(&p).unwrap();
        assert_eq!(r.lookups.len(), 2);
        assert_eq!(r.lookups[0].filter.mark_filter, Some(vec![G_ACUTE]));
        assert_eq!(r.lookups[1].filter.mark_filter, Some(vec![G_GRAVE]));
        assert_eq!(gids(&run(&p, &[G_B, G_ACUTE, G_A])), vec![G_D, G_ACUTE]);
        assert_eq!(gids(&run(&p, &[G_B, G_GRAVE, G_A])), vec![G_B, G_GRAVE, G_A]);
        // the same set again does not say whether a new lookup starts
        let p = feat(vec![
            umfs(vec![G_ACUTE, G_GRAVE]),
            lig(vec![G_A, G_B], G_C),
            umfs(vec![G_GRAVE, G_ACUTE]),
            lig(vec![G_B, G_A], G_D),
        ]);
        assert!(matches!(resolve(&p), Err(Reject::Ambiguous(_))));
        // MarkAttachmentType classes must not overlap
        let p = feat(vec![
            mat(vec![G_ACUTE, G_GRAVE]),
            lig(vec![G_A, G_B], G_C),
            mat(vec![G_GRAVE]),
            lig(vec![G_B, G_A], G_D),
        ]);
        assert!(matches!(resolve(&p), Err(Reject::IllFormed(_))));
        // IgnoreLigatures / IgnoreBaseGlyphs
        let p = feat(vec![Stmt::LookupFlag(FLAG_IGNORE_LIGATURES), lig(vec![G_A, G_B], G_C)]);
        assert_eq!(gids(&run(&p, &[G_A, G_FF, G_B])), vec![G_C, G_FF]);
        let p = feat(vec![
            Stmt::LookupFlag(FLAG_IGNORE_BASE_GLYPHS),
            Stmt::Rule(Rule::Single { from: Gs::G(G_A), to: Gs::G(G_B) }),
        ]);
        assert_eq!(gids(&run(&p, &[G_A, G_FF])), vec![G_A, G_FF]);
    }

    #[test]
    fn inline_multiple_and_first_matching_inline_class_rule() {
        let p = feat(vec![Stmt::Rule(Rule::ChainMultiple {
            back: vec![],
            input: G_A,
            ahead: vec![Gs::G(G_B)],
            to: vec![G_C, G_D],
        })]);
        assert_eq!(gids(&run(&p, &[G_A, G_B, G_A])), vec![G_C, G_D, G_B, G_A]);
        assert_eq!(
            Rule::ChainMultiple { back: vec![Gs::G(G_D)], input: G_A, ahead: vec![], to: vec![G_C, G_D] }.to_fea(),
            "sub d a' by c d;"
        );
        let chain = |back: Gid, marked: Vec<Gid>, by: Gid| {
            Stmt::Rule(Rule::Chain {
                back: vec![Gs::G(back)],
                input: vec![(Gs::Lit(marked), vec![])],
                ahead: vec![],
                by: Some(Gs::G(by)),
            })
        };
        // sub d [a b]' by f_f; sub f_f [c b]' by d;
        let p = feat(vec![chain(G_D, vec![G_A, G_B], G_FF), chain(G_FF, vec![G_C, G_B], G_D)]);
        assert_eq!(gids(&run(&p, &[G_D, G_B])), vec![G_D, G_FF]);
        assert_eq!(gids(&run(&p, &[G_FF, G_B])), vec![G_FF, G_D]);
    }

    #[test]
    fn nested_named_lookup() {
        let p = Program {
            items: vec![
                Top::Lookup {
                    name: "N0".into(),
                    body: vec![Stmt::Rule(Rule::Single { from: Gs::G(G_A), to: Gs::G(G_D) })],
                },
                Top::Feature {
                    tag: "test".into(),
                    body: vec![Stmt::Rule(Rule::Chain {
                        back: vec![],
                        input: vec![(Gs::G(G_A), vec!["N0".into()])],
                        ahead: vec![Gs::G(G_B)],
                        by: None,
                    })],
                },
            ],
        };
        assert_eq!(gids(&run(&p, &[G_A, G_B, G_A])), vec![G_D, G_B, G_A]);
    }
}
