//! A small AST for the supported subset of the OpenType feature file language, and a printer
//! that turns it into feature-file text. Nothing here is shared with fea-rs: the harness
//! builds programs as ASTs, prints them, and hands the *text* to the compiler.

use serde::{Deserialize, Serialize};

/// Glyph order of every test font; index = glyph id.
pub const GLYPH_NAMES: [&str; 9] = [
    ".notdef",
    "a",
    "b",
    "c",
    "d",
    "f_f",
    "acutecomb",
    "gravecomb",
    "dotbelowcomb",
];

pub type Gid = u16;

pub const G_A: Gid = 1;
pub const G_B: Gid = 2;
pub const G_C: Gid = 3;
pub const G_D: Gid = 4;
pub const G_FF: Gid = 5;
pub const G_ACUTE: Gid = 6;
pub const G_GRAVE: Gid = 7;
pub const G_DOTBELOW: Gid = 8;

/// GDEF glyph class of a glyph, as written by [`Top::Gdef`]: 1 base, 2 ligature, 3 mark.
pub fn gdef_class(g: Gid) -> u8 {
    match g {
        1..=4 => 1,
        5 => 2,
        6..=8 => 3,
        _ => 0,
    }
}

pub fn glyph_name(g: Gid) -> &'static str {
    GLYPH_NAMES.get(g as usize).copied().unwrap_or("?")
}

/// A glyph or a glyph class as it can be written in a rule.
#[derive(Clone, Debug, PartialEq, Eq, Hash, Serialize, Deserialize)]
pub enum Gs {
    /// `a`
    G(Gid),
    /// `[a b]`
    Lit(Vec<Gid>),
    /// `[a-c]` (single-letter glyph names only)
    Range(Gid, Gid),
    /// `@NAME`
    Named(String),
}

pub const FLAG_RIGHT_TO_LEFT: u16 = 0x0001;
pub const FLAG_IGNORE_BASE_GLYPHS: u16 = 0x0002;
pub const FLAG_IGNORE_LIGATURES: u16 = 0x0004;
pub const FLAG_IGNORE_MARKS: u16 = 0x0008;

/// A lookup flag with its glyph-class operands:
/// `lookupflag [RightToLeft] [IgnoreBaseGlyphs] [IgnoreLigatures] [IgnoreMarks]
/// [MarkAttachmentType <class>] [UseMarkFilteringSet <class>];`
#[derive(Clone, Debug, Default, PartialEq, Eq, Hash, Serialize, Deserialize)]
pub struct LFlag {
    /// the four plain bits (`FLAG_*`)
    pub bits: u16,
    pub mark_attach: Option<Gs>,
    pub mark_filter: Option<Gs>,
}

impl LFlag {
    pub fn bits(bits: u16) -> Self {
        LFlag {
            bits,
            mark_attach: None,
            mark_filter: None,
        }
    }
    pub fn is_plain(&self) -> bool {
        self.mark_attach.is_none() && self.mark_filter.is_none()
    }
    pub fn is_zero(&self) -> bool {
        self.bits == 0 && self.is_plain()
    }
    pub fn to_fea(&self) -> String {
        if self.is_zero() {
            return "lookupflag 0;".into();
        }
        let mut names: Vec<String> = vec![];
        if self.bits & FLAG_RIGHT_TO_LEFT != 0 {
            names.push("RightToLeft".into());
        }
        if self.bits & FLAG_IGNORE_BASE_GLYPHS != 0 {
            names.push("IgnoreBaseGlyphs".into());
        }
        if self.bits & FLAG_IGNORE_LIGATURES != 0 {
            names.push("IgnoreLigatures".into());
        }
        if self.bits & FLAG_IGNORE_MARKS != 0 {
            names.push("IgnoreMarks".into());
        }
        if let Some(c) = &self.mark_attach {
            names.push(format!("MarkAttachmentType {}", c.to_fea()));
        }
        if let Some(c) = &self.mark_filter {
            names.push(format!("UseMarkFilteringSet {}", c.to_fea()));
        }
        format!("lookupflag {};", names.join(" "))
    }
}

#[derive(Clone, Debug, PartialEq, Eq, Hash, Serialize, Deserialize)]
pub enum Value {
    /// `10` — an advance adjustment (x advance in a horizontal feature)
    Adv(i32),
    /// `<xPlacement yPlacement xAdvance yAdvance>`
    Rec([i32; 4]),
}

impl Value {
    /// (xPlacement, yPlacement, xAdvance, yAdvance)
    pub fn as_array(&self) -> [i32; 4] {
        match self {
            Value::Adv(a) => [0, 0, *a, 0],
            Value::Rec(r) => *r,
        }
    }
}

#[derive(Clone, Debug, PartialEq, Eq, Hash, Serialize, Deserialize)]
pub enum Rule {
    /// `sub <from> by <to>;`
    Single { from: Gs, to: Gs },
    /// `sub a by b c;`
    Multiple { from: Gid, to: Vec<Gid> },
    /// `sub a b by f_f;`
    Ligature { comps: Vec<Gs>, to: Gid },
    /// `sub back input' lookup N ... ahead [by X];`
    /// `by` with one input glyph is an inline single substitution, with several an inline
    /// ligature substitution.
    Chain {
        back: Vec<Gs>,
        input: Vec<(Gs, Vec<String>)>,
        ahead: Vec<Gs>,
        by: Option<Gs>,
    },
    /// `sub back g' ahead by x y ..;` — in-line multiple substitution of the one marked glyph
    ChainMultiple {
        back: Vec<Gs>,
        input: Gid,
        ahead: Vec<Gs>,
        to: Vec<Gid>,
    },
    /// `ignore sub back input' ahead;`
    Ignore {
        back: Vec<Gs>,
        input: Vec<Gs>,
        ahead: Vec<Gs>,
    },
    /// `pos a 10;`
    SinglePos { target: Gs, value: Value },
    /// `[enum] pos a b 10;` — the value applies to the first glyph
    PairPos {
        first: Gs,
        second: Gs,
        value: Value,
        enumerate: bool,
    },
}

#[derive(Clone, Debug, PartialEq, Eq, Hash, Serialize, Deserialize)]
pub enum Stmt {
    Rule(Rule),
    /// `lookupflag 0;` / `lookupflag IgnoreMarks;` / `lookupflag RightToLeft;`
    LookupFlag(u16),
    /// `lookupflag` with `MarkAttachmentType` / `UseMarkFilteringSet` operands
    LookupFlagEx(LFlag),
    /// `lookup NAME { ... } NAME;`
    Lookup { name: String, body: Vec<Stmt> },
    /// `lookup NAME;`
    LookupRef(String),
    /// `script latn;`
    Script(String),
    /// `language TRK [exclude_dflt];`
    Language { tag: String, exclude_dflt: bool },
}

#[derive(Clone, Debug, PartialEq, Eq, Hash, Serialize, Deserialize)]
pub enum Top {
    LanguageSystem { script: String, lang: String },
    /// `@NAME = [a b];`
    ClassDef { name: String, glyphs: Vec<Gid> },
    /// the fixed `table GDEF { GlyphClassDef [a b c d], [f_f], [acutecomb gravecomb
    /// dotbelowcomb], ; } GDEF;`
    Gdef,
    Lookup { name: String, body: Vec<Stmt> },
    Feature { tag: String, body: Vec<Stmt> },
}

#[derive(Clone, Debug, Default, PartialEq, Eq, Hash, Serialize, Deserialize)]
pub struct Program {
    pub items: Vec<Top>,
}

// ------------------------------------------------------------------ printer

fn glyph_list(gs: &[Gid]) -> String {
    let v: Vec<&str> = gs.iter().map(|g| glyph_name(*g)).collect();
    format!("[{}]", v.join(" "))
}

impl Gs {
    pub fn to_fea(&self) -> String {
        match self {
            Gs::G(g) => glyph_name(*g).to_string(),
            Gs::Lit(v) => glyph_list(v),
            Gs::Range(a, b) => format!("[{}-{}]", glyph_name(*a), glyph_name(*b)),
            Gs::Named(n) => format!("@{n}"),
        }
    }
}

impl Value {
    pub fn to_fea(&self) -> String {
        match self {
            Value::Adv(a) => format!("{a}"),
            Value::Rec(r) => format!("<{} {} {} {}>", r[0], r[1], r[2], r[3]),
        }
    }
}

pub fn flag_to_fea(flag: u16) -> String {
    LFlag::bits(flag).to_fea()
}

fn seq(v: &[Gs]) -> String {
    v.iter().map(|g| g.to_fea()).collect::<Vec<_>>().join(" ")
}

impl Rule {
    pub fn to_fea(&self) -> String {
        match self {
            Rule::Single { from, to } => format!("sub {} by {};", from.to_fea(), to.to_fea()),
            Rule::Multiple { from, to } => {
                let v: Vec<&str> = to.iter().map(|g| glyph_name(*g)).collect();
                format!("sub {} by {};", glyph_name(*from), v.join(" "))
            }
            Rule::Ligature { comps, to } => {
                format!("sub {} by {};", seq(comps), glyph_name(*to))
            }
            Rule::Chain {
                back,
                input,
                ahead,
                by,
            } => {
                let mut parts: Vec<String> = vec!["sub".into()];
                if !back.is_empty() {
                    parts.push(seq(back));
                }
                for (g, lookups) in input {
                    let mut s = format!("{}'", g.to_fea());
                    for l in lookups {
                        s.push_str(&format!(" lookup {l}"));
                    }
                    parts.push(s);
                }
                if !ahead.is_empty() {
                    parts.push(seq(ahead));
                }
                if let Some(by) = by {
                    parts.push(format!("by {}", by.to_fea()));
                }
                format!("{};", parts.join(" "))
            }
            Rule::ChainMultiple {
                back,
                input,
                ahead,
                to,
            } => {
                let mut parts: Vec<String> = vec!["sub".into()];
                if !back.is_empty() {
                    parts.push(seq(back));
                }
                parts.push(format!("{}'", glyph_name(*input)));
                if !ahead.is_empty() {
                    parts.push(seq(ahead));
                }
                let v: Vec<&str> = to.iter().map(|g| glyph_name(*g)).collect();
                parts.push(format!("by {}", v.join(" ")));
                format!("{};", parts.join(" "))
            }
            Rule::Ignore { back, input, ahead } => {
                let mut parts: Vec<String> = vec!["ignore sub".into()];
                if !back.is_empty() {
                    parts.push(seq(back));
                }
                for g in input {
                    parts.push(format!("{}'", g.to_fea()));
                }
                if !ahead.is_empty() {
                    parts.push(seq(ahead));
                }
                format!("{};", parts.join(" "))
            }
            Rule::SinglePos { target, value } => {
                format!("pos {} {};", target.to_fea(), value.to_fea())
            }
            Rule::PairPos {
                first,
                second,
                value,
                enumerate,
            } => format!(
                "{}pos {} {} {};",
                if *enumerate { "enum " } else { "" },
                first.to_fea(),
                second.to_fea(),
                value.to_fea()
            ),
        }
    }
}

fn print_stmts(body: &[Stmt], indent: usize, out: &mut String) {
    let pad = "    ".repeat(indent);
    for s in body {
        match s {
            Stmt::Rule(r) => out.push_str(&format!("{pad}{}\n", r.to_fea())),
            Stmt::LookupFlag(f) => out.push_str(&format!("{pad}{}\n", flag_to_fea(*f))),
            Stmt::LookupFlagEx(f) => out.push_str(&format!("{pad}{}\n", f.to_fea())),
            Stmt::Lookup { name, body } => {
                out.push_str(&format!("{pad}lookup {name} {{\n"));
                print_stmts(body, indent + 1, out);
                out.push_str(&format!("{pad}}} {name};\n"));
            }
            Stmt::LookupRef(n) => out.push_str(&format!("{pad}lookup {n};\n")),
            Stmt::Script(t) => out.push_str(&format!("{pad}script {t};\n")),
            Stmt::Language { tag, exclude_dflt } => out.push_str(&format!(
                "{pad}language {tag}{};\n",
                if *exclude_dflt { " exclude_dflt" } else { "" }
            )),
        }
    }
}

impl Program {
    /// Feature-file text of the program.
    pub fn to_fea(&self) -> String {
        let mut out = String::new();
        for t in &self.items {
            match t {
                Top::LanguageSystem { script, lang } => {
                    out.push_str(&format!("languagesystem {script} {lang};\n"))
                }
                Top::ClassDef { name, glyphs } => {
                    out.push_str(&format!("@{name} = {};\n", glyph_list(glyphs)))
                }
                Top::Gdef => out.push_str(
                    "table GDEF {\n    GlyphClassDef [a b c d], [f_f], [acutecomb gravecomb dotbelowcomb], ;\n} GDEF;\n",
                ),
                Top::Lookup { name, body } => {
                    out.push_str(&format!("lookup {name} {{\n"));
                    print_stmts(body, 1, &mut out);
                    out.push_str(&format!("}} {name};\n"));
                }
                Top::Feature { tag, body } => {
                    out.push_str(&format!("feature {tag} {{\n"));
                    print_stmts(body, 1, &mut out);
                    out.push_str(&format!("}} {tag};\n"));
                }
            }
        }
        out
    }
}
