//! `fearef` — a reference reading of the OpenType feature file language for a small,
//! explicitly listed subset: an AST with a printer ([`ast`]) and an interpreter that
//! applies the source rules to glyph strings ([`interp`]). Used by check C11 as the oracle
//! against which the tables compiled by fea-rs are judged. Shares no code with fea-rs.

pub mod ast;
pub mod interp;
