//! The "kitchen" family: the complete product of a set of small structural toggles of a `dgen`
//! design (axes / master layout, `.notdef`, glyph inventory, advances, composites, kerning, anchors,
//! feature code, vertical metrics, designspace rules, named instances). Written for C05 (structural
//! soundness of every emitted font); C01/C02 take single rich members of it as schedule sources.
#![allow(clippy::too_many_arguments)]
use dgen::{Anchor, Axis, Component, Contour, Design, Glyph, Instance, Layer, Rule, plist::Plist, shapes};
use serde::{Deserialize, Serialize};
use serde_json::{Value, json};
use std::collections::BTreeSet;

/// The structural toggles of one generated design. Every field is a small integer; the case id
/// spells all of them out (`L3-n1-i1-a0-c3-k2-m1-f2-v0-r2-s1`).
#[derive(Clone, Copy, Debug, PartialEq, Eq, Serialize, Deserialize)]
pub struct Toggles {
    /// axes and masters:
    /// 0 static (lone UFO); 1 wght 400..700, masters at both ends; 2 ends + full master at 550;
    /// 3 ends + sparse layer master at 550 (glyph A, and composite AB when present);
    /// 4 two axes (wght with an axis <map>, hidden XTRA), masters default + one per axis end;
    /// 5 wght with the default in the middle (400, 550*, 700);
    /// 6 two axes, all four corners + sparse layer master at wght 550
    pub layout: u8,
    /// 0 no `.notdef` in the source (the compiler makes one); 1 a drawn `.notdef`
    pub notdef: u8,
    /// 0 A, B only; 1 also space (empty), o (quadratic), c (cubic), D (three code points, one
    /// beyond the BMP), A.sc (no code point, has a public.postscriptNames entry)
    pub inv: u8,
    /// 0 every glyph its own advance, growing with the master; 1 all glyphs the same advance,
    /// growing with the master; 2 all glyphs the same advance at every master
    pub adv: u8,
    /// bit set: 1 flat + nested composites (depth 1, 2, 3); 2 components with 2x2 transforms (flip,
    /// 0.5 scale, 2.5 scale, rotation); 4 a glyph with a contour and a component; 8 a non-exported
    /// glyph used as a component
    pub comps: u8,
    /// 0 none; 1 glyph pairs; 2 group pairs + glyph/group exceptions; 3 the same with different
    /// group membership in the last master
    pub kern: u8,
    /// 0 none; 1 base + mark anchors (top, bottom); 2 also mark-to-mark; 3 also ligature anchors
    pub marks: u8,
    /// 0 none; 1 GSUB single + ligature + ss01 with featureNames; 2 chaining contextual rule with a
    /// nested lookup + a GPOS single adjustment; 3 both plus `table GDEF` and `table name`
    pub fea: u8,
    /// 0 no vertical metrics; 1 vhea keys in fontinfo + advance heights (vhea, vmtx, VVAR); the
    /// heights follow `adv` (distinct / equal / equal and constant)
    pub vert: u8,
    /// designspace <rules>: 0 none; 1 one rule; 2 two rules with overlapping regions
    pub rules: u8,
    /// named instances: 0 none; 1 two
    pub inst: u8,
}

pub const COMP_NESTED: u8 = 1;
pub const COMP_XFORM: u8 = 2;
pub const COMP_MIXED: u8 = 4;
pub const COMP_NOEXPORT: u8 = 8;

impl Toggles {
    pub fn id(&self) -> String {
        format!(
            "L{}-n{}-i{}-a{}-c{:x}-k{}-m{}-f{}-v{}-r{}-s{}",
            self.layout, self.notdef, self.inv, self.adv, self.comps, self.kern, self.marks, self.fea, self.vert, self.rules, self.inst
        )
    }

    /// inverse of `id`
    pub fn parse(id: &str) -> Option<Toggles> {
        let mut v = [0u8; 11];
        let parts: Vec<&str> = id.split('-').collect();
        if parts.len() != 11 {
            return None;
        }
        for (i, (part, prefix)) in parts.iter().zip(["L", "n", "i", "a", "c", "k", "m", "f", "v", "r", "s"]).enumerate() {
            v[i] = u8::from_str_radix(part.strip_prefix(prefix)?, 16).ok()?;
        }
        Some(Toggles { layout: v[0], notdef: v[1], inv: v[2], adv: v[3], comps: v[4], kern: v[5], marks: v[6], fea: v[7], vert: v[8], rules: v[9], inst: v[10] })
    }

    /// combinations that cannot exist or that repeat another one
    pub fn possible(&self) -> bool {
        let is_static = self.layout == 0;
        // a static design has no rules and no instances; with one master "different groups in the
        // last master" is kern 2 and "advance constant over the masters" is adv 1
        !(is_static && (self.rules != 0 || self.inst != 0 || self.kern == 3 || self.adv == 2))
    }

    /// number of toggles that are not at their smallest value
    pub fn weight(&self) -> u32 {
        [self.layout, self.notdef, self.inv, self.adv, self.kern, self.marks, self.fea, self.vert, self.rules, self.inst].iter().filter(|v| **v != 0).count() as u32
            + self.comps.count_ones()
    }

    /// The features that are "on", as a set of atoms ordered by implication: a violation is keyed
    /// by the atoms of the smallest failing case, not by the case.
    pub fn atoms(&self) -> BTreeSet<&'static str> {
        let mut a = BTreeSet::new();
        match self.layout {
            0 => {}
            1 => {
                a.insert("var");
            }
            2 => {
                a.extend(["var", "mid-master"]);
            }
            3 => {
                a.extend(["var", "sparse-layer"]);
            }
            4 => {
                a.extend(["var", "two-axes"]);
            }
            5 => {
                a.extend(["var", "mid-default"]);
            }
            _ => {
                a.extend(["var", "two-axes", "corner-master", "sparse-layer"]);
            }
        }
        if self.notdef == 1 {
            a.insert("notdef-drawn");
        }
        if self.inv == 1 {
            a.insert("rich-inventory");
        }
        match self.adv {
            0 => {}
            1 => {
                a.insert("equal-advances");
            }
            _ => {
                a.extend(["equal-advances", "constant-advances"]);
            }
        }
        for (bit, name) in [(COMP_NESTED, "comp-nested"), (COMP_XFORM, "comp-xform"), (COMP_MIXED, "comp-mixed"), (COMP_NOEXPORT, "comp-noexport")] {
            if self.comps & bit != 0 {
                a.insert(name);
            }
        }
        match self.kern {
            0 => {}
            1 => {
                a.insert("kern-pairs");
            }
            2 => {
                a.insert("kern-groups");
            }
            _ => {
                a.extend(["kern-groups", "kern-groups-differ"]);
            }
        }
        match self.marks {
            0 => {}
            1 => {
                a.insert("mark");
            }
            2 => {
                a.extend(["mark", "mkmk"]);
            }
            _ => {
                a.extend(["mark", "mkmk", "lig-anchors"]);
            }
        }
        match self.fea {
            0 => {}
            1 => {
                a.insert("fea-gsub");
            }
            2 => {
                a.insert("fea-chain");
            }
            _ => {
                a.extend(["fea-gsub", "fea-chain", "fea-tables"]);
            }
        }
        if self.vert == 1 {
            a.insert("vertical");
        }
        match self.rules {
            0 => {}
            1 => {
                a.insert("rules");
            }
            _ => {
                a.extend(["rules", "rules-overlap"]);
            }
        }
        if self.inst == 1 {
            a.insert("instances");
        }
        a
    }
}

/// The domain of every toggle in one tier. The enumerated space is the full product, in the
/// order of the fields (layout outermost, inst innermost), minus `!possible()`.
pub struct Domains {
    pub layout: &'static [u8],
    pub notdef: &'static [u8],
    /// (inv, adv) pairs
    pub inv_adv: &'static [(u8, u8)],
    pub comps: &'static [u8],
    pub kern: &'static [u8],
    pub marks: &'static [u8],
    pub fea: &'static [u8],
    pub vert: &'static [u8],
    pub rules: &'static [u8],
    pub inst: &'static [u8],
}

pub const QUICK: Domains = Domains {
    layout: &[0, 1, 3, 4],
    notdef: &[0, 1],
    inv_adv: &[(0, 0), (1, 1)],
    comps: &[0, COMP_NESTED, COMP_XFORM, COMP_MIXED | COMP_NOEXPORT],
    kern: &[0, 2],
    marks: &[0, 1, 3],
    fea: &[0, 1, 2],
    vert: &[0, 1],
    rules: &[0, 2],
    inst: &[0, 1],
};

pub const THOROUGH: Domains = Domains {
    layout: &[0, 1, 2, 3, 4, 5, 6],
    notdef: &[0, 1],
    inv_adv: &[(0, 0), (1, 1), (1, 2)],
    comps: &[0, COMP_NESTED, COMP_XFORM, COMP_MIXED | COMP_NOEXPORT, 15],
    kern: &[0, 1, 2, 3],
    marks: &[0, 1, 3],
    fea: &[0, 1, 2, 3],
    vert: &[0, 1],
    rules: &[0, 2],
    inst: &[0, 1],
};

impl Domains {
    pub fn enumerate(&self) -> Vec<Toggles> {
        let mut v = vec![];
        for &layout in self.layout {
            for &notdef in self.notdef {
                for &(inv, adv) in self.inv_adv {
                    for &comps in self.comps {
                        for &kern in self.kern {
                            for &marks in self.marks {
                                for &fea in self.fea {
                                    for &vert in self.vert {
                                        for &rules in self.rules {
                                            for &inst in self.inst {
                                                let t = Toggles { layout, notdef, inv, adv, comps, kern, marks, fea, vert, rules, inst };
                                                if t.possible() {
                                                    v.push(t);
                                                }
                                            }
                                        }
                                    }
                                }
                            }
                        }
                    }
                }
            }
        }
        v
    }

    pub fn describe(&self) -> Value {
        json!({
            "layout": self.layout, "notdef": self.notdef, "inv_adv": self.inv_adv, "comps": self.comps, "kern": self.kern,
            "marks": self.marks, "fea": self.fea, "vert": self.vert, "rules": self.rules, "inst": self.inst,
            "removed": "static layout (0) with rules, instances, kern 3 or adv 2",
        })
    }
}

/// What one glyph of a generated design looks like at "progress" `p` (0 at the first master, grows
/// towards the others): contours, components, anchors. Advance and height are filled in later.
pub struct GSpec {
    pub name: &'static str,
    pub cps: Vec<u32>,
    pub export: bool,
    pub mark: bool,
    /// also drawn in the sparse layer master
    pub sparse: bool,
    pub draw: Box<dyn Fn(f64) -> Layer>,
}

pub fn gs(name: &'static str, cps: &[u32], draw: impl Fn(f64) -> Layer + 'static) -> GSpec {
    GSpec { name, cps: cps.to_vec(), export: true, mark: false, sparse: false, draw: Box::new(draw) }
}

pub fn outline(contours: Vec<Contour>) -> Layer {
    Layer { contours, ..Default::default() }
}

pub fn composite(components: Vec<Component>) -> Layer {
    Layer { components, ..Default::default() }
}

pub fn xf(base: &str, xform: [f64; 6]) -> Component {
    Component { base: base.into(), xform }
}

pub fn anchor(name: &str, x: f64, y: f64) -> Anchor {
    Anchor { name: name.into(), x, y }
}

/// axes, full master locations with their progress, sparse layer master location with its progress
#[allow(clippy::type_complexity)]
pub fn layout_spec(layout: u8) -> (Vec<Axis>, Vec<(Vec<f64>, f64)>, Option<(Vec<f64>, f64)>) {
    let wght = || Axis::new("wght", "Weight", 400.0, 400.0, 700.0);
    let mapped = || {
        let mut a = Axis::new("wght", "Weight", 100.0, 100.0, 900.0);
        a.map = vec![(100.0, 400.0), (500.0, 520.0), (900.0, 700.0)];
        a
    };
    let hidden = || {
        let mut a = Axis::new("XTRA", "Extra", 0.0, 0.0, 100.0);
        a.hidden = true;
        a
    };
    match layout {
        0 => (vec![], vec![(vec![], 0.0)], None),
        1 => (vec![wght()], vec![(vec![400.0], 0.0), (vec![700.0], 20.0)], None),
        2 => (vec![wght()], vec![(vec![400.0], 0.0), (vec![550.0], 7.0), (vec![700.0], 20.0)], None),
        3 => (vec![wght()], vec![(vec![400.0], 0.0), (vec![700.0], 20.0)], Some((vec![550.0], 7.0))),
        4 => (vec![mapped(), hidden()], vec![(vec![400.0, 0.0], 0.0), (vec![700.0, 0.0], 20.0), (vec![400.0, 100.0], 11.0)], None),
        5 => (vec![Axis::new("wght", "Weight", 400.0, 550.0, 700.0)], vec![(vec![400.0], 0.0), (vec![550.0], 10.0), (vec![700.0], 26.0)], None),
        _ => (
            vec![mapped(), hidden()],
            vec![(vec![400.0, 0.0], 0.0), (vec![700.0, 0.0], 20.0), (vec![400.0, 100.0], 11.0), (vec![700.0, 100.0], 35.0)],
            Some((vec![550.0, 0.0], 7.0)),
        ),
    }
}

pub fn feature_text(t: &Toggles) -> Option<String> {
    if t.fea == 0 {
        return None;
    }
    let mut s = String::from("languagesystem DFLT dflt;\n");
    if t.fea != 2 {
        s.push_str("languagesystem latn dflt;\n");
    }
    if t.fea == 3 {
        // explicit glyph classes: everything that can be present
        let mut bases = vec!["A", "B", "A.alt"];
        let mut ligs = vec!["A_B"];
        let mut marks = vec![];
        if t.marks >= 1 {
            marks.extend(["acutecomb", "dotbelowcomb"]);
        }
        if t.marks == 3 {
            ligs.push("f_i");
        }
        if t.rules == 2 {
            bases.push("B.alt");
        }
        s.push_str(&format!("table GDEF {{\n  GlyphClassDef [{}], [{}], [{}], ;\n}} GDEF;\n", bases.join(" "), ligs.join(" "), marks.join(" ")));
        s.push_str("table name {\n  nameid 9 \"C05 designer\";\n} name;\n");
    }
    if t.fea == 2 || t.fea == 3 {
        s.push_str("lookup alt {\n  sub A by A.alt;\n} alt;\n");
        s.push_str("feature calt {\n  sub B A' lookup alt;\n} calt;\n");
        s.push_str("feature cpsp {\n  pos A <5 0 10 0>;\n} cpsp;\n");
    }
    if t.fea == 1 || t.fea == 3 {
        s.push_str("feature salt {\n  sub A by A.alt;\n} salt;\n");
        s.push_str("feature liga {\n  sub A B by A_B;\n} liga;\n");
        s.push_str("feature ss01 {\n  featureNames {\n    name \"Alternate A\";\n  };\n  sub A by A.alt;\n} ss01;\n");
    }
    Some(s)
}

pub fn build_design(t: &Toggles) -> Design {
    let (axes, full, sparse) = layout_spec(t.layout);
    let two_axes = axes.len() == 2;
    let n_full = full.len();
    let mut d = Design::skeleton("C05Gen", axes, full.iter().map(|(l, _)| l.clone()).collect());
    let mut progress: Vec<f64> = full.iter().map(|(_, p)| *p).collect();
    let sparse_master = sparse.map(|(loc, p)| {
        progress.push(p);
        let host = d.default_master;
        d.add_layer_master(host, loc)
    });

    // ---- glyph inventory, in glyph order
    let mut g: Vec<GSpec> = vec![];
    if t.notdef == 1 {
        g.push(gs(".notdef", &[], |p| outline(vec![shapes::rect(50.0, 0.0, 450.0 + p, 700.0), shapes::rect(100.0, 50.0, 400.0 + p, 650.0)])));
    }
    if t.inv == 1 {
        g.push(gs("space", &[0x20], |_| Layer::default()));
    }
    let marks = t.marks;
    let mut a = gs("A", &[0x41], move |p| {
        let mut l = outline(vec![shapes::rect(50.0, 0.0, 150.0 + p, 700.0)]);
        if marks >= 1 {
            l.anchors.push(anchor("top", 100.0 + p / 2.0, 720.0));
        }
        l
    });
    a.sparse = true;
    g.push(a);
    g.push(gs("B", &[0x42], move |p| {
        let mut l = outline(vec![shapes::triangle(50.0, 0.0, 300.0 + p, 600.0)]);
        if marks >= 1 {
            l.anchors.push(anchor("top", 175.0, 620.0 + p));
            l.anchors.push(anchor("bottom", 175.0, -20.0));
        }
        l
    }));
    if t.inv == 1 {
        g.push(gs("o", &[0x6F], |p| outline(vec![shapes::quad_blob(250.0, 250.0, 200.0 + p)])));
        g.push(gs("c", &[0x63], |p| outline(vec![shapes::cubic_blob(250.0, 250.0, 200.0 + p)])));
        g.push(gs("D", &[0x44, 0x394, 0x1F600], |p| outline(vec![shapes::rect(60.0, 0.0, 400.0 + p, 700.0), shapes::quad_blob(230.0, 350.0, 100.0)])));
        g.push(gs("A.sc", &[], |p| outline(vec![shapes::rect(50.0, 0.0, 130.0 + p, 500.0)])));
    }
    if t.fea != 0 || t.rules != 0 {
        g.push(gs("A.alt", &[], |p| outline(vec![shapes::rect(40.0, 0.0, 180.0 + p, 700.0)])));
    }
    if t.rules == 2 {
        g.push(gs("B.alt", &[], |p| outline(vec![shapes::triangle(40.0, 0.0, 340.0 + p, 600.0)])));
    }
    if t.fea != 0 {
        g.push(gs("A_B", &[], |p| outline(vec![shapes::rect(50.0, 0.0, 150.0 + p, 700.0), shapes::triangle(250.0, 0.0, 300.0 + p, 600.0)])));
    }
    if t.marks >= 1 {
        let mut acute = gs("acutecomb", &[0x301], move |p| {
            let mut l = outline(vec![shapes::rect(-60.0, 560.0, 20.0 + p, 640.0)]);
            l.anchors.push(anchor("_top", -20.0, 550.0));
            if marks >= 2 {
                l.anchors.push(anchor("top", -20.0, 660.0 + p));
            }
            l
        });
        acute.mark = true;
        g.push(acute);
        let mut dot = gs("dotbelowcomb", &[0x323], |p| {
            let mut l = outline(vec![shapes::rect(-60.0, -120.0, 20.0 + p, -40.0)]);
            l.anchors.push(anchor("_bottom", -20.0, -30.0));
            l
        });
        dot.mark = true;
        g.push(dot);
    }
    if t.marks == 3 {
        g.push(gs("f_i", &[0xFB01], |p| {
            let mut l = outline(vec![shapes::rect(50.0, 0.0, 150.0, 700.0), shapes::rect(300.0, 0.0, 400.0 + p, 500.0)]);
            l.anchors.push(anchor("top_1", 100.0, 720.0));
            l.anchors.push(anchor("top_2", 350.0 + p, 520.0));
            l
        }));
    }
    if t.comps & COMP_NESTED != 0 {
        let mut ab = gs("AB", &[0xC4], |p| composite(vec![Component::at("A", 0.0, 0.0), Component::at("B", 200.0 + p, 0.0)]));
        ab.sparse = true;
        g.push(ab);
        g.push(gs("ABA", &[0xC5], |p| composite(vec![Component::at("AB", 0.0, 0.0), Component::at("A", 600.0 + p, 0.0)])));
        g.push(gs("ABAB", &[0xC6], |p| composite(vec![Component::at("ABA", 0.0, 0.0), Component::at("B", 800.0, p)])));
    }
    if t.comps & COMP_XFORM != 0 {
        g.push(gs("Aflip", &[0xC0], |p| composite(vec![xf("A", [-1.0, 0.0, 0.0, 1.0, 200.0 + p, 0.0])])));
        g.push(gs("Ahalf", &[0xC1], |p| composite(vec![xf("A", [0.5, 0.0, 0.0, 0.5, 10.0, 10.0 + p]), Component::at("B", 200.0, 0.0)])));
        g.push(gs("Abig", &[0xC2], |p| composite(vec![xf("A", [2.5, 0.0, 0.0, 2.5, p, 0.0])])));
        g.push(gs("Arot", &[0xC3], |p| composite(vec![xf("A", [0.0, 1.0, -1.0, 0.0, 300.0 + p, 0.0])])));
        if t.comps & COMP_NESTED != 0 {
            // a transformed component that is itself a composite, next to a flipped composite
            g.push(gs("ABx", &[0xC7], |p| composite(vec![xf("AB", [0.5, 0.0, 0.0, 1.0, 0.0, 0.0]), xf("Aflip", [1.0, 0.0, 0.0, -1.0, 700.0, 700.0 + p])])));
        }
    }
    if t.comps & COMP_MIXED != 0 {
        g.push(gs("Amix", &[0xC8], |p| Layer {
            contours: vec![shapes::rect(0.0, 0.0, 100.0, 100.0 + p)],
            components: vec![Component::at("B", 150.0 + p, 0.0)],
            ..Default::default()
        }));
    }
    if t.comps & COMP_NOEXPORT != 0 {
        let mut part = gs("_part", &[], |p| outline(vec![shapes::rect(0.0, 0.0, 80.0 + p, 300.0)]));
        part.export = false;
        g.push(part);
        g.push(gs("P", &[0x50], |p| composite(vec![Component::at("_part", 0.0, 0.0), Component::at("A", 300.0 + p, 0.0)])));
    }

    // ---- layers
    for (gi, spec) in g.iter().enumerate() {
        let mut glyph = Glyph::new(spec.name, &spec.cps);
        glyph.export = spec.export;
        for (m, p) in progress.iter().enumerate() {
            if m >= n_full && !(spec.sparse && Some(m) == sparse_master) {
                continue;
            }
            let mut layer = (spec.draw)(*p);
            layer.advance = match t.adv {
                0 if spec.mark => 0.0,
                0 if spec.name == "space" => 250.0 + p,
                0 => 500.0 + 10.0 * gi as f64 + p,
                1 => 600.0 + p,
                _ => 600.0,
            };
            if t.vert == 1 {
                layer.height = Some(match t.adv {
                    0 => 1000.0 + 3.0 * gi as f64 + p,
                    1 => 1000.0 + p,
                    _ => 1000.0,
                });
            }
            glyph.layers.insert(m, layer);
        }
        d.glyphs.push(glyph);
    }
    d.glyph_order = Some(g.iter().map(|s| s.name.to_string()).collect());
    if t.inv == 1 {
        d.postscript_names.insert("A.sc".into(), "A.smcp".into());
    }

    // ---- vertical metrics
    if t.vert == 1 {
        for (m, master) in d.masters.iter_mut().enumerate() {
            let p = progress[m];
            master.info.extra.push(("openTypeVheaVertTypoAscender".into(), Plist::num(500.0 + p)));
            master.info.extra.push(("openTypeVheaVertTypoDescender".into(), Plist::num(-500.0)));
            master.info.extra.push(("openTypeVheaVertTypoLineGap".into(), Plist::num(0.0)));
        }
    }

    // ---- kerning
    if t.kern != 0 {
        for m in 0..n_full {
            let p = progress[m];
            let master = &mut d.masters[m];
            let pair = |a: &str, b: &str| (a.to_string(), b.to_string());
            if t.kern == 1 {
                master.kerning.insert(pair("A", "B"), -50.0 - p);
                master.kerning.insert(pair("B", "A"), 20.0 + p / 2.0);
                if t.inv == 1 {
                    master.kerning.insert(pair("o", "c"), -15.0);
                }
            } else {
                let (l, r) = ("public.kern1.L", "public.kern2.R");
                let differs = t.kern == 3 && m == n_full - 1;
                let mut left = vec!["A".to_string()];
                let mut right = vec!["B".to_string()];
                if t.inv == 1 {
                    right.push("o".into());
                }
                if differs {
                    left.push("B".into());
                    right.push("A".into());
                }
                master.groups.insert(l.into(), left);
                master.groups.insert(r.into(), right);
                master.kerning.insert(pair(l, r), -40.0 - p);
                master.kerning.insert(pair("A", r), -10.0);
                master.kerning.insert(pair(l, "A"), 25.0 + p / 2.0);
                master.kerning.insert(pair("B", "B"), 12.0);
            }
        }
    }

    // ---- rules, instances, features
    if t.rules >= 1 {
        d.rules.push(Rule { name: "r1".into(), condition_sets: vec![vec![("Weight".into(), Some(600.0), Some(700.0))]], subs: vec![("A".into(), "A.alt".into())] });
    }
    if t.rules == 2 {
        let mut conditions = vec![("Weight".to_string(), Some(500.0), Some(700.0))];
        if two_axes {
            conditions.push(("Extra".to_string(), Some(50.0), Some(100.0)));
        }
        d.rules.push(Rule { name: "r2".into(), condition_sets: vec![conditions], subs: vec![("B".into(), "B.alt".into())] });
    }
    if t.inst == 1 {
        let default: Vec<f64> = d.axes.iter().map(|a| a.default).collect();
        let mut bold = default.clone();
        bold[0] = d.axes[0].max;
        d.instances.push(Instance { family: None, style: "Regular".into(), ps_name: None, user_loc: default });
        d.instances.push(Instance { family: None, style: "Bold".into(), ps_name: Some("C05Gen-Bold".into()), user_loc: bold });
    }
    d.features_fea = feature_text(t);
    d
}
