//! The generated source families used by the schedule checks (C01 dimension 1, C02).
use dgen::*;

fn square_layer(adv: f64, x0: f64, w: f64, h: f64) -> Layer {
    Layer {
        advance: adv,
        contours: vec![shapes::rect(x0, 0.0, x0 + w, h)],
        ..Default::default()
    }
}

/// J0: static, 2 simple glyphs, no `.notdef` in the source (it is synthesised after glyph order).
pub fn j0() -> Design {
    let mut d = Design::static_font("VrtJ0");
    for (n, cp, w) in [("A", 0x41u32, 300.0), ("B", 0x42, 400.0)] {
        let mut g = Glyph::new(n, &[cp]);
        g.layers.insert(0, square_layer(w + 100.0, 50.0, w, 700.0));
        d.glyphs.push(g);
    }
    d
}

/// J1: variable (2 masters), composite + its base, kerning at both masters, groups, FEA.
pub fn j1() -> Design {
    let mut d = Design::skeleton(
        "VrtJ1",
        vec![Axis::new("wght", "Weight", 400.0, 400.0, 700.0)],
        vec![vec![400.0], vec![700.0]],
    );
    for (n, cp, w) in [("A", 0x41u32, 300.0), ("V", 0x56, 360.0), ("acutecomb", 0x301, 100.0)] {
        let mut g = Glyph::new(n, &[cp]);
        for m in 0..2 {
            let k = m as f64;
            g.layers.insert(m, square_layer(w + 100.0 + 40.0 * k, 50.0, w + 30.0 * k, 700.0));
        }
        d.glyphs.push(g);
    }
    let mut g = Glyph::new("Aacute", &[0xC1]);
    for m in 0..2 {
        let k = m as f64;
        g.layers.insert(
            m,
            Layer {
                advance: 400.0 + 40.0 * k,
                components: vec![Component::at("A", 0.0, 0.0), Component::at("acutecomb", 120.0 + 10.0 * k, 200.0)],
                ..Default::default()
            },
        );
    }
    d.glyphs.push(g);
    for m in 0..2 {
        let k = m as f64;
        let ms = &mut d.masters[m];
        ms.groups.insert("public.kern1.A".into(), vec!["A".into(), "Aacute".into()]);
        ms.groups.insert("public.kern2.V".into(), vec!["V".into()]);
        ms.kerning.insert(("public.kern1.A".into(), "public.kern2.V".into()), -50.0 - 20.0 * k);
        ms.kerning.insert(("V".into(), "A".into()), -40.0 - 10.0 * k);
    }
    d.features_fea = Some("languagesystem DFLT dflt;\nlanguagesystem latn dflt;\nfeature liga {\n  sub A V by Aacute;\n} liga;\n".into());
    d
}

/// J2: a non-export glyph used as a component; a mixed contour+component glyph.
pub fn j2() -> Design {
    let mut d = Design::skeleton(
        "VrtJ2",
        vec![Axis::new("wght", "Weight", 400.0, 400.0, 700.0)],
        vec![vec![400.0], vec![700.0]],
    );
    let mut part = Glyph::new("_part", &[]);
    part.export = false;
    let mut a = Glyph::new("A", &[0x41]);
    let mut mixed = Glyph::new("B", &[0x42]);
    let mut comp = Glyph::new("C", &[0x43]);
    for m in 0..2 {
        let k = m as f64;
        part.layers.insert(m, square_layer(200.0, 0.0, 100.0 + 20.0 * k, 100.0));
        a.layers.insert(m, square_layer(400.0 + 30.0 * k, 50.0, 300.0 + 30.0 * k, 700.0));
        mixed.layers.insert(
            m,
            Layer {
                advance: 500.0,
                contours: vec![shapes::rect(50.0, 0.0, 150.0 + 10.0 * k, 300.0)],
                components: vec![Component::at("A", 100.0, 0.0)],
                ..Default::default()
            },
        );
        comp.layers.insert(
            m,
            Layer {
                advance: 450.0,
                components: vec![Component::at("_part", 10.0, 20.0 + 5.0 * k), Component::at("A", 0.0, 0.0)],
                ..Default::default()
            },
        );
    }
    d.glyphs.extend([part, a, mixed, comp]);
    d
}

/// A source family entry: name, design, compiler options.
pub struct Src {
    pub name: &'static str,
    pub design: Design,
    pub opts: fcx::Opts,
    pub emit_ir: bool,
}

pub fn family() -> Vec<Src> {
    vec![
        Src { name: "J0", design: j0(), opts: fcx::Opts::default(), emit_ir: false },
        Src { name: "J1", design: j1(), opts: fcx::Opts::default(), emit_ir: false },
        Src { name: "J2", design: j2(), opts: fcx::Opts { no_prefer_simple: true, ..Default::default() }, emit_ir: false },
        Src { name: "J3", design: j1(), opts: fcx::Opts { skip_features: true, ..Default::default() }, emit_ir: false },
        Src { name: "J5", design: j1(), opts: fcx::Opts::default(), emit_ir: true },
    ]
}
