//! The generated source families used by the schedule checks (C01 dimension 1, C02).
use dgen::*;

fn square_layer(adv: f64, x0: f64, w: f64, h: f64) -> Layer {
    Layer {
        advance: adv,
        contours: vec![shapes::rect(x0, 0.0, x0 + w, h)],
        ..Default::default()
    }
}

/// J0: static, 2 simple glyphs, no `.notdef` in the source (it is synthesised after glyph order).
pub fn j0() -> Design {
    let mut d = Design::static_font("VrtJ0");
    for (n, cp, w) in [("A", 0x41u32, 300.0), ("B", 0x42, 400.0)] {
        let mut g = Glyph::new(n, &[cp]);
        g.layers.insert(0, square_layer(w + 100.0, 50.0, w, 700.0));
        d.glyphs.push(g);
    }
    d
}

/// J1: variable (2 masters), composite + its base, kerning at both masters, groups, FEA.
pub fn j1() -> Design {
    let mut d = Design::skeleton(
        "VrtJ1",
        vec![Axis::new("wght", "Weight", 400.0, 400.0, 700.0)],
        vec![vec![400.0], vec![700.0]],
    );
    for (n, cp, w) in [("A", 0x41u32, 300.0), ("V", 0x56, 360.0), ("acutecomb", 0x301, 100.0)] {
        let mut g = Glyph::new(n, &[cp]);
        for m in 0..2 {
            let k = m as f64;
            g.layers.insert(m, square_layer(w + 100.0 + 40.0 * k, 50.0, w + 30.0 * k, 700.0));
        }
        d.glyphs.push(g);
    }
    let mut g = Glyph::new("Aacute", &[0xC1]);
    for m in 0..2 {
        let k = m as f64;
        g.layers.insert(
            m,
            Layer {
                advance: 400.0 + 40.0 * k,
                components: vec![Component::at("A", 0.0, 0.0), Component::at("acutecomb", 120.0 + 10.0 * k, 200.0)],
                ..Default::default()
            },
        );
    }
    d.glyphs.push(g);
    for m in 0..2 {
        let k = m as f64;
        let ms = &mut d.masters[m];
        ms.groups.insert("public.kern1.A".into(), vec!["A".into(), "Aacute".into()]);
        ms.groups.insert("public.kern2.V".into(), vec!["V".into()]);
        ms.kerning.insert(("public.kern1.A".into(), "public.kern2.V".into()), -50.0 - 20.0 * k);
        ms.kerning.insert(("V".into(), "A".into()), -40.0 - 10.0 * k);
    }
    d.features_fea = Some("languagesystem DFLT dflt;\nlanguagesystem latn dflt;\nfeature liga {\n  sub A V by Aacute;\n} liga;\n".into());
    d
}

/// J2: a non-export glyph used as a component; a mixed contour+component glyph.
pub fn j2() -> Design {
    let mut d = Design::skeleton(
        "VrtJ2",
        vec![Axis::new("wght", "Weight", 400.0, 400.0, 700.0)],
        vec![vec![400.0], vec![700.0]],
    );
    let mut part = Glyph::new("_part", &[]);
    part.export = false;
    let mut a = Glyph::new("A", &[0x41]);
    let mut mixed = Glyph::new("B", &[0x42]);
    let mut comp = Glyph::new("C", &[0x43]);
    for m in 0..2 {
        let k = m as f64;
        part.layers.insert(m, square_layer(200.0, 0.0, 100.0 + 20.0 * k, 100.0));
        a.layers.insert(m, square_layer(400.0 + 30.0 * k, 50.0, 300.0 + 30.0 * k, 700.0));
        mixed.layers.insert(
            m,
            Layer {
                advance: 500.0,
                contours: vec![shapes::rect(50.0, 0.0, 150.0 + 10.0 * k, 300.0)],
                components: vec![Component::at("A", 100.0, 0.0)],
                ..Default::default()
            },
        );
        comp.layers.insert(
            m,
            Layer {
                advance: 450.0,
                components: vec![Component::at("_part", 10.0, 20.0 + 5.0 * k), Component::at("A", 0.0, 0.0)],
                ..Default::default()
            },
        );
    }
    d.glyphs.extend([part, a, mixed, comp]);
    d
}

/// N1: collisions on which a map-order leak would show. Several mixed contour+component glyphs
/// (each derives an `X.0` glyph when prefer-simple is off: their relative order), several name
/// records with the same string (font-specific ids spelling the axis name, an instance named like
/// the family, style = family), equal kerning values, several non-default masters and a glyph
/// with a sparse layer.
pub fn n1() -> Design {
    use dgen::plist::Plist;
    let mut d = Design::skeleton(
        "Fam",
        vec![Axis::new("wght", "Weight", 300.0, 400.0, 700.0)],
        vec![vec![400.0], vec![300.0], vec![700.0], vec![550.0]],
    );
    let names = ["A", "B", "C", "D", "E", "F"];
    for (i, n) in names.iter().enumerate() {
        let mut g = Glyph::new(n, &[0x41 + i as u32]);
        for m in 0..4 {
            let k = m as f64;
            let mut l = square_layer(400.0 + 10.0 * i as f64 + 7.0 * k, 40.0, 200.0 + 11.0 * k, 600.0 + 3.0 * i as f64);
            if i > 0 {
                // mixed: a contour and a component
                l.components = vec![Component::at("A", 250.0 + 5.0 * k, 10.0 * i as f64)];
            }
            g.layers.insert(m, l);
        }
        d.glyphs.push(g);
    }
    for m in 0..4 {
        let ms = &mut d.masters[m];
        ms.style_name = if m == 0 { "Fam".into() } else { format!("S{m}") };
        for (a, b) in [("A", "B"), ("B", "A"), ("C", "D"), ("D", "C"), ("E", "F")] {
            ms.kerning.insert((a.into(), b.into()), -30.0);
        }
        let rec = |id: i64, s: &str| {
            Plist::Dict(vec![
                ("nameID".into(), Plist::Int(id)),
                ("platformID".into(), Plist::Int(3)),
                ("encodingID".into(), Plist::Int(1)),
                ("languageID".into(), Plist::Int(0x409)),
                ("string".into(), Plist::s(s)),
            ])
        };
        ms.info.extra.push(("openTypeNameRecords".into(), Plist::Array(vec![rec(256, "Weight"), rec(257, "Weight"), rec(300, "Weight"), rec(258, "Fam")])));
    }
    d.instances = vec![
        Instance { family: None, style: "Fam".into(), ps_name: None, user_loc: vec![400.0] },
        Instance { family: None, style: "Weight".into(), ps_name: Some("Fam-Weight".into()), user_loc: vec![700.0] },
        Instance { family: None, style: "Fam".into(), ps_name: None, user_loc: vec![300.0] },
    ];
    d
}

/// A source family entry: name, design, compiler options.
/// M1: static, 17 simple glyphs, every ordered pair kerned with its own value: 289 adjustments, i.e. more than one
/// block of 256, so that `handle_success(GatherIrKerning)` creates two `KernFragment` jobs at run time.
pub fn m1() -> Design {
    let mut d = Design::static_font("VrtM1");
    let names: Vec<String> = (0..17u32).map(|i| char::from_u32(0x41 + i).unwrap().to_string()).collect();
    for (i, n) in names.iter().enumerate() {
        let mut g = Glyph::new(n, &[0x41 + i as u32]);
        g.layers.insert(0, square_layer(400.0 + 10.0 * i as f64, 50.0, 300.0, 700.0));
        d.glyphs.push(g);
    }
    for (i, a) in names.iter().enumerate() {
        for (j, b) in names.iter().enumerate() {
            d.masters[0].kerning.insert((a.clone(), b.clone()), -(10.0 + (i * 17 + j) as f64));
        }
    }
    d
}

pub struct Src {
    pub name: &'static str,
    pub design: Design,
    pub opts: fcx::Opts,
    pub emit_ir: bool,
}

/// K1: the richest one-axis member of the kitchen family (checks::kitchen): sparse layer master,
/// synthesised `.notdef`, quadratic + cubic outlines, nested / transformed / mixed composites, a
/// non-exported component, group kerning that differs between masters, mark / mkmk / ligature
/// anchors, GSUB + GPOS feature code with `table GDEF` / `table name`, vertical metrics, two
/// overlapping designspace rules, named instances — so that (nearly) every kind of job runs.
pub fn k1() -> Design {
    let t = crate::kitchen::Toggles { layout: 3, notdef: 0, inv: 1, adv: 0, comps: 15, kern: 3, marks: 3, fea: 3, vert: 1, rules: 2, inst: 1 };
    let mut d = crate::kitchen::build_design(&t);
    d.family = "VrtK1".into();
    d
}

/// K2: the same on two axes (four corner masters + a sparse layer master, hidden axis, axis <map>).
pub fn k2() -> Design {
    let t = crate::kitchen::Toggles { layout: 6, notdef: 1, inv: 1, adv: 1, comps: 15, kern: 3, marks: 3, fea: 3, vert: 1, rules: 2, inst: 1 };
    let mut d = crate::kitchen::build_design(&t);
    d.family = "VrtK2".into();
    d
}

pub fn family() -> Vec<Src> {
    vec![
        Src { name: "J0", design: j0(), opts: fcx::Opts::default(), emit_ir: false },
        Src { name: "J1", design: j1(), opts: fcx::Opts::default(), emit_ir: false },
        Src { name: "J2", design: j2(), opts: fcx::Opts { no_prefer_simple: true, ..Default::default() }, emit_ir: false },
        Src { name: "J3", design: j1(), opts: fcx::Opts { skip_features: true, ..Default::default() }, emit_ir: false },
        Src { name: "J5", design: j1(), opts: fcx::Opts::default(), emit_ir: true },
        Src { name: "M1", design: m1(), opts: fcx::Opts::default(), emit_ir: false },
        Src { name: "K1", design: k1(), opts: fcx::Opts::default(), emit_ir: false },
        Src { name: "K2", design: k2(), opts: fcx::Opts::default(), emit_ir: false },
        Src { name: "N1", design: n1(), opts: fcx::Opts { no_prefer_simple: true, ..Default::default() }, emit_ir: false },
    ]
}
