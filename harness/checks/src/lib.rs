//! Code shared by several check binaries.
pub mod kitchen;
pub mod sources;
