//! Code shared by several check binaries.
pub mod sources;
