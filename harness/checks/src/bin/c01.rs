//! C01 — repeatable builds. Three owned dimensions: schedules (engine A, every schedule within d
//! demotions yields a font; all must be the same bytes), hash seeds (getrandom interposer),
//! pool sizes (real rayon pool; labelled uncontrolled).
use checks::sources::{self, Src};
use serde_json::json;
use std::{
    collections::BTreeMap,
    path::{Path, PathBuf},
    sync::{Arc, atomic::{AtomicUsize, Ordering}},
};
use vcore::{Reporter, Tier};
use vrt::{ExploreCfg, Job, RunCfg};

fn make_job(path: PathBuf, opts: fcx::Opts, ir_root: Option<PathBuf>) -> Job {
    let n = Arc::new(AtomicUsize::new(0));
    Arc::new(move || {
        let ir = ir_root.as_ref().map(|r| {
            let d = r.join(format!("ir{}-{}", std::process::id(), n.fetch_add(1, Ordering::Relaxed)));
            let _ = std::fs::create_dir_all(&d);
            d
        });
        let r = fcx::compile(&path, &opts, ir.as_deref());
        if let Some(d) = ir {
            let _ = std::fs::remove_dir_all(d);
        }
        match r {
            Ok(b) => format!("ok:{}:{:016x}", b.len(), vcore::hash64(&b)),
            Err(fcx::Failure::Error(e)) => format!("err:{e}"),
            Err(fcx::Failure::Panic(e)) => format!("panic:{e}"),
        }
    })
}

/// One build with the product binary; Ok(bytes) or Err(summary).
fn product_build(src: &Path, extra: &[String], seed: u64, threads: usize, out: &Path) -> Result<Vec<u8>, String> {
    let mut cmd = vcore::fontc_cmd(&vcore::fontc_bin(), Some(seed));
    cmd.env("RAYON_NUM_THREADS", threads.to_string());
    cmd.arg(src).arg("-o").arg(out).args(extra);
    let _ = std::fs::remove_file(out);
    let o = vcore::run_proc(&mut cmd, 120_000, Some(8 << 30));
    if o.code == Some(0) {
        std::fs::read(out).map_err(|e| format!("exit 0 but no font: {e}"))
    } else {
        Err(o.summary())
    }
}

fn probe_hash_order() -> ! {
    let s: std::collections::HashSet<&str> = ["a", "b", "c", "d", "e", "f", "g", "h"].into_iter().collect();
    println!("{}", s.into_iter().collect::<Vec<_>>().join(""));
    std::process::exit(0)
}

fn main() {
    let args = vcore::parse_args();
    if args.rest.first().map(|s| s.as_str()) == Some("probe-order") {
        probe_hash_order();
    }
    vcore::ensure_shim(args.seed);
    fcx::silence_panics();
    if let Some(arg) = vrt::worker_env() {
        let v: serde_json::Value = serde_json::from_str(&arg).unwrap_or_default();
        let job = make_job(
            v["path"].as_str().unwrap_or_default().into(),
            serde_json::from_value(v["opts"].clone()).unwrap_or_default(),
            v["ir_root"].as_str().map(|s| s.into()),
        );
        vrt::worker_loop(&job);
    }
    if let Some(p) = &args.replay {
        replay(p);
    }
    let mut rep = Reporter::new("C01", "model_checking", &args);
    let sc = vcore::Scratch::new("c01");
    let t0 = std::time::Instant::now();

    // ---------------------------------------------------------------- dimension 1: schedules
    let fam: Vec<Src> = sources::family();
    let sched_sources: Vec<usize> = args.tier.pick(vec![1], vec![0, 1, 2, 4]);
    let dmax = args.tier.pick(1, 2);
    let sched_budget = args.tier.pick(60.0, 600.0) * vcore::budget_scale();
    let (mut states, mut transitions, mut execs, mut complete) = (0usize, 0usize, 0usize, 0usize);
    let mut sched_plans = vec![];
    let mut samples = vec![];
    let mut exhaustive = true;
    for (i, si) in sched_sources.iter().enumerate() {
        let src = &fam[*si];
        let dir = sc.join(&format!("s{si}"));
        let path = src.design.write_source(&dir).unwrap_or_else(|e| vcore::machinery_error(&format!("{e}")));
        let ir_root = src.emit_ir.then(|| dir.join("irs"));
        let worker_arg = json!({"path": path, "opts": src.opts, "ir_root": ir_root}).to_string();
        // reference: the inline build (no controller)
        let inline = (make_job(path.clone(), src.opts.clone(), ir_root.clone()))();
        for main_last in [false, true] {
            let remaining = sched_budget - t0.elapsed().as_secs_f64();
            let share = remaining / ((sched_sources.len() - i) as f64 * if main_last { 1.0 } else { 2.0 });
            let cfg = ExploreCfg {
                run: RunCfg { k: 64, main_last, dmax, harvest: true },
                threads: vcore::ncores(),
                max_execs: None,
                deadline: Some(std::time::Instant::now() + std::time::Duration::from_secs_f64(share.max(5.0))),
                visited: None,
            };
            let st = vrt::explore_mp(&cfg, &worker_arg, sc.path());
            if !st.divergences.is_empty() {
                vcore::machinery_error(&format!("replay divergence: {:?}", st.divergences.first()));
            }
            if st.capped {
                exhaustive = false;
            }
            states += st.states;
            transitions += st.transitions;
            execs += st.execs;
            complete += st.complete;
            let mut outs: BTreeMap<String, usize> = st.outcomes.clone();
            *outs.entry(inline.clone()).or_default() += 0;
            if outs.len() > 1 {
                let other = outs.keys().find(|k| **k != inline).cloned().unwrap_or_default();
                let ch = st.outcome_first.get(&other).cloned();
                rep.violation(
                    &format!("schedule-dependent-output:{}", src.name),
                    &format!("{} distinct results over the explored schedules (inline build {inline}, also {other})", outs.len()),
                    json!({"kind": "schedule", "source": src.name, "design": src.design, "opts": src.opts, "emit_ir": src.emit_ir,
                           "k": 64, "main_last": main_last, "d": dmax, "outcomes": outs, "choices_of_a_failing_schedule": ch}),
                );
            }
            for (nz, steps, o) in st.samples.iter().take(1) {
                samples.push(json!({"dimension": "schedule", "source": src.name, "main_last": main_last, "non_default_choices": nz, "steps": steps, "result": o}));
            }
            sched_plans.push(json!({"source": src.name, "base_order": if main_last {"main-last"} else {"main-first"}, "d": dmax, "capped": st.capped,
                "executions": st.execs, "fonts_harvested": st.complete, "states": st.states, "transitions": st.transitions, "distinct_results": outs.len()}));
            eprintln!("[C01] schedules {} main_last={main_last} d<={dmax}: execs {} fonts {} states {} distinct {} ({:.1}s)", src.name, st.execs, st.complete, st.states, outs.len(), t0.elapsed().as_secs_f64());
        }
    }

    // ---------------------------------------------------------------- dimension 2+3: seeds × pool sizes (product binary)
    // non-vacuity of the seed dimension: the interposer really changes hash order
    let mut orders = std::collections::BTreeSet::new();
    for s in 0..8u64 {
        let exe = std::env::current_exe().unwrap();
        let mut c = std::process::Command::new(exe);
        c.arg("probe-order").env("LD_PRELOAD", vcore::shim_path()).env("VERIF_HASH_SEED", s.to_string());
        let o = vcore::run_proc(&mut c, 10_000, None);
        orders.insert(o.stdout.trim().to_string());
    }
    if orders.len() < 2 {
        vcore::machinery_error("hash seeds are not owned: 8 seeds gave one HashSet order");
    }
    let seeds: Vec<u64> = (0..args.tier.pick(3u64, 16)).map(|s| s + args.seed).collect();
    let threads: Vec<usize> = args.tier.pick(vec![1, 4], vec![1, 2, 3, 4, 8, 16]);
    // generated sources are tiny (30 ms a build) and made to collide: they get more seeds
    let gen_seeds: Vec<u64> = (0..args.tier.pick(8u64, 32)).map(|s| s + args.seed).collect();
    let mut cases: Vec<(String, PathBuf, Vec<String>, bool)> = vec![];
    for f in vcore::repo_fixtures() {
        let rel = f.strip_prefix(vcore::REPO).unwrap_or(&f).display().to_string();
        cases.push((rel, f, vec![], false));
    }
    // generated sources, each under several option sets
    let optsets: Vec<fcx::Opts> = match args.tier {
        Tier::Quick => vec![fcx::Opts::default(), fcx::Opts { flatten: true, ..Default::default() }],
        Tier::Thorough => vec![
            fcx::Opts::default(),
            fcx::Opts { flatten: true, ..Default::default() },
            fcx::Opts { decompose: true, ..Default::default() },
            fcx::Opts { no_production_names: true, ..Default::default() },
            fcx::Opts { skip_features: true, ..Default::default() },
            fcx::Opts { keep_direction: true, ..Default::default() },
        ],
    };
    for src in &fam {
        let dir = sc.join(&format!("g{}", src.name));
        let path = src.design.write_source(&dir).unwrap_or_else(|e| vcore::machinery_error(&format!("{e}")));
        for o in &optsets {
            let mut extra = o.cli_args();
            extra.extend(src.opts.cli_args());
            extra.sort();
            extra.dedup();
            cases.push((format!("generated:{}:{}", src.name, o.name()), path.clone(), extra, true));
        }
    }
    let deadline = std::time::Instant::now() + std::time::Duration::from_secs_f64(args.tier.pick(135.0, 1200.0) * vcore::budget_scale());
    let results = vcore::par_for(cases.len(), vcore::ncores(), |ci| {
        let (name, path, extra, generated) = &cases[ci];
        let seeds = if *generated { &gen_seeds } else { &seeds };
        if std::time::Instant::now() > deadline {
            return (name.clone(), None);
        }
        let out = sc.join(&format!("out{ci}.ttf"));
        let mut seen: BTreeMap<String, (u64, usize, Vec<u8>)> = BTreeMap::new();
        for s in seeds {
            for t in &threads {
                let r = product_build(path, extra, *s, *t, &out);
                let key = match &r {
                    Ok(b) => format!("ok:{}:{:016x}", b.len(), vcore::hash64(b)),
                    Err(e) => format!("fail:{e}"),
                };
                seen.entry(key).or_insert((*s, *t, r.unwrap_or_default()));
            }
        }
        let _ = std::fs::remove_file(&out);
        (name.clone(), Some(seen))
    });
    let (mut builds, mut sources_ok, mut sources_failing, mut skipped) = (0usize, 0usize, 0usize, 0usize);
    for ((name, path, extra, generated), (_, seen)) in cases.iter().zip(results) {
        let builds_per_case = if *generated { gen_seeds.len() } else { seeds.len() } * threads.len();
        let Some(seen) = seen else {
            skipped += 1;
            exhaustive = false;
            continue;
        };
        builds += builds_per_case;
        if seen.len() == 1 {
            if seen.keys().next().is_some_and(|k| k.starts_with("ok:")) {
                sources_ok += 1;
            } else {
                sources_failing += 1;
            }
            continue;
        }
        let mut it = seen.iter();
        let (ka, (sa, ta, ba)) = it.next().unwrap();
        let (kb, (sb, tb, bb)) = it.next().unwrap();
        let diff = vcore::table_diff(ba, bb);
        rep.violation(
            &format!("nondeterministic-output:{name}"),
            &format!("{} distinct results over {} builds (seeds x pool sizes); e.g. seed {sa}/threads {ta} -> {ka}, seed {sb}/threads {tb} -> {kb}; tables differing: {diff:?}", seen.len(), builds_per_case),
            json!({"kind": "seeds", "source": path, "args": extra, "a": {"seed": sa, "threads": ta}, "b": {"seed": sb, "threads": tb}, "tables": diff}),
        );
    }
    if samples.len() < 8 {
        for (name, _, extra, generated) in cases.iter().take(2).chain(cases.iter().rev().take(2)) {
            samples.push(json!({"dimension": "seeds x pool", "source": name, "args": extra, "seeds": if *generated { &gen_seeds } else { &seeds }, "threads": threads}));
        }
    }
    rep.set("states", states.max(1));
    rep.set("transitions", transitions.max(1));
    rep.set("traces_validated_against_impl", execs);
    rep.set("evaluations", execs + builds);
    rep.set("schedule_dimension", json!({"plans": sched_plans, "executions": execs, "fonts_compared": complete,
        "bound": "every schedule within d demotions of a strict-priority scheduler, both base orders, harvest mode: an execution that reaches an already expanded state is finished on the default schedule so that every explored prefix yields a font"}));
    rep.set("seed_dimension", json!({"seeds": seeds, "seeds_for_generated_sources": gen_seeds, "pool_sizes": threads, "sources": cases.len(), "builds": builds,
        "sources_stable_ok": sources_ok, "sources_stable_failing": sources_failing, "sources_skipped_deadline": skipped,
        "distinct_hash_orders_of_probe_set_over_8_seeds": orders.len(),
        "note": "pool sizes > 1 run the real rayon pool: schedules there are sampled (uncontrolled), the exhaustive schedule claim rests on the schedule dimension"}));
    rep.set("samples", samples);
    rep.set("exhaustive", exhaustive);
    rep.assume("SOURCE_DATE_EPOCH fixed; all compared builds come from one binary; hash seeds outside the enumerated set, schedules beyond the demotion bound and real-pool schedules beyond the sweep are not covered");
    rep.finish()
}

fn replay(path: &Path) -> ! {
    let v: serde_json::Value = serde_json::from_str(&std::fs::read_to_string(path).unwrap_or_default())
        .unwrap_or_else(|e| vcore::machinery_error(&format!("replay file: {e}")));
    let r = &v["replay"];
    let sc = vcore::Scratch::new("c01replay");
    let bad;
    if r["kind"] == "seeds" {
        let src = PathBuf::from(r["source"].as_str().unwrap_or_default());
        let extra: Vec<String> = serde_json::from_value(r["args"].clone()).unwrap_or_default();
        let a = product_build(&src, &extra, r["a"]["seed"].as_u64().unwrap_or(0), r["a"]["threads"].as_u64().unwrap_or(1) as usize, &sc.join("a.ttf"));
        let b = product_build(&src, &extra, r["b"]["seed"].as_u64().unwrap_or(0), r["b"]["threads"].as_u64().unwrap_or(1) as usize, &sc.join("b.ttf"));
        println!("a: {:?}\nb: {:?}", a.as_ref().map(|b| vcore::hash64(b)), b.as_ref().map(|b| vcore::hash64(b)));
        if let (Ok(a), Ok(b)) = (&a, &b) {
            println!("tables differing: {:?}", vcore::table_diff(a, b));
        }
        bad = a != b;
        if !bad {
            println!("(the two recorded configurations agree now; a real pool schedule may be needed — run the check again)");
        }
    } else {
        let design: dgen::Design = serde_json::from_value(r["design"].clone()).unwrap_or_else(|e| vcore::machinery_error(&format!("{e}")));
        let opts: fcx::Opts = serde_json::from_value(r["opts"].clone()).unwrap_or_default();
        let p = design.write_source(sc.path()).unwrap();
        let job = make_job(p, opts, None);
        let inline = job();
        let choices: Vec<usize> = serde_json::from_value(r["choices_of_a_failing_schedule"].clone()).unwrap_or_default();
        let cfg = RunCfg { k: 64, main_last: r["main_last"].as_bool().unwrap_or(false), dmax: usize::MAX / 2, harvest: false };
        let x = vrt::run_one(&job, &cfg, &choices, None);
        println!("inline {inline}; schedule {:?}", x.outcome);
        bad = x.outcome.as_deref() != Some(inline.as_str());
    }
    vcore::cleanup_scratch();
    std::process::exit(if bad { 1 } else { 0 })
}
