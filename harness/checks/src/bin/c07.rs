//! C07 — variation model reproduces its masters and builds valid regions.
//! Bounded-exhaustive enumeration of master-location sets at the `fontdrasil` API.
use fontdrasil::{
    coords::{NormalizedCoord, NormalizedLocation},
    variations::{RoundingBehaviour, VariationModel, VariationRegion},
};
use serde_json::json;
use std::collections::{HashMap, HashSet};
use vcore::{Reporter, Tier};
use write_fonts::types::Tag;

/// Region scalar per the OpenType spec ("Algorithm for interpolation of instance values"),
/// written independently of `VariationRegion::scalar_at`.
fn spec_scalar(region: &VariationRegion, loc: &[(Tag, f64)]) -> f64 {
    let mut s = 1.0;
    for (tag, tent) in region.iter() {
        let (min, peak, max) = (tent.min.to_f64(), tent.peak.to_f64(), tent.max.to_f64());
        let v = loc
            .iter()
            .find(|(t, _)| t == tag)
            .map(|(_, v)| *v)
            .unwrap_or(0.0);
        if min > peak || peak > max {
            continue;
        }
        if min < 0.0 && max > 0.0 {
            continue;
        }
        if peak == 0.0 {
            continue;
        }
        if v == peak {
            continue;
        }
        if v <= min || v >= max {
            return 0.0;
        }
        if v < peak {
            s *= (v - min) / (peak - min)
        } else {
            s *= (max - v) / (max - peak)
        }
    }
    s
}

#[derive(Default)]
struct Agg {
    sets: u64,
    evals: u64,
    nontrivial: u64,
    order_checks: u64,
    interp_checks: u64,
    subset_evals: u64,
    viol: Vec<(String, String, serde_json::Value)>,
    samples: Vec<serde_json::Value>,
}

fn combos(n: usize, k: usize, start: usize, cur: &mut Vec<usize>, out: &mut Vec<Vec<usize>>) {
    if cur.len() == k {
        out.push(cur.clone());
        return;
    }
    for i in start..n {
        cur.push(i);
        combos(n, k, i + 1, cur, out);
        cur.pop();
    }
}

struct Space {
    n_axes: usize,
    tags: Vec<Tag>,
    pts: Vec<Vec<f64>>,
    values: Vec<f64>,
    all_vectors_up_to: usize,
}

fn to_loc(tags: &[Tag], l: &[f64]) -> NormalizedLocation {
    tags.iter()
        .zip(l)
        .map(|(t, v)| (*t, NormalizedCoord::new(*v)))
        .collect()
}

fn check_set(sp: &Space, set: &[usize], case_no: u64, agg: &mut Agg) {
    let origin = vec![0.0; sp.n_axes];
    let mut locs: Vec<Vec<f64>> = vec![origin.clone()];
    locs.extend(set.iter().map(|i| sp.pts[*i].clone()));
    // the model's axis order must not contain point axes
    if !(0..sp.n_axes).all(|a| locs.iter().any(|l| l[a] != 0.0)) {
        return;
    }
    agg.sets += 1;
    let tags = &sp.tags;
    let nlocs: Vec<NormalizedLocation> = locs.iter().map(|l| to_loc(tags, l)).collect();
    let model = VariationModel::new(nlocs.iter().cloned().collect(), tags.clone());
    let key = |what: &str| format!("{what}:axes={}:locs={:?}", sp.n_axes, locs);
    let mut bad = |what: &str, msg: String, agg: &mut Agg| {
        if agg.viol.len() < 20 {
            agg.viol.push((
                key(what),
                msg,
                json!({"axes": sp.n_axes, "locations": locs, "kind": what}),
            ));
        }
    };

    // order independence: different insertion orders (each HashSet has its own RandomState)
    let n = nlocs.len();
    let orders: Vec<Vec<usize>> = if n <= 4 {
        permutations(n)
    } else {
        vec![
            (0..n).rev().collect(),
            (0..n).map(|i| (i + 1) % n).collect(),
            (0..n).map(|i| (i * 2 + 1) % n).collect::<HashSet<_>>().into_iter().collect(),
        ]
    };
    for ord in orders.iter().filter(|o| o.len() == n) {
        let mut hs = HashSet::new();
        for i in ord {
            hs.insert(nlocs[*i].clone());
        }
        let m2 = VariationModel::new(hs, tags.clone());
        agg.order_checks += 1;
        if m2 != model {
            bad("order-dependence", format!("model differs for insertion order {ord:?}"), agg);
            break;
        }
    }

    // value vectors
    let nvals = sp.values.len();
    let mut vectors: Vec<(Vec<f64>, bool)> = Vec::new(); // (values, rounded?)
    for i in 0..n {
        let mut v = vec![0.0; n];
        v[i] = 1.0;
        vectors.push((v.clone(), false));
        vectors.push((v, true));
    }
    if n <= sp.all_vectors_up_to {
        let total = nvals.pow(n as u32);
        for code in 0..total {
            let mut c = code;
            let v: Vec<f64> = (0..n)
                .map(|_| {
                    let x = sp.values[c % nvals];
                    c /= nvals;
                    x
                })
                .collect();
            vectors.push((v.clone(), true));
            if code % 7 == 0 {
                vectors.push((v, false));
            }
        }
    } else {
        for variant in 0..4usize {
            let v: Vec<f64> = (0..n)
                .map(|i| sp.values[(i * 2 + variant + case_no as usize) % nvals])
                .collect();
            vectors.push((v.clone(), true));
            vectors.push((v, false));
        }
    }

    let mut first = true;
    for (vals, rounded) in &vectors {
        let rounding = if *rounded {
            RoundingBehaviour::RoundTiesEven
        } else {
            RoundingBehaviour::None
        };
        let seqs: HashMap<NormalizedLocation, Vec<f64>> = nlocs
            .iter()
            .zip(vals)
            .map(|(l, v)| (l.clone(), vec![*v]))
            .collect();
        let deltas = match model.deltas_with_rounding::<f64, f64>(&seqs, rounding) {
            Ok(d) => d,
            Err(e) => {
                bad("deltas-error", format!("deltas failed: {e}"), agg);
                return;
            }
        };
        agg.evals += 1;
        if deltas.len() != n {
            bad("delta-count", format!("{} delta sets for {n} masters", deltas.len()), agg);
        }
        if first {
            first = false;
            let mut overlapping = false;
            for (region, _) in &deltas {
                for (_, t) in region.iter() {
                    let (mi, pk, ma) = (t.min.to_f64(), t.peak.to_f64(), t.max.to_f64());
                    if !(mi <= pk && pk <= ma && mi >= -1.0 && ma <= 1.0 && !(mi < 0.0 && ma > 0.0)) {
                        bad("bad-region", format!("tent ({mi},{pk},{ma})"), agg);
                    }
                }
                let mut peaks_hit = 0;
                for l in &locs {
                    let lt: Vec<(Tag, f64)> = tags.iter().cloned().zip(l.iter().cloned()).collect();
                    let s = spec_scalar(region, &lt);
                    if !(0.0..=1.0).contains(&s) {
                        bad("scalar-range", format!("scalar {s} at {l:?}"), agg);
                    }
                    let s2 = region.scalar_at(&to_loc(tags, l)).into_inner();
                    if (s - s2).abs() > 1e-12 {
                        bad("scalar-mismatch", format!("spec scalar {s} vs scalar_at {s2} at {l:?} for {region:?}"), agg);
                    }
                    if s > 0.0 && !region.is_default() {
                        peaks_hit += 1;
                    }
                }
                if peaks_hit > 1 {
                    overlapping = true;
                }
            }
            if overlapping {
                agg.nontrivial += 1;
            }
            if agg.samples.len() < 3 && (case_no % 997 == 0 || overlapping && agg.samples.is_empty()) {
                agg.samples.push(json!({"axes": sp.n_axes, "locations": locs,
                    "regions": deltas.iter().map(|(r, _)| format!("{r:?}")).collect::<Vec<_>>()}));
            }
        }
        // reproduction at every master
        for (i, (l, v)) in locs.iter().zip(vals).enumerate() {
            let lt: Vec<(Tag, f64)> = tags.iter().cloned().zip(l.iter().cloned()).collect();
            let sum: f64 = deltas.iter().map(|(r, d)| spec_scalar(r, &lt) * d[0]).sum();
            let err = (sum - v).abs();
            if i == 0 {
                // default: exact (the rounded default when rounding)
                let want = if *rounded { v.round_ties_even() } else { *v };
                if sum != want {
                    bad("default-not-exact", format!("default gives {sum}, want {want}; vals {vals:?}"), agg);
                }
            } else if *rounded {
                if err > 0.5 + 1e-9 {
                    bad("rounded-reproduction", format!("err {err} at {l:?} vals {vals:?}"), agg);
                }
            } else if err > 1e-9 {
                bad("exact-reproduction", format!("err {err} at {l:?} vals {vals:?}"), agg);
            }
            // the library's own interpolation agrees with the spec evaluation
            let got = model.interpolate_from_deltas(&nlocs[i], &deltas);
            agg.interp_checks += 1;
            let g = got.first().copied().unwrap_or(0.0);
            if (g - sum).abs() > 1e-9 {
                bad("interpolate-mismatch", format!("interpolate_from_deltas {g} vs spec {sum} at {l:?}"), agg);
            }
        }
    }

    // defining subsets: values for only some of the model's locations (always the default). The deltas
    // returned for the defined masters, applied with the regions they come with, must reproduce every
    // DEFINED master (the API computes each defined master against the earlier defined ones only).
    if n >= 3 && n <= 7 {
        for mask in 0u32..(1u32 << (n - 1)) {
            let defined: Vec<usize> = std::iter::once(0).chain((1..n).filter(|i| mask & (1 << (i - 1)) != 0)).collect();
            if defined.len() == n || defined.len() < 2 {
                continue;
            }
            for (variant, rounded) in [(0usize, false), (1, true)] {
                let vals: Vec<f64> = defined.iter().map(|i| sp.values[(i * 3 + variant + 1) % nvals] + *i as f64 * 17.0).collect();
                let rounding = if rounded { RoundingBehaviour::RoundTiesEven } else { RoundingBehaviour::None };
                let seqs: HashMap<NormalizedLocation, Vec<f64>> = defined.iter().zip(&vals).map(|(i, v)| (nlocs[*i].clone(), vec![*v])).collect();
                let deltas = match model.deltas_with_rounding::<f64, f64>(&seqs, rounding) {
                    Ok(d) => d,
                    Err(e) => {
                        bad("subset-deltas-error", format!("deltas failed for defined masters {defined:?}: {e}"), agg);
                        return;
                    }
                };
                agg.evals += 1;
                agg.subset_evals += 1;
                if deltas.len() != defined.len() {
                    bad("subset-delta-count", format!("{} delta sets for {} defined masters {defined:?}", deltas.len(), defined.len()), agg);
                }
                for (i, v) in defined.iter().zip(&vals) {
                    let l = &locs[*i];
                    let lt: Vec<(Tag, f64)> = tags.iter().cloned().zip(l.iter().cloned()).collect();
                    let sum: f64 = deltas.iter().map(|(r, d)| spec_scalar(r, &lt) * d[0]).sum();
                    let err = (sum - v).abs();
                    let tol = if rounded { 0.5 + 1e-9 } else { 1e-9 };
                    if err > tol {
                        bad(
                            "subset-reproduction",
                            format!("values only at masters {defined:?} of {n}: master at {l:?} should give {v}, the deltas give {sum} ({})", if rounded { "rounded" } else { "unrounded" }),
                            agg,
                        );
                    }
                }
            }
        }
    }
}

fn permutations(n: usize) -> Vec<Vec<usize>> {
    fn rec(cur: &mut Vec<usize>, used: &mut Vec<bool>, out: &mut Vec<Vec<usize>>) {
        if cur.len() == used.len() {
            out.push(cur.clone());
            return;
        }
        for i in 0..used.len() {
            if !used[i] {
                used[i] = true;
                cur.push(i);
                rec(cur, used, out);
                cur.pop();
                used[i] = false;
            }
        }
    }
    let mut out = vec![];
    rec(&mut vec![], &mut vec![false; n], &mut out);
    out
}

fn main() {
    let args = vcore::parse_args();
    let mut rep = Reporter::new("C07", "exploration", &args);
    // (axes, alphabet, max masters incl. default)
    let base = vec![-1.0, -0.5, 0.0, 0.5, 1.0];
    let fine = vec![-1.0, -0.5, 0.0, 0.25, 1.0 / 3.0, 0.5, 1.0];
    // three values on one side of the default: a master can be cut from both sides on one axis
    let quarters = vec![-1.0, -0.5, 0.0, 0.25, 0.5, 0.75, 1.0];
    let plans: Vec<(usize, Vec<f64>, usize, usize)> = match args.tier {
        // (n axes, alphabet, max number of non-default masters, all value vectors for sets up to this size)
        Tier::Quick => vec![(1, fine.clone(), 7, 4), (1, quarters.clone(), 7, 4), (2, base.clone(), 5, 3), (2, quarters.clone(), 5, 3), (3, base.clone(), 4, 3)],
        Tier::Thorough => vec![
            (1, fine.clone(), 7, 5),
            (1, quarters.clone(), 7, 5),
            (2, base.clone(), 6, 4),
            (2, fine.clone(), 4, 3),
            (2, quarters.clone(), 6, 3),
            (3, base.clone(), 5, 3),
            (3, vec![-1.0, 0.0, 0.25, 0.5, 0.75, 1.0], 4, 3),
            (4, vec![-1.0, 0.0, 0.5, 1.0], 3, 3),
        ],
    };
    let mut total = Agg::default();
    let mut plan_notes = vec![];
    for (n_axes, alphabet, max_size, all_vec) in plans {
        let tags: Vec<Tag> = ["aaaa", "bbbb", "cccc", "dddd"][..n_axes]
            .iter()
            .map(|s| Tag::new(s.as_bytes().try_into().unwrap()))
            .collect();
        let mut pts: Vec<Vec<f64>> = vec![vec![]];
        for _ in 0..n_axes {
            pts = pts
                .into_iter()
                .flat_map(|p| {
                    alphabet.iter().map(move |a| {
                        let mut q = p.clone();
                        q.push(*a);
                        q
                    })
                })
                .collect();
        }
        let origin = vec![0.0; n_axes];
        pts.retain(|p| *p != origin);
        let sp = Space {
            n_axes,
            tags,
            pts,
            values: vec![0.0, 1.0, 10.5, -7.0, 333.0],
            all_vectors_up_to: all_vec,
        };
        // tasks: (k, first index)
        let mut tasks: Vec<(usize, Option<usize>)> = vec![];
        for k in 0..max_size {
            if k == 0 {
                tasks.push((0, None));
            } else {
                for f in 0..sp.pts.len() {
                    tasks.push((k, Some(f)));
                }
            }
        }
        let results = vcore::par_for(tasks.len(), vcore::ncores(), |ti| {
            let (k, f) = tasks[ti];
            let mut agg = Agg::default();
            let mut sets = vec![];
            match f {
                None => sets.push(vec![]),
                Some(f) => {
                    let mut cur = vec![f];
                    combos(sp.pts.len(), k, f + 1, &mut cur, &mut sets);
                }
            }
            for (ci, set) in sets.iter().enumerate() {
                let r = std::panic::catch_unwind(std::panic::AssertUnwindSafe(|| {
                    let mut a = Agg::default();
                    check_set(&sp, set, (ti * 1000 + ci) as u64, &mut a);
                    a
                }));
                match r {
                    Ok(a) => {
                        agg.sets += a.sets;
                        agg.evals += a.evals;
                        agg.nontrivial += a.nontrivial;
                        agg.order_checks += a.order_checks;
                        agg.interp_checks += a.interp_checks;
                        agg.subset_evals += a.subset_evals;
                        agg.viol.extend(a.viol);
                        if agg.samples.len() < 2 {
                            agg.samples.extend(a.samples);
                        }
                    }
                    Err(p) => {
                        let msg = p
                            .downcast_ref::<String>()
                            .cloned()
                            .or(p.downcast_ref::<&str>().map(|s| s.to_string()))
                            .unwrap_or_default();
                        let locs: Vec<&Vec<f64>> = set.iter().map(|i| &sp.pts[*i]).collect();
                        agg.viol.push((
                            format!("panic:axes={n_axes}:locs={locs:?}"),
                            format!("panic: {msg}"),
                            json!({"axes": n_axes, "locations": locs}),
                        ));
                    }
                }
            }
            agg
        });
        let before = total.sets;
        for a in results {
            total.sets += a.sets;
            total.evals += a.evals;
            total.nontrivial += a.nontrivial;
            total.order_checks += a.order_checks;
            total.interp_checks += a.interp_checks;
            total.subset_evals += a.subset_evals;
            total.viol.extend(a.viol);
            if total.samples.len() < 6 {
                total.samples.extend(a.samples.into_iter().take(1));
            }
        }
        plan_notes.push(json!({"axes": n_axes, "alphabet": alphabet, "max_masters": max_size,
            "all_value_vectors_up_to_masters": all_vec, "location_sets": total.sets - before}));
    }
    std::panic::set_hook(Box::new(|_| {}));
    for (k, w, r) in total.viol.iter() {
        rep.violation(k, w, r.clone());
    }
    rep.set("evaluations", total.evals);
    rep.set("distinct_nontrivial", total.nontrivial);
    rep.set("rule", "every set of master locations containing the origin over the listed coordinate alphabets up to the listed size (every axis must have extent); per set: unit value vectors unrounded+rounded, all value vectors over {0,1,10.5,-7,333} for small sets (else 4 rotating vectors), all insertion orders (<=4 masters) or 3 orders; for sets of 3..7 masters also every proper subset of the masters (with the default) as the only masters with values, two value vectors each; non-trivial = sets in which some non-default region has a non-zero scalar at more than one master (overlapping influence)");
    rep.set("location_sets", total.sets);
    rep.set("insertion_orders_checked", total.order_checks);
    rep.set("interpolate_from_deltas_checks", total.interp_checks);
    rep.set("evaluations_with_values_for_a_proper_subset_of_the_masters", total.subset_evals);
    rep.set("plans", plan_notes);
    rep.set("samples", total.samples);
    rep.set("exhaustive", true);
    rep.assume("values outside the listed alphabets and more masters than the listed size are not covered");
    rep.assume("oracle: own implementation of the OpenType region scalar; float tolerance 1e-9 unrounded, 0.5 rounded");
    rep.finish()
}
