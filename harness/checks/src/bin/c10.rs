//! C10 — mark attachment in the font places marks on the source's anchors.
//!
//! Bounded-exhaustive: every source of the sub-spaces listed in `spaces()` is written as UFO
//! (+ designspace) by dgen, compiled in process with the real compiler (fcx) and judged with the
//! independent layout engine `otlayout` (enumeration of every mark-to-base / mark-to-ligature /
//! mark-to-mark anchor pair at a location, GDEF classes, shaping) and `otvar` (the font's own
//! normalisation of a master's user location, GDEF ItemVariationStore region scalars).
//!
//! Reference (computed from the `Design` alone, see `Model`):
//! * classification of a glyph
//!   - categories explicit (`public.openTypeCategories`): the category written for the glyph;
//!   - categories absent, propagate-anchors on ("glyph data" inference, what fontmake does at
//!     build time): a glyph whose code point is a nonspacing combining mark (U+0300..U+036F) is a
//!     mark; a glyph encoded in U+FB00..U+FB06 is a ligature if it has an attaching
//!     (non-underscore) anchor; any other glyph with an attaching anchor is a base; nothing else
//!     is classified;
//!   - categories absent, propagate-anchors off (ufo2ft's rule when no class is defined anywhere):
//!     the source classifies nothing, a glyph is a mark iff it carries an underscore anchor whose
//!     group some attaching anchor uses; an underscore anchor nobody can attach to (`_cedilla` while
//!     no glyph has `cedilla`) is inert, so a glyph whose underscore anchors are all of that kind is
//!     a base / ligature by its attaching anchors, and ambiguous and excluded (counted) if it has none;
//!   - the same design written as a Glyphs 3 source (second route, keys `glyphs3/..`): a Glyphs
//!     source always classifies: the written category (explicit mode) or the glyph data (by name /
//!     code point), turned into a class by the glyphsLib rule (Mark/Nonspacing -> mark; subCategory
//!     Ligature with an attaching anchor -> ligature; any other glyph with an attaching anchor -> base);
//! * expected attachments: for every attaching glyph G (base / ligature / mark) with anchor N
//!   (ligature: N_1, N_2 -> component 0, 1) and every mark M with anchor _N one entry
//!   (kind of G, G, component, M) with base anchor = ot_round(G.N at the master) and mark anchor =
//!   ot_round(M._N at the master);
//! * anchors of a composite with propagate-anchors on: the glyphsLib rule restricted to what the
//!   generator produces (translated components only, first component a plain base, second a mark):
//!   anchors of the components in order, moved by the component offset, later components replacing
//!   equally named earlier ones, underscore anchors taken from the first component only; anchors
//!   the composite defines itself replace propagated ones of the same name.
//!
//! Tolerance: the compiler rounds every master's anchor first (ot_round) and then every delta.
//! At a master location L the font's value is `rounded master value + sum_r s_r(L) e_r` with e_r
//! the rounding error of delta r (|e_r| <= 0.5, 0 for an integral delta). With one axis every
//! master location has region scalars in {0, 1} and all deltas are differences of integers, so the
//! comparison is EXACT; the same holds for the two-axis layouts (masters at the default, at one end of
//! one axis, at the corner: every support there is 0 or 1); this is not assumed but measured per font from the GDEF store
//! (`VFont::gdef_store().region_scalars`): if a scalar outside {0,1} is met the allowance becomes
//! 0.5 * sum of the scalars + 1e-6.

use dgen::{Anchor, Axis, Component, Design, Glyph, Layer, ot_round, shapes};
use fcx::Opts;
use otlayout::{FeatureSel, LFont, MarkAttachKind, MarkAttachment, ShapeRequest, Table};
use otvar::VFont;
use serde::{Deserialize, Serialize};
use serde_json::{Value, json};
use std::collections::{BTreeMap, BTreeSet};
use vcore::{Reporter, Tier};

const EPS: f64 = 1e-6;

/// the coordinate alphabet of the property design
const COORDS: [(f64, f64); 3] = [(250.0, 700.0), (260.0, 720.0), (250.5, 699.5)];

// ------------------------------------------------------------------------------------ the alphabet

/// (name, code point, category written when categories are explicit, index used for coordinate offsets)
const GLYPHS: [(&str, u32, &str); 7] = [
    ("a", 0x61, "base"),
    ("b", 0x62, "base"),
    ("f_i", 0xFB01, "ligature"),
    ("acutecomb", 0x301, "mark"),
    ("gravecomb", 0x300, "mark"),
    ("x", 0x78, "base"),
    ("aacute", 0xE1, "base"),
];

fn gindex(name: &str) -> usize {
    GLYPHS.iter().position(|g| g.0 == name).unwrap_or(GLYPHS.len())
}

#[derive(Clone, Copy, Debug, PartialEq, Eq, Serialize, Deserialize)]
enum Layout {
    /// static: a lone UFO
    One,
    /// wght 400 (default) .. 700, masters at both ends
    Two,
    /// wght 400 (default) .. 700, masters at 400, 550, 700
    ThreeMid,
    /// wght 400 .. 550 (default) .. 700, masters at 400, 550, 700
    ThreeEnds,
    /// two axes declared `wght` then `wdth` (NOT the alphabetical order of the tags), wght 400 (default)
    /// .. 700, wdth 100 (default) .. 150; masters: default, wght 700, wdth 150
    LWgWd,
    /// the same three masters, axes declared `wdth` then `wght` (alphabetical)
    LWdWg,
    /// axes declared `wght`, `wdth`; four corner masters: default, wght 700, wdth 150, both
    CWgWd,
    /// four corner masters, axes declared `wdth`, `wght`
    CWdWg,
}


impl Layout {
    fn masters(self) -> usize {
        match self {
            Layout::One => 1,
            Layout::Two => 2,
            Layout::CWgWd | Layout::CWdWg => 4,
            _ => 3,
        }
    }
    /// two-axis layouts: is `wght` declared first?
    fn wght_first(self) -> Option<bool> {
        match self {
            Layout::LWgWd | Layout::CWgWd => Some(true),
            Layout::LWdWg | Layout::CWdWg => Some(false),
            _ => None,
        }
    }
    fn name(self) -> &'static str {
        match self {
            Layout::One => "1",
            Layout::Two => "2",
            Layout::ThreeMid => "3mid",
            Layout::ThreeEnds => "3ends",
            Layout::LWgWd => "2ax-3-wght,wdth",
            Layout::LWdWg => "2ax-3-wdth,wght",
            Layout::CWgWd => "2ax-4-wght,wdth",
            Layout::CWdWg => "2ax-4-wdth,wght",
        }
    }
}

#[derive(Clone, Debug, Serialize, Deserialize)]
struct ASpec {
    name: String,
    /// index into COORDS per master
    c: Vec<usize>,
}

#[derive(Clone, Debug, Serialize, Deserialize)]
struct GSpec {
    name: String,
    export: bool,
    anchors: Vec<ASpec>,
    /// `aacute`-like composite: components (base, per-master offset)
    comps: Vec<(String, Vec<(f64, f64)>)>,
    /// left out of public.openTypeCategories although categories are explicit
    #[serde(default)]
    nocat: bool,
    /// category written instead of the glyph's natural one (explicit categories only)
    #[serde(default)]
    cat_override: Option<String>,
}

#[derive(Clone, Debug, Serialize, Deserialize)]
struct Spec {
    space: String,
    layout: Layout,
    explicit: bool,
    propagate: bool,
    glyphs: Vec<GSpec>,
}

impl Spec {
    fn label(&self) -> String {
        let mut s = format!(
            "{} masters={} categories={} propagate={}:",
            self.space,
            self.layout.name(),
            if self.explicit { "explicit" } else { "absent" },
            self.propagate
        );
        for g in &self.glyphs {
            s.push_str(&format!(" {}{}{}[", g.name, if g.export { "" } else { "(no-export)" }, if g.nocat && self.explicit { "(no-category)".to_string() } else if let (true, Some(c)) = (self.explicit, &g.cat_override) { format!("(category {c})") } else { String::new() }));
            for (i, a) in g.anchors.iter().enumerate() {
                if i > 0 {
                    s.push(',');
                }
                s.push_str(&a.name);
                s.push(':');
                for c in &a.c {
                    s.push_str(&c.to_string());
                }
            }
            s.push(']');
            for (b, o) in &g.comps {
                s.push_str(&format!("+{b}@{o:?}"));
            }
        }
        s
    }
}

/// Source position of anchor `name` of glyph `gname` for coordinate choice `c`: the alphabet value,
/// mirrored below the baseline for the bottom family, plus integral per-name / per-glyph offsets
/// that make every anchor of a font distinct (a mixed-up record is then visible). Fractions (.5)
/// are preserved; the bottom family has negative halves (-9.5), where floor(v + 0.5) and
/// round-half-away differ.
fn source_pos(gname: &str, aname: &str, c: usize) -> (f64, f64) {
    let (x, y) = COORDS[c % 3];
    let gi = gindex(gname) as f64;
    let under = aname.starts_with('_');
    let stem = aname.trim_start_matches('_');
    let (fam, idx) = match stem.split_once('_') {
        Some((f, i)) => (f, i.parse::<f64>().unwrap_or(1.0)),
        None => (stem, 1.0),
    };
    let (mut px, mut py) = if fam == "bottom" { (x, 690.0 - y) } else { (x, y) };
    px += 300.0 * (idx - 1.0) + 7.0 * gi;
    py += 11.0 * gi;
    if fam != "top" && fam != "bottom" {
        // any further family (cedilla) sits apart from the two main ones
        px += 37.0;
        py -= 23.0;
    }
    if under {
        // a mark's attaching point sits near its own origin
        px -= 213.0;
        py -= if fam == "bottom" { -40.0 } else { 640.0 };
    }
    (px, py)
}

fn build_design(s: &Spec) -> Design {
    let n = s.layout.masters();
    let mut d = match s.layout {
        Layout::One => Design::static_font("C10"),
        Layout::Two => Design::skeleton(
            "C10",
            vec![Axis::new("wght", "Weight", 400.0, 400.0, 700.0)],
            vec![vec![400.0], vec![700.0]],
        ),
        Layout::ThreeMid => Design::skeleton(
            "C10",
            vec![Axis::new("wght", "Weight", 400.0, 400.0, 700.0)],
            vec![vec![400.0], vec![550.0], vec![700.0]],
        ),
        Layout::ThreeEnds => Design::skeleton(
            "C10",
            vec![Axis::new("wght", "Weight", 400.0, 550.0, 700.0)],
            vec![vec![400.0], vec![550.0], vec![700.0]],
        ),
        Layout::LWgWd | Layout::LWdWg | Layout::CWgWd | Layout::CWdWg => {
            // master m: (wght, wdth) = default, wght max, wdth max, both max; written in declared axis order
            let wght_first = s.layout.wght_first() == Some(true);
            let wght = Axis::new("wght", "Weight", 400.0, 400.0, 700.0);
            let wdth = Axis::new("wdth", "Width", 100.0, 100.0, 150.0);
            let locs = [(400.0, 100.0), (700.0, 100.0), (400.0, 150.0), (700.0, 150.0)];
            Design::skeleton(
                "C10",
                if wght_first { vec![wght, wdth] } else { vec![wdth, wght] },
                locs[..n].iter().map(|(g, d)| if wght_first { vec![*g, *d] } else { vec![*d, *g] }).collect(),
            )
        }
    };
    for g in &s.glyphs {
        let (_, cp, cat) = GLYPHS[gindex(&g.name).min(GLYPHS.len() - 1)];
        let mut glyph = Glyph::new(&g.name, &[cp]);
        glyph.export = g.export;
        let is_mark = cat == "mark";
        for m in 0..n {
            let w = 20.0 * m as f64;
            let mut layer = Layer {
                advance: if is_mark { 0.0 } else { 500.0 + w },
                ..Default::default()
            };
            if g.comps.is_empty() {
                layer.contours = if is_mark {
                    vec![shapes::rect(-60.0, 560.0, 20.0 + w, 640.0)]
                } else {
                    vec![shapes::rect(50.0, 0.0, 150.0 + w, 500.0)]
                };
            } else {
                for (b, offs) in &g.comps {
                    let (dx, dy) = offs[m.min(offs.len() - 1)];
                    layer.components.push(Component::at(b, dx, dy));
                }
            }
            for a in &g.anchors {
                let (x, y) = source_pos(&g.name, &a.name, a.c[m.min(a.c.len() - 1)]);
                layer.anchors.push(Anchor { name: a.name.clone(), x, y });
            }
            glyph.layers.insert(m, layer);
        }
        if s.explicit && !g.nocat {
            d.categories.insert(g.name.clone(), g.cat_override.clone().unwrap_or(cat.to_string()));
        }
        d.glyphs.push(glyph);
    }
    d
}

// ------------------------------------------------------------------------------------ enumeration

const BASE_SETS: [&[&str]; 4] = [&[], &["top"], &["bottom"], &["top", "bottom"]];
const LIG_SETS: [&[&str]; 4] = [&[], &["top_1"], &["top_2"], &["top_1", "top_2"]];
/// None = glyph absent
const X_SETS: [Option<&[&str]>; 3] = [None, Some(&["_top"]), Some(&["_top", "top"])];

/// every subset of size <= 3 of {_top, _bottom, top, bottom}
fn mark_sets() -> Vec<Vec<&'static str>> {
    let names = ["_top", "_bottom", "top", "bottom"];
    let mut v = vec![];
    for bits in 0u32..16 {
        if bits.count_ones() <= 3 {
            v.push((0..4).filter(|i| bits & (1 << i) != 0).map(|i| names[i]).collect());
        }
    }
    v
}

/// default coordinate choices: vary with glyph, anchor and master so that every font with more
/// than one master has varying and fractional anchors
fn default_choice(gname: &str, ai: usize, n: usize) -> Vec<usize> {
    (0..n).map(|m| (gindex(gname) + ai + m) % 3).collect()
}

fn gspec(name: &str, anchors: &[&str], n: usize) -> GSpec {
    GSpec {
        name: name.to_string(),
        export: true,
        anchors: anchors
            .iter()
            .enumerate()
            .map(|(ai, a)| ASpec { name: a.to_string(), c: default_choice(name, ai, n) })
            .collect(),
        comps: vec![],
        nocat: false,
        cat_override: None,
    }
}

/// (explicit categories, propagate anchors)
const MODES4: [(bool, bool); 4] = [(true, false), (true, true), (false, true), (false, false)];
const MODES3: [(bool, bool); 3] = [(true, false), (false, true), (false, false)];

struct Space {
    name: &'static str,
    what: String,
    radices: Vec<usize>,
    build: Box<dyn Fn(&[usize]) -> Spec + Sync + Send>,
}

impl Space {
    fn size(&self) -> usize {
        self.radices.iter().product()
    }
    fn case(&self, mut i: usize) -> Spec {
        let mut digits = vec![0; self.radices.len()];
        for (k, r) in self.radices.iter().enumerate().rev() {
            digits[k] = i % r;
            i /= r;
        }
        (self.build)(&digits)
    }
}

/// composite variants: none, `aacute` = a + acutecomb without own anchors (constant / per-master
/// varying offset), with an own `top`, with an own `bottom`
const COMPOSITES: usize = 5;

fn composite(kind: usize, n: usize) -> Option<GSpec> {
    if kind == 0 {
        return None;
    }
    let offs: Vec<(f64, f64)> = (0..n)
        .map(|m| if kind == 2 { (30.0 + 10.5 * m as f64, 15.0 - 4.0 * m as f64) } else { (30.0, 15.0) })
        .collect();
    let own: &[&str] = match kind {
        3 => &["top"],
        4 => &["bottom"],
        _ => &[],
    };
    let mut g = gspec("aacute", own, n);
    g.comps = vec![("a".to_string(), vec![(0.0, 0.0); n]), ("acutecomb".to_string(), offs)];
    Some(g)
}

fn spaces(tier: Tier) -> Vec<Space> {
    let marks = mark_sets();
    let nm = marks.len();
    let mut v: Vec<Space> = vec![];

    // S1: mark x mark structure (mkmk, self stacking, marks without underscore anchors)
    {
        let marks = marks.clone();
        let modes: Vec<(bool, bool)> = tier.pick(MODES3.to_vec(), MODES4.to_vec());
        let layouts = tier.pick(vec![Layout::Two], vec![Layout::Two, Layout::ThreeMid, Layout::LWgWd]);
        let (nmodes, nl) = (modes.len(), layouts.len());
        v.push(Space {
            name: "mark-x-mark",
            what: format!(
                "acutecomb x gravecomb: all {nm}x{nm} anchor subsets (size <= 3 of _top,_bottom,top,bottom); a[top,bottom] b[top] f_i[top_1,top_2]; {nmodes} category/propagate modes; layouts {:?}",
                layouts.iter().map(|l| l.name()).collect::<Vec<_>>()
            ),
            radices: vec![nm, nm, nmodes, nl],
            build: Box::new(move |d| {
                let layout = layouts[d[3]];
                let n = layout.masters();
                let (explicit, propagate) = modes[d[2]];
                Spec {
                    space: "mark-x-mark".into(),
                    layout,
                    explicit,
                    propagate,
                    glyphs: vec![
                        gspec("a", &["top", "bottom"], n),
                        gspec("b", &["top"], n),
                        gspec("f_i", &["top_1", "top_2"], n),
                        gspec("acutecomb", &marks[d[0]], n),
                        gspec("gravecomb", &marks[d[1]], n),
                    ],
                }
            }),
        });
    }

    // S3: coordinates: all assignments of the alphabet to two anchors at every master
    {
        let mut pairs: Vec<((&'static str, &'static str), (&'static str, &'static str))> =
            vec![(("a", "top"), ("acutecomb", "_top"))];
        // two axes, both declaration orders: 3 masters (3^6 assignments) in both tiers, 4 corner masters (3^8) thorough
        let mut layouts = vec![Layout::One, Layout::Two, Layout::ThreeMid, Layout::LWgWd, Layout::LWdWg];
        if tier == Tier::Thorough {
            pairs.push((("f_i", "top_2"), ("acutecomb", "top")));
            pairs.push((("a", "bottom"), ("gravecomb", "_bottom")));
            layouts.push(Layout::ThreeEnds);
            layouts.push(Layout::CWgWd);
            layouts.push(Layout::CWdWg);
        }
        for layout in layouts {
            for (pi, pair) in pairs.iter().enumerate() {
                let n = layout.masters();
                let pair = *pair;
                if n == 4 && pi > 0 {
                    // the 3^8 assignments of the four-corner layouts: first pair only
                    continue;
                }
                v.push(Space {
                    name: "coordinates",
                    what: format!(
                        "layout {}: all 3^{} assignments of the coordinate alphabet to {}.{} and {}.{} at every master; a[top,bottom] b[top] f_i[top_1,top_2] acutecomb[_top,top] gravecomb[_top,_bottom]; explicit categories",
                        layout.name(),
                        2 * n,
                        pair.0.0,
                        pair.0.1,
                        pair.1.0,
                        pair.1.1
                    ),
                    radices: vec![3; 2 * n],
                    build: Box::new(move |d| {
                        let mut glyphs = vec![
                            gspec("a", &["top", "bottom"], n),
                            gspec("b", &["top"], n),
                            gspec("f_i", &["top_1", "top_2"], n),
                            gspec("acutecomb", &["_top", "top"], n),
                            gspec("gravecomb", &["_top", "_bottom"], n),
                        ];
                        for (k, (gn, an)) in [pair.0, pair.1].into_iter().enumerate() {
                            let g = glyphs.iter_mut().find(|g| g.name == gn).unwrap();
                            let a = g.anchors.iter_mut().find(|a| a.name == an).unwrap();
                            a.c = d[k * n..(k + 1) * n].to_vec();
                        }
                        Spec { space: "coordinates".into(), layout, explicit: true, propagate: false, glyphs }
                    }),
                });
            }
        }
    }

    // S4: composite / propagation
    {
        let layouts = tier.pick(
            vec![Layout::Two, Layout::LWgWd],
            vec![Layout::One, Layout::Two, Layout::ThreeMid, Layout::ThreeEnds, Layout::LWgWd, Layout::LWdWg, Layout::CWgWd, Layout::CWdWg],
        );
        let nl = layouts.len();
        let acute: Vec<Vec<&'static str>> = vec![vec!["_top"], vec!["_top", "top"], vec!["_top", "top", "bottom"], vec!["_bottom", "bottom"]];
        let na = acute.len();
        v.push(Space {
            name: "composite",
            what: format!(
                "aacute = a + acutecomb: {} variants (none; no own anchors with constant / per-master offset; own top; own bottom) x a: 4 subsets x acutecomb: {na} sets x gravecomb[_top,top] x 4 modes x layouts {:?}",
                COMPOSITES,
                layouts.iter().map(|l| l.name()).collect::<Vec<_>>()
            ),
            radices: vec![COMPOSITES, 4, na, 4, nl],
            build: Box::new(move |d| {
                let layout = layouts[d[4]];
                let n = layout.masters();
                let (explicit, propagate) = MODES4[d[3]];
                let mut glyphs = vec![
                    gspec("a", BASE_SETS[d[1]], n),
                    gspec("b", &["top"], n),
                    gspec("acutecomb", &acute[d[2]], n),
                    gspec("gravecomb", &["_top", "top"], n),
                ];
                if let Some(c) = composite(d[0], n) {
                    glyphs.push(c);
                }
                Spec { space: "composite".into(), layout, explicit, propagate, glyphs }
            }),
        });
    }

    // S5: master layouts x modes on a representative structure, with non-exported glyphs
    {
        let layouts = [Layout::One, Layout::Two, Layout::ThreeMid, Layout::ThreeEnds, Layout::LWgWd, Layout::LWdWg, Layout::CWgWd, Layout::CWdWg];
        v.push(Space {
            name: "layouts-export",
            what: "8 layouts (1 master; 1 axis: 2, 3 with an intermediate, 3 with the default in the middle; 2 axes declared wght,wdth / wdth,wght: default + one master per axis, 4 corners) x 4 modes x {all exported; b / gravecomb / x[_top,top] not exported} x acutecomb in {[_top],[_top,top],[_top,_bottom,top]}; a[top,bottom] b[top] f_i[top_1,top_2] gravecomb[_top,top]".into(),
            radices: vec![8, 4, 4, 3],
            build: Box::new(move |d| {
                let layout = layouts[d[0]];
                let n = layout.masters();
                let (explicit, propagate) = MODES4[d[1]];
                let acute: [&[&str]; 3] = [&["_top"], &["_top", "top"], &["_top", "_bottom", "top"]];
                let mut glyphs = vec![
                    gspec("a", &["top", "bottom"], n),
                    gspec("b", &["top"], n),
                    gspec("f_i", &["top_1", "top_2"], n),
                    gspec("acutecomb", acute[d[3]], n),
                    gspec("gravecomb", &["_top", "top"], n),
                ];
                match d[2] {
                    1 => glyphs[1].export = false,
                    2 => glyphs[4].export = false,
                    3 => {
                        let mut x = gspec("x", &["_top", "top"], n);
                        x.export = false;
                        glyphs.push(x);
                    }
                    _ => {}
                }
                Spec { space: "layouts-export".into(), layout, explicit, propagate, glyphs }
            }),
        });
    }
    // S6: explicit categories that disagree with what names / code points / anchors suggest
    {
        let layouts = [Layout::One, Layout::Two, Layout::ThreeMid, Layout::ThreeEnds, Layout::LWgWd, Layout::CWdWg];
        v.push(Space {
            name: "categories-override",
            what: "explicit categories only: 6 layouts (1, 2, 3mid, 3ends, 2 axes wght,wdth 3 masters, 2 axes wdth,wght 4 masters) x propagate off/on x {b left out of the categories; gravecomb left out; letter x[_top,top] categorised mark; acutecomb categorised base} x acutecomb in {[_top],[_top,top],[_top,_bottom,top]}; a[top,bottom] b[top] f_i[top_1,top_2] gravecomb[_top,top]".into(),
            radices: vec![6, 2, 4, 3],
            build: Box::new(move |d| {
                let layout = layouts[d[0]];
                let n = layout.masters();
                let acute: [&[&str]; 3] = [&["_top"], &["_top", "top"], &["_top", "_bottom", "top"]];
                let mut glyphs = vec![
                    gspec("a", &["top", "bottom"], n),
                    gspec("b", &["top"], n),
                    gspec("f_i", &["top_1", "top_2"], n),
                    gspec("acutecomb", acute[d[3]], n),
                    gspec("gravecomb", &["_top", "top"], n),
                ];
                match d[2] {
                    0 => glyphs[1].nocat = true,
                    1 => glyphs[4].nocat = true,
                    2 => {
                        let mut x = gspec("x", &["_top", "top"], n);
                        x.cat_override = Some("mark".into());
                        glyphs.push(x);
                    }
                    _ => glyphs[3].cat_override = Some("base".into()),
                }
                Spec { space: "categories-override".into(), layout, explicit: true, propagate: d[1] == 1, glyphs }
            }),
        });
    }
    // S7: an anchor whose group has no counterpart anywhere in the font (a stale `_cedilla` nobody can
    // attach to / a `cedilla` no mark uses), on every kind of glyph, next to used anchors
    {
        let hosts = ["a", "b", "f_i", "acutecomb", "gravecomb", "x"];
        let names = ["_cedilla", "cedilla"];
        let marks = marks.clone();
        let layouts = tier.pick(vec![Layout::Two], vec![Layout::Two, Layout::ThreeMid, Layout::LWgWd]);
        let lig_sets: Vec<&'static [&'static str]> = tier.pick(vec![LIG_SETS[3]], LIG_SETS.to_vec());
        let (nl, nlig) = (layouts.len(), lig_sets.len());
        v.push(Space {
            name: "dangling-anchor",
            what: format!(
                "one extra anchor of a group without counterpart (_cedilla: nobody has cedilla; cedilla: nobody has _cedilla) on each of {hosts:?} (x = letter with [top], present only as host) x a: 4 subsets of top,bottom x f_i: {nlig} sets x acutecomb: {nm} subsets x b[top] gravecomb[_top,top] x 4 modes x layouts {:?}",
                layouts.iter().map(|l| l.name()).collect::<Vec<_>>()
            ),
            radices: vec![hosts.len(), names.len(), 4, nlig, nm, 4, nl],
            build: Box::new(move |d| {
                let layout = layouts[d[6]];
                let n = layout.masters();
                let (explicit, propagate) = MODES4[d[5]];
                let mut glyphs = vec![
                    gspec("a", BASE_SETS[d[2]], n),
                    gspec("b", &["top"], n),
                    gspec("f_i", lig_sets[d[3]], n),
                    gspec("acutecomb", &marks[d[4]], n),
                    gspec("gravecomb", &["_top", "top"], n),
                ];
                let host = hosts[d[0]];
                if host == "x" {
                    glyphs.push(gspec("x", &["top"], n));
                }
                let g = glyphs.iter_mut().find(|g| g.name == host).unwrap();
                let ai = g.anchors.len();
                g.anchors.push(ASpec { name: names[d[1]].to_string(), c: default_choice(host, ai, n) });
                Spec { space: "dangling-anchor".into(), layout, explicit, propagate, glyphs }
            }),
        });
    }
    // S2: attaching glyphs x mark structure (by far the largest space: last, so that a time cap truncates only it)
    {
        let quick = tier == Tier::Quick;
        // (layout, composite variants): quick one block; thorough two masters with composites
        // (none / no own anchors, constant offset / own top) plus three masters without composite
        let blocks: Vec<(Layout, Vec<usize>)> = if quick {
            vec![(Layout::Two, vec![0])]
        } else {
            vec![(Layout::Two, vec![0, 1, 3]), (Layout::ThreeMid, vec![0])]
        };
        for (layout, comp_kinds) in blocks {
            let marks = marks.clone();
            let modes: Vec<(bool, bool)> = tier.pick(MODES3.to_vec(), MODES4.to_vec());
            // b: absent anchors / top / top+bottom ; quick: top only
            let b_sets: Vec<&'static [&'static str]> = if quick { vec![&["top"]] } else { vec![&[], &["top"], &["top", "bottom"]] };
            let grave: Vec<Vec<&'static str>> = if quick { vec![vec!["_top", "top"]] } else { marks.clone() };
            let comps = comp_kinds.len();
            let (nmodes, nb, ng) = (modes.len(), b_sets.len(), grave.len());
            v.push(Space {
                name: "attaching-x-mark",
                what: format!(
                    "layout {}: a: 4 subsets of top,bottom; b: {nb} sets; f_i: 4 subsets of top_1,top_2; acutecomb: {nm} subsets; gravecomb: {ng} sets; x (non-mark letter): absent, [_top], [_top,top]; composite aacute variants {comp_kinds:?}; {nmodes} modes",
                    layout.name()
                ),
                radices: vec![4, nb, 4, nm, ng, 3, comps, nmodes],
                build: Box::new(move |d| {
                    let n = layout.masters();
                    let (explicit, propagate) = modes[d[7]];
                    let mut glyphs = vec![
                        gspec("a", BASE_SETS[d[0]], n),
                        gspec("b", b_sets[d[1]], n),
                        gspec("f_i", LIG_SETS[d[2]], n),
                        gspec("acutecomb", &marks[d[3]], n),
                        gspec("gravecomb", &grave[d[4]], n),
                    ];
                    if let Some(x) = X_SETS[d[5]] {
                        glyphs.push(gspec("x", x, n));
                    }
                    if let Some(c) = composite(comp_kinds[d[6]], n) {
                        glyphs.push(c);
                    }
                    Spec { space: "attaching-x-mark".into(), layout, explicit, propagate, glyphs }
                }),
            });
        }
    }

    v
}

// ------------------------------------------------------------------------------------ the reference model

#[derive(Clone, Copy, Debug, PartialEq, Eq, PartialOrd, Ord)]
enum Cls {
    Base,
    Lig,
    Mark,
}

impl Cls {
    fn gdef(self) -> u16 {
        match self {
            Cls::Base => 1,
            Cls::Lig => 2,
            Cls::Mark => 3,
        }
    }
    fn name(self) -> &'static str {
        match self {
            Cls::Base => "base",
            Cls::Lig => "ligature",
            Cls::Mark => "mark",
        }
    }
}

#[derive(Clone, Copy, Debug, PartialEq, Eq)]
enum Mode {
    Explicit,
    GlyphData,
    ByAnchors,
    /// a Glyphs source: every glyph has a category (written, or taken from the glyph data by name /
    /// code point); the glyphsLib rule turns it into a class
    Glyphs,
}

/// which source format the design is written in
#[derive(Clone, Copy, Debug, PartialEq, Eq)]
enum Route {
    Ufo,
    Glyphs3,
}

type Pos = (f64, f64);

fn put(all: &mut Vec<(String, Pos)>, n: String, p: Pos) {
    match all.iter_mut().find(|a| a.0 == n) {
        Some(a) => a.1 = p,
        None => all.push((n, p)),
    }
}

fn unicode_is_combining_mark(g: &Glyph) -> bool {
    g.codepoints.iter().any(|c| (0x300..=0x36F).contains(c))
}
fn unicode_is_ligature(g: &Glyph) -> bool {
    g.codepoints.iter().any(|c| (0xFB00..=0xFB06).contains(c))
}

struct Model {
    mode: Mode,
    masters: usize,
    /// exported glyph -> per master -> anchors (name, source position) after the propagation rule
    eff: BTreeMap<String, Vec<Vec<(String, Pos)>>>,
    /// exported glyph -> reference class (absent = unclassified)
    cls: BTreeMap<String, Cls>,
    /// by-anchors mode: glyphs whose role the rule does not fix
    ambiguous: BTreeSet<String>,
    /// groups for which some exported glyph has an attaching (non-underscore) anchor
    attaching_groups: BTreeSet<String>,
    unsupported: Option<String>,
}

/// (group, ligature component index 1-based if numbered)
fn split_attaching(name: &str) -> (String, Option<usize>) {
    match name.rsplit_once('_') {
        Some((g, i)) if !g.is_empty() && i.parse::<usize>().is_ok() => (g.to_string(), i.parse().ok()),
        _ => (name.to_string(), None),
    }
}

impl Model {
    fn eff_anchors(d: &Design, name: &str, m: usize, propagate: bool, prelim_mark: &dyn Fn(&Glyph) -> bool, depth: usize, unsupported: &mut Option<String>) -> Vec<(String, Pos)> {
        let Some(g) = d.glyph(name) else { return vec![] };
        let Some(layer) = g.layers.get(&m) else {
            *unsupported = Some(format!("glyph {name} has no layer in master {m}"));
            return vec![];
        };
        let own: Vec<(String, Pos)> = layer.anchors.iter().map(|a| (a.name.clone(), (a.x, a.y))).collect();
        if !propagate || layer.components.is_empty() {
            return own;
        }
        if depth > 8 {
            *unsupported = Some("component nesting too deep".into());
            return own;
        }
        if !own.is_empty() && prelim_mark(g) {
            return own;
        }
        let mut has_us = own.iter().any(|a| a.0.starts_with('_'));
        let mut all: Vec<(String, Pos)> = vec![];
        for (ci, c) in layer.components.iter().enumerate() {
            if c.xform[0..4] != [1.0, 0.0, 0.0, 1.0] {
                *unsupported = Some(format!("component of {name} is not a pure translation"));
            }
            let sub = Self::eff_anchors(d, &c.base, m, propagate, prelim_mark, depth + 1, unsupported);
            for (n, p) in sub {
                if n.starts_with("entry") || n.starts_with("exit") || n.starts_with('*') {
                    *unsupported = Some(format!("anchor {n} is outside the modelled rule"));
                }
                let us = n.starts_with('_');
                if (ci > 0 || has_us) && us {
                    continue;
                }
                put(&mut all, n, (p.0 + c.xform[4], p.1 + c.xform[5]));
                has_us |= us;
            }
        }
        for (n, p) in &own {
            put(&mut all, n.clone(), *p);
        }
        if own.iter().any(|a| a.0 == "_bottom") {
            all.retain(|a| a.0 != "top" && a.0 != "_top");
        }
        if own.iter().any(|a| a.0 == "_top") {
            all.retain(|a| a.0 != "bottom" && a.0 != "_bottom");
        }
        all
    }

    fn new(d: &Design, propagate: bool, route: Route) -> Model {
        let explicit = !d.categories.is_empty();
        let mode = if route == Route::Glyphs3 {
            Mode::Glyphs
        } else if explicit {
            Mode::Explicit
        } else if propagate {
            Mode::GlyphData
        } else {
            Mode::ByAnchors
        };
        let masters = d.masters.len();
        let mut unsupported = None;
        let prelim_mark = |g: &Glyph| -> bool {
            match (mode, d.categories.get(&g.name)) {
                // Glyphs: the written category, else the glyph data
                (Mode::Glyphs, Some(c)) => c == "mark",
                (Mode::Glyphs, None) => unicode_is_combining_mark(g),
                _ if explicit => d.categories.get(&g.name).map(|c| c == "mark").unwrap_or(false),
                _ => unicode_is_combining_mark(g),
            }
        };
        let mut eff = BTreeMap::new();
        for g in d.glyphs.iter().filter(|g| g.export) {
            let per: Vec<Vec<(String, Pos)>> = (0..masters)
                .map(|m| Self::eff_anchors(d, &g.name, m, propagate, &prelim_mark, 0, &mut unsupported))
                .collect();
            // the anchor set must be the same in every master (the generator guarantees it)
            let names = |v: &Vec<(String, Pos)>| v.iter().map(|a| a.0.clone()).collect::<BTreeSet<_>>();
            if per.iter().any(|p| names(p) != names(&per[0])) {
                unsupported = Some(format!("glyph {} has different anchor sets in different masters", g.name));
            }
            eff.insert(g.name.clone(), per);
        }
        // groups in use (by-anchors mode)
        let mut base_groups = BTreeSet::new();
        let mut mark_groups = BTreeSet::new();
        for per in eff.values() {
            for (n, _) in &per[0] {
                match n.strip_prefix('_') {
                    Some(g) => {
                        mark_groups.insert(g.to_string());
                    }
                    None => {
                        base_groups.insert(split_attaching(n).0);
                    }
                }
            }
        }
        let mut cls = BTreeMap::new();
        let mut ambiguous = BTreeSet::new();
        for g in d.glyphs.iter().filter(|g| g.export) {
            let anchors = &eff[&g.name][0];
            let has_attaching = anchors.iter().any(|a| !a.0.starts_with('_'));
            let c = match mode {
                Mode::Explicit => match d.categories.get(&g.name).map(|s| s.as_str()) {
                    Some("base") => Some(Cls::Base),
                    Some("ligature") => Some(Cls::Lig),
                    Some("mark") => Some(Cls::Mark),
                    _ => None,
                },
                Mode::GlyphData => {
                    if unicode_is_combining_mark(g) {
                        Some(Cls::Mark)
                    } else if unicode_is_ligature(g) {
                        has_attaching.then_some(Cls::Lig)
                    } else {
                        has_attaching.then_some(Cls::Base)
                    }
                }
                Mode::Glyphs => {
                    // category = Mark (Nonspacing) -> mark; subCategory Ligature -> ligature if it has an
                    // attaching anchor; anything else with an attaching anchor -> base. A written category
                    // `Letter` leaves the subCategory to the glyph data (U+FB0x: Ligature).
                    let (mark, lig) = match d.categories.get(&g.name).map(|s| s.as_str()) {
                        Some("mark") => (true, false),
                        Some("ligature") => (false, true),
                        Some(_) => (false, unicode_is_ligature(g)),
                        None => (unicode_is_combining_mark(g), unicode_is_ligature(g)),
                    };
                    if mark {
                        Some(Cls::Mark)
                    } else if lig {
                        has_attaching.then_some(Cls::Lig)
                    } else {
                        has_attaching.then_some(Cls::Base)
                    }
                }
                Mode::ByAnchors => {
                    let us: Vec<&str> = anchors.iter().filter_map(|a| a.0.strip_prefix('_')).collect();
                    if us.iter().any(|g| base_groups.contains(*g)) {
                        Some(Cls::Mark)
                    } else if !us.is_empty() && !has_attaching {
                        // only underscore anchors nobody can attach to: no role the rule could fix
                        ambiguous.insert(g.name.clone());
                        None
                    } else if anchors.iter().any(|a| split_attaching(&a.0).1.is_some()) {
                        Some(Cls::Lig)
                    } else if has_attaching {
                        Some(Cls::Base)
                    } else {
                        None
                    }
                }
            };
            if let Some(c) = c {
                cls.insert(g.name.clone(), c);
            }
        }
        let _ = mark_groups;
        Model { mode, masters, eff, cls, ambiguous, attaching_groups: base_groups, unsupported }
    }

    /// expected entries: (kind, G, component, M, group)
    fn expected(&self) -> Vec<Expected> {
        let mut out = vec![];
        for (gname, gper) in &self.eff {
            let Some(gc) = self.cls.get(gname) else { continue };
            for (mname, mper) in &self.eff {
                if self.cls.get(mname) != Some(&Cls::Mark) {
                    continue;
                }
                for (ai, (an, _)) in gper[0].iter().enumerate() {
                    if an.starts_with('_') {
                        continue;
                    }
                    let (group, idx) = split_attaching(an);
                    let comp = match (gc, idx) {
                        (Cls::Lig, Some(i)) if i >= 1 => i - 1,
                        (Cls::Base | Cls::Mark, None) => 0,
                        _ => continue, // numbered anchor on a non-ligature / plain anchor on a ligature: not generated, not fixed by the statement
                    };
                    let under = format!("_{group}");
                    let Some(mi) = mper[0].iter().position(|a| a.0 == under) else { continue };
                    out.push(Expected {
                        kind: *gc,
                        g: gname.clone(),
                        comp,
                        m: mname.clone(),
                        group: group.clone(),
                        base: (0..self.masters).map(|k| gper[k].iter().find(|a| a.0 == *an).map(|a| a.1).unwrap_or(gper[k][ai].1)).collect(),
                        mark: (0..self.masters).map(|k| mper[k].iter().find(|a| a.0 == under).map(|a| a.1).unwrap_or(mper[k][mi].1)).collect(),
                        g_mark_note: if *gc != Cls::Mark || self.mode == Mode::ByAnchors {
                            ""
                        } else if !gper[0].iter().any(|a| a.0.starts_with('_')) {
                            ":attaching-mark-has-no-underscore-anchor"
                        } else if !gper[0].iter().any(|a| a.0.strip_prefix('_').is_some_and(|g| self.attaching_groups.contains(g))) {
                            ":attaching-mark-has-only-unmatched-underscore-anchors"
                        } else {
                            ""
                        },
                    });
                }
            }
        }
        out
    }
}

#[derive(Clone, Debug)]
struct Expected {
    kind: Cls,
    g: String,
    comp: usize,
    m: String,
    group: String,
    /// unrounded source positions per master
    base: Vec<Pos>,
    mark: Vec<Pos>,
    /// for kind mark: a property of the attaching mark that the failing class may hinge on
    g_mark_note: &'static str,
}

fn rp(p: Pos) -> Pos {
    (ot_round(p.0), ot_round(p.1))
}

// ------------------------------------------------------------------------------------ evaluation

#[derive(Default, Clone, Debug, Serialize, Deserialize)]
struct Stats {
    fonts: u64,
    fonts_nontrivial: u64,
    build_failures: u64,
    master_locations: u64,
    expected_entries: u64,
    attachments_compared: u64,
    attachments_in_font: u64,
    attachments_examined_for_soundness: u64,
    duplicate_attachments: u64,
    attachments_outside_mark_mkmk: u64,
    fonts_with_abvm_or_blwm: u64,
    fonts_with_mark_feature: u64,
    fonts_with_mkmk: u64,
    fonts_with_ligature_anchors: u64,
    fonts_with_null_ligature_component: u64,
    fonts_with_intermediate_master: u64,
    fonts_static: u64,
    fonts_explicit_categories: u64,
    fonts_inferred_glyphdata: u64,
    fonts_inferred_by_anchors: u64,
    fonts_glyphs_categories: u64,
    /// two axes; counted by the order of the tags in the compiled font's fvar
    fonts_two_axis_fvar_order_alphabetical: u64,
    fonts_two_axis_fvar_order_not_alphabetical: u64,
    /// ... of those with an expected anchor whose delta along the first axis differs from the one along the second
    fonts_two_axis_anchor_varies_differently_per_axis: u64,
    fonts_two_axis_with_corner_master: u64,
    master_locations_two_axis_alphabetical: u64,
    master_locations_two_axis_not_alphabetical: u64,
    attachments_compared_two_axis_alphabetical: u64,
    attachments_compared_two_axis_not_alphabetical: u64,
    /// an underscore anchor whose group has no attaching anchor on any exported glyph
    fonts_with_dangling_underscore_anchor: u64,
    /// ... on a glyph the reference takes as base / ligature and that takes part in an expected attachment
    fonts_with_dangling_underscore_on_attaching_base: u64,
    /// ... the same with no categories in the source and propagate-anchors off (the compiler has to tell marks from bases by their anchors)
    fonts_with_dangling_underscore_on_attaching_base_by_anchors: u64,
    /// an attaching anchor whose group no underscore anchor of an exported glyph uses
    fonts_with_dangling_attaching_anchor: u64,
    fonts_with_propagated_composite: u64,
    fonts_with_composite_own_anchor: u64,
    fonts_with_non_exported_glyph: u64,
    fonts_with_non_mark_underscore_glyph: u64,
    fonts_with_fractional_varying_anchor: u64,
    fonts_with_negative_half: u64,
    fonts_rounding_order_matters: u64,
    fonts_with_variable_anchor: u64,
    fonts_all_scalars_01: u64,
    gdef_glyphs_checked: u64,
    gdef_marks_checked: u64,
    gdef_unclassified_checked: u64,
    shape_checks: u64,
    shape_checks_ligature: u64,
    shape_checks_mkmk: u64,
    ambiguous_glyphs_excluded: u64,
    max_abs_error: f64,
}

fn add_stats(a: &mut Stats, b: &Stats) {
    let mut va = serde_json::to_value(&*a).unwrap();
    let vb = serde_json::to_value(b).unwrap();
    let m = a.max_abs_error.max(b.max_abs_error);
    vcore::merge_counts(&mut va, &vb);
    *a = serde_json::from_value(va).unwrap();
    a.max_abs_error = m;
}

struct Viol {
    key: String,
    what: String,
    details: Value,
}

struct Eval {
    viol: Vec<Viol>,
    machinery: Vec<String>,
    stats: Stats,
    summary: String,
}

/// is the Glyphs 3 twin of this case compiled too? (thorough: not for the largest space, whose
/// structures the quick tier's twin already covers at two masters, and not for the 3^8 coordinate
/// assignments of the four-corner layouts)
fn glyphs_twin(tier: Tier, spec: &Spec) -> bool {
    tier == Tier::Quick || !(spec.space == "attaching-x-mark" || (spec.space == "coordinates" && spec.layout.masters() == 4))
}

fn slug(s: &str) -> String {
    let mut out = String::new();
    for ch in s.chars().take(60) {
        if ch.is_ascii_alphanumeric() {
            out.push(ch.to_ascii_lowercase());
        } else if !out.ends_with('-') {
            out.push('-');
        }
    }
    out.trim_matches('-').to_string()
}

fn kind_cls(k: MarkAttachKind) -> Cls {
    match k {
        MarkAttachKind::Base => Cls::Base,
        MarkAttachKind::Ligature => Cls::Lig,
        MarkAttachKind::Mark => Cls::Mark,
    }
}

fn near(a: Pos, b: Pos, tol: f64) -> bool {
    (a.0 - b.0).abs() <= tol && (a.1 - b.1).abs() <= tol
}

/// In process by default; with `C10_USE_BINARY=1` through the unmodified product binary (used to
/// confirm a finding against the shipped executable).
fn compile(path: &std::path::Path, opts: &Opts, dir: &std::path::Path) -> Result<Vec<u8>, fcx::Failure> {
    if std::env::var("C10_USE_BINARY").as_deref() != Ok("1") {
        return fcx::compile(path, opts, None);
    }
    let out = dir.join("out.ttf");
    let mut cmd = vcore::fontc_cmd(&vcore::fontc_bin(), None);
    cmd.arg(path).arg("-o").arg(&out).arg("-b").arg(dir.join("build"));
    cmd.arg(format!("--propagate-anchors={}", opts.propagate_anchors.unwrap_or(false)));
    let r = vcore::run_proc(&mut cmd, 60_000, Some(8 << 30));
    if r.code != Some(0) {
        return Err(fcx::Failure::Error(format!("{}: {}", r.summary(), r.stderr.lines().last().unwrap_or(""))));
    }
    std::fs::read(&out).map_err(|e| fcx::Failure::Error(format!("no output: {e}")))
}

fn evaluate(d: &Design, propagate: bool) -> Eval {
    evaluate_route(d, propagate, Route::Ufo)
}

fn evaluate_route(d: &Design, propagate: bool, route: Route) -> Eval {
    let mut ev = Eval { viol: vec![], machinery: vec![], stats: Stats::default(), summary: String::new() };
    let st = &mut ev.stats;
    st.fonts = 1;
    let model = Model::new(d, propagate, route);
    if let Some(u) = &model.unsupported {
        ev.machinery.push(format!("source outside the reference model: {u}"));
        return ev;
    }
    let expected = model.expected();
    let n = model.masters;

    // ---- compile
    let sc = vcore::Scratch::new("c10");
    let written = match route {
        Route::Ufo => d.write_source(sc.path()),
        Route::Glyphs3 => d.write_glyphs3(sc.path()),
    };
    let path = match written {
        Ok(p) => p,
        Err(e) => {
            ev.machinery.push(format!("cannot write the source: {e}"));
            return ev;
        }
    };
    let opts = Opts { propagate_anchors: Some(propagate), ..Default::default() };
    let bytes = match compile(&path, &opts, sc.path()) {
        Ok(b) => b,
        Err(f) => {
            st.build_failures = 1;
            let msg = format!("{f:?}");
            ev.viol.push(Viol { key: format!("build-fails:{}", slug(&msg)), what: format!("the compiler fails on a valid source: {msg}"), details: json!({"failure": msg}) });
            return ev;
        }
    };
    drop(sc);
    let vf = match VFont::new(&bytes) {
        Ok(v) => v,
        Err(e) => {
            ev.machinery.push(format!("otvar cannot open the font: {e}"));
            return ev;
        }
    };
    let lf = match LFont::new(&bytes) {
        Ok(v) => v,
        Err(e) => {
            ev.machinery.push(format!("otlayout cannot open the font: {e}"));
            return ev;
        }
    };

    // ---- glyph ids
    let mut gid: BTreeMap<String, u16> = BTreeMap::new();
    let mut name_of: BTreeMap<u16, String> = BTreeMap::new();
    for g in &d.glyphs {
        match (g.export, vf.gid_for_name(&g.name)) {
            (true, Some(i)) => {
                gid.insert(g.name.clone(), i);
                name_of.insert(i, g.name.clone());
            }
            (true, None) => {
                ev.viol.push(Viol { key: "exported-glyph-missing".into(), what: format!("exported glyph {} is not in the font", g.name), details: json!({"glyph": g.name}) });
                return ev;
            }
            (false, Some(i)) => {
                ev.viol.push(Viol { key: "non-exported-glyph-present".into(), what: format!("non-exported glyph {} is in the font (gid {i})", g.name), details: json!({"glyph": g.name}) });
                return ev;
            }
            (false, None) => {}
        }
    }

    // ---- non-vacuity facts about the source
    match model.mode {
        Mode::Explicit => st.fonts_explicit_categories = 1,
        Mode::GlyphData => st.fonts_inferred_glyphdata = 1,
        Mode::ByAnchors => st.fonts_inferred_by_anchors = 1,
        Mode::Glyphs => st.fonts_glyphs_categories = 1,
    }
    // anchors without counterpart
    {
        let mut under_groups = BTreeSet::new();
        for per in model.eff.values() {
            under_groups.extend(per[0].iter().filter_map(|a| a.0.strip_prefix('_').map(|s| s.to_string())));
        }
        for (g, per) in &model.eff {
            let dangling_us = per[0].iter().any(|a| a.0.strip_prefix('_').is_some_and(|grp| !model.attaching_groups.contains(grp)));
            if dangling_us {
                st.fonts_with_dangling_underscore_anchor = 1;
                if model.cls.get(g).is_some_and(|c| *c != Cls::Mark) && expected.iter().any(|e| e.g == *g) {
                    st.fonts_with_dangling_underscore_on_attaching_base = 1;
                    if model.mode == Mode::ByAnchors {
                        st.fonts_with_dangling_underscore_on_attaching_base_by_anchors = 1;
                    }
                }
            }
            if per[0].iter().any(|a| !a.0.starts_with('_') && !under_groups.contains(&split_attaching(&a.0).0)) {
                st.fonts_with_dangling_attaching_anchor = 1;
            }
        }
    }
    if n == 1 {
        st.fonts_static = 1;
    }
    let norms: Vec<Vec<f64>> = (0..n).map(|m| d.master_norm(m)).collect();
    if norms.iter().any(|l| l.iter().any(|v| *v != 0.0 && v.abs() != 1.0)) {
        st.fonts_with_intermediate_master = 1;
    }
    if d.glyphs.iter().any(|g| !g.export) {
        st.fonts_with_non_exported_glyph = 1;
    }
    if expected.iter().any(|e| e.kind == Cls::Lig) {
        st.fonts_with_ligature_anchors = 1;
    }
    if model.eff.iter().any(|(g, per)| model.cls.get(g).is_some_and(|c| *c != Cls::Mark) && per[0].iter().any(|a| a.0.starts_with('_'))) {
        st.fonts_with_non_mark_underscore_glyph = 1;
    }
    for g in d.glyphs.iter().filter(|g| g.export) {
        let has_comps = g.layers.values().any(|l| !l.components.is_empty());
        if has_comps && propagate {
            let own = g.layers.values().any(|l| !l.anchors.is_empty());
            if own {
                st.fonts_with_composite_own_anchor = 1;
            }
            if model.eff[&g.name][0].len() > g.layers.values().next().map(|l| l.anchors.len()).unwrap_or(0) {
                st.fonts_with_propagated_composite = 1;
            }
        }
    }
    for e in &expected {
        for series in [&e.base, &e.mark] {
            for axis in 0..2 {
                let v: Vec<f64> = series.iter().map(|p| if axis == 0 { p.0 } else { p.1 }).collect();
                let varying = v.iter().any(|x| *x != v[0]);
                let frac = v.iter().any(|x| x.fract() != 0.0);
                if varying {
                    st.fonts_with_variable_anchor = 1;
                }
                if varying && frac {
                    st.fonts_with_fractional_varying_anchor = 1;
                    // would "round after applying deltas" give another value at some master?
                    let dm = d.default_master;
                    for k in 0..v.len() {
                        let late = ot_round(v[dm]) + ot_round(v[k] - v[dm]);
                        if late != ot_round(v[k]) {
                            st.fonts_rounding_order_matters = 1;
                        }
                    }
                }
                if v.iter().any(|x| *x < 0.0 && (x.fract().abs() - 0.5).abs() < 1e-9) {
                    st.fonts_with_negative_half = 1;
                }
            }
        }
    }
    for (g, per) in &model.eff {
        if model.cls.get(g) == Some(&Cls::Lig) {
            let idx: BTreeSet<usize> = per[0].iter().filter_map(|a| split_attaching(&a.0).1).collect();
            if let Some(max) = idx.iter().max() {
                if (1..=*max).any(|i| !idx.contains(&i)) {
                    st.fonts_with_null_ligature_component = 1;
                }
            }
        }
    }
    st.expected_entries = expected.len() as u64;
    st.ambiguous_glyphs_excluded = model.ambiguous.len() as u64;

    // ---- GDEF classes (3)
    for g in d.glyphs.iter().filter(|g| g.export) {
        let got = lf.glyph_class(gid[&g.name]);
        let want = model.cls.get(&g.name).copied();
        match model.mode {
            Mode::Explicit | Mode::GlyphData | Mode::Glyphs => {
                st.gdef_glyphs_checked += 1;
                let w = want.map(|c| c.gdef()).unwrap_or(0);
                if want == Some(Cls::Mark) {
                    st.gdef_marks_checked += 1;
                }
                if want.is_none() {
                    st.gdef_unclassified_checked += 1;
                }
                if got != w {
                    let mode = match model.mode {
                        Mode::Explicit => "explicit",
                        Mode::Glyphs => "glyphs",
                        _ => "glyphdata",
                    };
                    ev.viol.push(Viol {
                        key: format!("gdef-class-wrong:{}:{got}:{mode}", want.map(|c| c.name()).unwrap_or("unclassified")),
                        what: format!("glyph {} is {} in the source ({mode} categories) but has GDEF class {got}", g.name, want.map(|c| c.name()).unwrap_or("unclassified")),
                        details: json!({"glyph": g.name, "expected_class": w, "got": got}),
                    });
                }
            }
            Mode::ByAnchors => {
                // the source classifies nothing, so the statement fixes no class in general. A glyph that the
                // reference rule takes as a mark AND that some expected entry attaches must be a GDEF mark,
                // otherwise a shaper neither skips it when looking for the base nor accepts it in mkmk.
                if want == Some(Cls::Mark) && expected.iter().any(|e| e.m == g.name) {
                    st.gdef_glyphs_checked += 1;
                    st.gdef_marks_checked += 1;
                    if got != 3 {
                        ev.viol.push(Viol {
                            key: format!("gdef-class-wrong:mark:{got}:by-anchors"),
                            what: format!("glyph {} attaches as a mark (no categories in the source, underscore anchor in use) but has GDEF class {got}", g.name),
                            details: json!({"glyph": g.name, "expected_class": 3, "got": got}),
                        });
                    }
                }
            }
        }
    }

    // ---- per master location
    let axes = vf.axes();
    // two axes: is the font's fvar order the alphabetical order of the tags? (measured on the compiled font)
    let two_axis_alpha: Option<bool> = (axes.len() == 2).then(|| axes[0].tag.as_bytes() < axes[1].tag.as_bytes());
    match two_axis_alpha {
        Some(true) => st.fonts_two_axis_fvar_order_alphabetical = 1,
        Some(false) => st.fonts_two_axis_fvar_order_not_alphabetical = 1,
        None => {}
    }
    if two_axis_alpha.is_some() {
        let norms: Vec<Vec<f64>> = (0..n).map(|m| d.master_norm(m)).collect();
        if norms.iter().any(|l| l.iter().filter(|v| **v != 0.0).count() == 2) {
            st.fonts_two_axis_with_corner_master = 1;
        }
        // masters that move along exactly one axis, per axis
        let along = |ax: usize| norms.iter().position(|l| l[ax] != 0.0 && l[1 - ax] == 0.0);
        if let (Some(m0), Some(m1)) = (along(0), along(1)) {
            let dm = d.default_master;
            let differs = expected.iter().any(|e| {
                [&e.base, &e.mark].iter().any(|s| {
                    let d0 = (ot_round(s[m0].0) - ot_round(s[dm].0), ot_round(s[m0].1) - ot_round(s[dm].1));
                    let d1 = (ot_round(s[m1].0) - ot_round(s[dm].0), ot_round(s[m1].1) - ot_round(s[dm].1));
                    d0 != d1
                })
            });
            if differs {
                st.fonts_two_axis_anchor_varies_differently_per_axis = 1;
            }
        }
    }
    let mut any_attachment = false;
    let mut all_scalars_01 = true;
    let mut summary_bits: Vec<String> = vec![];
    for m in 0..n {
        st.master_locations += 1;
        match two_axis_alpha {
            Some(true) => st.master_locations_two_axis_alphabetical += 1,
            Some(false) => st.master_locations_two_axis_not_alphabetical += 1,
            None => {}
        }
        let user: Vec<(String, f64)> = d.axes.iter().zip(d.master_user(m)).map(|(a, u)| (a.tag.clone(), u)).collect();
        let coords: Vec<f64> = if axes.is_empty() { vec![] } else { vf.normalize(&user) };
        if !d.axes.is_empty() && axes.is_empty() {
            // a "variable" source whose font has no fvar: everything must then be constant; evaluate at the default
        }
        // derived tolerance at this location
        let scalars: Vec<f64> = vf.gdef_store().map(|s| s.region_scalars(&coords)).unwrap_or_default();
        let fractional = scalars.iter().any(|s| *s != 0.0 && *s != 1.0);
        let tol = if fractional {
            all_scalars_01 = false;
            0.5 * scalars.iter().sum::<f64>() + EPS
        } else {
            0.0
        };
        let (atts, problems) = lf.mark_attachments_checked(&coords);
        if !problems.is_empty() {
            ev.machinery.push(format!("otlayout problems enumerating attachments: {problems:?}"));
            return ev;
        }
        st.attachments_in_font += atts.len() as u64;
        any_attachment |= !atts.is_empty();

        // lookups reachable from mark / mkmk under both language systems
        let mut reach: Vec<(BTreeSet<u16>, BTreeSet<u16>)> = vec![];
        let mut other_tags: BTreeMap<u16, BTreeSet<String>> = BTreeMap::new();
        for (script, lang) in [("DFLT", "dflt"), ("latn", "dflt")] {
            let mut mark = BTreeSet::new();
            let mut mkmk = BTreeSet::new();
            for (tag, lookups) in lf.features_for(Table::Gpos, script, lang, &coords) {
                match tag.as_str() {
                    "mark" => mark.extend(lookups),
                    "mkmk" => mkmk.extend(lookups),
                    _ => {
                        for l in lookups {
                            other_tags.entry(l).or_default().insert(tag.clone());
                        }
                    }
                }
            }
            reach.push((mark, mkmk));
        }
        if m == 0 {
            if !reach[0].0.is_empty() {
                st.fonts_with_mark_feature = 1;
            }
            if !reach[0].1.is_empty() {
                st.fonts_with_mkmk = 1;
            }
            if other_tags.values().any(|t| t.contains("abvm") || t.contains("blwm")) {
                st.fonts_with_abvm_or_blwm = 1;
            }
            summary_bits.push(format!("{} attachments, mark lookups {:?}, mkmk lookups {:?}", atts.len(), reach[0].0, reach[0].1));
        }

        // index the font's attachments
        let mut by_key: BTreeMap<(Cls, u16, u16, u16), Vec<&MarkAttachment>> = BTreeMap::new();
        for a in &atts {
            by_key.entry((kind_cls(a.kind), a.base_gid, a.component, a.mark_gid)).or_default().push(a);
            if !reach[0].0.contains(&a.lookup_index) && !reach[0].1.contains(&a.lookup_index) {
                st.attachments_outside_mark_mkmk += 1;
            }
        }
        for v in by_key.values() {
            // same key and same anchors offered by more than one lookup
            for (i, a) in v.iter().enumerate() {
                if v[..i].iter().any(|b| b.base_anchor == a.base_anchor && b.mark_anchor == a.mark_anchor) {
                    st.duplicate_attachments += 1;
                }
            }
        }

        // (1) completeness + (2) coordinates
        let mut exp_by_key: BTreeMap<(Cls, u16, u16, u16), Vec<&Expected>> = BTreeMap::new();
        // (G, M) pairs with an entry that failed (1)/(2): not shaped again
        let mut failed_pairs: BTreeSet<(String, String)> = BTreeSet::new();
        for e in &expected {
            let key = (e.kind, gid[&e.g], e.comp as u16, gid[&e.m]);
            exp_by_key.entry(key).or_default().push(e);
            let (wb, wm) = (rp(e.base[m]), rp(e.mark[m]));
            let feature = if e.kind == Cls::Mark { "mkmk" } else { "mark" };
            let cands: Vec<&&MarkAttachment> = by_key.get(&key).map(|v| v.iter().collect()).unwrap_or_default();
            let note = e.g_mark_note;
            let details = |extra: Value| {
                json!({"master": m, "coords": coords, "attaching_glyph": e.g, "component": e.comp, "mark_glyph": e.m, "group": e.group,
                       "source_base_anchor": e.base[m], "source_mark_anchor": e.mark[m], "expected_base_anchor": wb, "expected_mark_anchor": wm, "font": extra})
            };
            if cands.is_empty() {
                failed_pairs.insert((e.g.clone(), e.m.clone()));
                ev.viol.push(Viol {
                    key: format!("mark-pair-not-covered:{}{note}", e.kind.name()),
                    what: format!("no mark attachment subtable places {} on {} (component {}, anchor group {}) at master {m}", e.m, e.g, e.comp, e.group),
                    details: details(Value::Null),
                });
                continue;
            }
            let good: Vec<&&&MarkAttachment> = cands.iter().filter(|a| near(a.base_anchor, wb, tol) && near(a.mark_anchor, wm, tol)).collect();
            if good.is_empty() {
                failed_pairs.insert((e.g.clone(), e.m.clone()));
                // is some other expected entry of the same key (another shared group) the one these candidates serve?
                let seen: Vec<Value> = cands.iter().map(|a| json!({"lookup": a.lookup_index, "base_anchor": a.base_anchor, "mark_anchor": a.mark_anchor})).collect();
                let base_ok = cands.iter().any(|a| near(a.base_anchor, wb, tol));
                let mark_ok = cands.iter().any(|a| near(a.mark_anchor, wm, tol));
                let which = match (base_ok, mark_ok) {
                    (false, true) => "base-anchor",
                    (true, false) => "mark-anchor",
                    _ => "both-anchors",
                };
                let at = if m == d.default_master { "default" } else if fractional { "intermediate" } else { "master" };
                ev.viol.push(Viol {
                    key: format!("mark-anchor-mismatch:{}:{which}:{at}", e.kind.name()),
                    what: format!(
                        "{} on {} (component {}, group {}) at master {m}: expected base anchor {wb:?} mark anchor {wm:?} (rounded source), the font offers {}",
                        e.m,
                        e.g,
                        e.comp,
                        e.group,
                        serde_json::to_string(&seen).unwrap_or_default()
                    ),
                    details: details(json!(seen)),
                });
                continue;
            }
            for a in &good {
                st.max_abs_error = st
                    .max_abs_error
                    .max((a.base_anchor.0 - wb.0).abs())
                    .max((a.base_anchor.1 - wb.1).abs())
                    .max((a.mark_anchor.0 - wm.0).abs())
                    .max((a.mark_anchor.1 - wm.1).abs());
            }
            st.attachments_compared += 1;
            match two_axis_alpha {
                Some(true) => st.attachments_compared_two_axis_alphabetical += 1,
                Some(false) => st.attachments_compared_two_axis_not_alphabetical += 1,
                None => {}
            }
            // reachable from the right feature under both language systems
            for (ri, (mark, mkmk)) in reach.iter().enumerate() {
                let set = if e.kind == Cls::Mark { mkmk } else { mark };
                if !good.iter().any(|a| set.contains(&a.lookup_index)) {
                    let ls = ["DFLT/dflt", "latn/dflt"][ri];
                    ev.viol.push(Viol {
                        key: format!("mark-pair-not-covered:{}:not-reachable-from-{feature}", e.kind.name()),
                        what: format!(
                            "{} on {} (group {}): the correct anchors exist only in lookups {:?}, none of which feature {feature} of {ls} references (it has {:?})",
                            e.m,
                            e.g,
                            e.group,
                            good.iter().map(|a| a.lookup_index).collect::<Vec<_>>(),
                            set
                        ),
                        details: details(json!({"language_system": ls})),
                    });
                }
            }
        }

        // (4) soundness: every attachment the font offers is one the source asks for
        for a in &atts {
            st.attachments_examined_for_soundness += 1;
            let involved_ambiguous = [a.base_gid, a.mark_gid].iter().any(|g| name_of.get(g).is_some_and(|n| model.ambiguous.contains(n)));
            if involved_ambiguous {
                continue;
            }
            let key = (kind_cls(a.kind), a.base_gid, a.component, a.mark_gid);
            let gname = name_of.get(&a.base_gid).cloned().unwrap_or(format!("gid{}", a.base_gid));
            let mname = name_of.get(&a.mark_gid).cloned().unwrap_or(format!("gid{}", a.mark_gid));
            let tags: Vec<String> = {
                let mut t: BTreeSet<String> = other_tags.get(&a.lookup_index).cloned().unwrap_or_default();
                if reach.iter().any(|r| r.0.contains(&a.lookup_index)) {
                    t.insert("mark".into());
                }
                if reach.iter().any(|r| r.1.contains(&a.lookup_index)) {
                    t.insert("mkmk".into());
                }
                t.into_iter().collect()
            };
            match exp_by_key.get(&key) {
                None => {
                    let why = if !name_of.contains_key(&a.base_gid) || !name_of.contains_key(&a.mark_gid) {
                        "glyph-not-in-source"
                    } else if model.cls.get(&mname) != Some(&Cls::Mark) {
                        "mark-glyph-is-not-a-mark"
                    } else if model.cls.get(&gname).copied() != Some(kind_cls(a.kind)) {
                        "attaching-glyph-of-another-class"
                    } else {
                        "no-shared-anchor-name"
                    };
                    ev.viol.push(Viol {
                        key: format!("spurious-attachment:{}:{why}", kind_cls(a.kind).name()),
                        what: format!(
                            "lookup {} (features {tags:?}) attaches {mname} to {gname} component {} at {:?}/{:?} but the source has no such pair ({why})",
                            a.lookup_index, a.component, a.base_anchor, a.mark_anchor
                        ),
                        details: json!({"master": m, "lookup": a.lookup_index, "features": tags, "attaching_glyph": gname, "mark_glyph": mname,
                                        "component": a.component, "base_anchor": a.base_anchor, "mark_anchor": a.mark_anchor, "why": why}),
                    });
                }
                Some(es) => {
                    if !es.iter().any(|e| near(a.base_anchor, rp(e.base[m]), tol) && near(a.mark_anchor, rp(e.mark[m]), tol)) {
                        let base_ok = es.iter().any(|e| near(a.base_anchor, rp(e.base[m]), tol));
                        let mark_ok = es.iter().any(|e| near(a.mark_anchor, rp(e.mark[m]), tol));
                        let which = match (base_ok, mark_ok) {
                            (false, true) => "base-anchor",
                            (true, false) => "mark-anchor",
                            _ => "both-anchors",
                        };
                        ev.viol.push(Viol {
                            key: format!("mark-anchor-mismatch:{}:{which}:extra-subtable", kind_cls(a.kind).name()),
                            what: format!(
                                "lookup {} (features {tags:?}) attaches {mname} to {gname} component {} with anchors {:?}/{:?}, which no shared anchor name of the source gives at master {m}",
                                a.lookup_index, a.component, a.base_anchor, a.mark_anchor
                            ),
                            details: json!({"master": m, "lookup": a.lookup_index, "features": tags, "attaching_glyph": gname, "mark_glyph": mname,
                                            "base_anchor": a.base_anchor, "mark_anchor": a.mark_anchor}),
                        });
                    }
                }
            }
        }

        // (2, consequence) shaping [G, M]
        for (key, es) in &exp_by_key {
            // one shared group between G and M over all components, otherwise the later lookup wins (not fixed by the statement)
            let pair_entries: Vec<&Expected> = expected.iter().filter(|e| e.g == es[0].g && e.m == es[0].m).collect();
            let groups: BTreeSet<&String> = pair_entries.iter().map(|e| &e.group).collect();
            if groups.len() != 1 {
                continue;
            }
            let e = es[0];
            if failed_pairs.contains(&(e.g.clone(), e.m.clone())) {
                continue;
            }
            // ligature: a mark that was not ligated with the glyph goes to the LAST component
            let (want, expect_attach): (Option<(Pos, Pos)>, bool) = if e.kind == Cls::Lig {
                let ncomp = model.eff[&e.g][0].iter().filter_map(|a| split_attaching(&a.0).1).max().unwrap_or(0);
                if key.2 as usize + 1 != ncomp {
                    // only evaluate once per (G, M): through the entry of the last component, or report the NULL case
                    if pair_entries.iter().any(|p| p.comp + 1 == ncomp) {
                        continue;
                    }
                    if pair_entries.iter().map(|p| p.comp).min() != Some(e.comp) {
                        continue;
                    }
                    (None, false)
                } else {
                    (Some((rp(e.base[m]), rp(e.mark[m]))), true)
                }
            } else {
                (Some((rp(e.base[m]), rp(e.mark[m]))), true)
            };
            let req = ShapeRequest { script: "DFLT".into(), lang: "dflt".into(), features: FeatureSel::All, coords: coords.clone(), gsub: true, gpos: true, alternate_index: 0 };
            let r = lf.shape(&req, &[key.1, key.3]);
            if !r.problems.is_empty() {
                ev.machinery.push(format!("otlayout shaping problems: {:?}", r.problems));
                return ev;
            }
            st.shape_checks += 1;
            if e.kind == Cls::Lig {
                st.shape_checks_ligature += 1;
            }
            if e.kind == Cls::Mark {
                st.shape_checks_mkmk += 1;
            }
            if r.glyphs.len() != 2 {
                ev.viol.push(Viol { key: "shaping-changes-glyphs".into(), what: format!("shaping [{}, {}] yields {} glyphs", e.g, e.m, r.glyphs.len()), details: json!({"master": m}) });
                continue;
            }
            let got_att = r.glyphs[1].attached_to;
            let off = r.offset_from_root(1);
            match (expect_attach, want) {
                (true, Some((wb, wm))) => {
                    let wo = (wb.0 - wm.0, wb.1 - wm.1);
                    if got_att != Some(0) || !near(off, wo, 2.0 * tol) {
                        ev.viol.push(Viol {
                            key: format!("shaping-does-not-attach:{}{}", e.kind.name(), if got_att != Some(0) { ":not-attached" } else { ":offset" }),
                            what: format!("shaping [{}, {}] at master {m}: expected the mark attached to glyph 0 with offset {wo:?}, got attached_to {got_att:?} offset {off:?} (lookups applied {:?})", e.g, e.m, r.lookups_applied),
                            details: json!({"master": m, "coords": coords, "glyphs": [e.g, e.m], "expected_offset": wo, "got_offset": off, "attached_to": got_att}),
                        });
                    }
                }
                _ => {
                    if got_att.is_some() {
                        ev.viol.push(Viol {
                            key: "shaping-attaches-to-missing-ligature-anchor".into(),
                            what: format!("shaping [{}, {}] at master {m}: the last ligature component has no anchor of group {}, yet the mark is attached with offset {off:?}", e.g, e.m, e.group),
                            details: json!({"master": m, "coords": coords, "glyphs": [e.g, e.m], "got_offset": off}),
                        });
                    }
                }
            }
        }
    }
    if all_scalars_01 {
        st.fonts_all_scalars_01 = 1;
    }
    if any_attachment && st.attachments_compared > 0 {
        st.fonts_nontrivial = 1;
    }
    ev.summary = format!("{} expected entries; default location: {}", expected.len(), summary_bits.join("; "));
    ev
}

// ------------------------------------------------------------------------------------ replay

fn replay(path: &std::path::Path) -> ! {
    let s = std::fs::read_to_string(path).unwrap_or_else(|e| vcore::machinery_error(&format!("{path:?}: {e}")));
    let v: Value = serde_json::from_str(&s).unwrap_or_else(|e| vcore::machinery_error(&format!("{path:?}: {e}")));
    let r = v.get("replay").cloned().unwrap_or(v.clone());
    let d: Design = serde_json::from_value(r["design"].clone()).unwrap_or_else(|e| vcore::machinery_error(&format!("replay has no usable design: {e}")));
    let propagate = r["propagate_anchors"].as_bool().unwrap_or(false);
    println!("replaying {}", v["key"].as_str().unwrap_or("?"));
    if let Ok(spec) = serde_json::from_value::<Spec>(r["spec"].clone()) {
        println!("source: {}", spec.label());
    }
    let route = if r["route"].as_str() == Some("glyphs3") { Route::Glyphs3 } else { Route::Ufo };
    if route == Route::Glyphs3 {
        println!("route: the design written as a Glyphs 3 source");
    }
    let ev = evaluate_route(&d, propagate, route);
    for m in &ev.machinery {
        println!("machinery: {m}");
    }
    for x in &ev.viol {
        println!("{}: {}", x.key, x.what);
    }
    println!("{}", ev.summary);
    vcore::cleanup_scratch();
    if !ev.machinery.is_empty() && ev.viol.is_empty() {
        std::process::exit(2);
    }
    if ev.viol.is_empty() {
        println!("the case no longer fails");
        std::process::exit(0);
    }
    std::process::exit(1)
}

// ------------------------------------------------------------------------------------ main

fn main() {
    let args = vcore::parse_args();
    vcore::ensure_shim(args.seed);
    std::panic::set_hook(Box::new(|info| {
        if info.location().is_some_and(|l| l.file().ends_with("c10.rs")) {
            eprintln!("harness panic: {info}");
        }
    }));
    if let Some(p) = &args.replay {
        replay(p);
    }
    let mut rep = Reporter::new("C10", "exploration", &args);
    let spaces = spaces(args.tier);
    let sizes: Vec<usize> = spaces.iter().map(|s| s.size()).collect();
    let total: usize = sizes.iter().sum();
    let limit: Option<usize> = std::env::var("C10_LIMIT").ok().and_then(|s| s.parse().ok());
    let budget_s: f64 = std::env::var("C10_BUDGET_S").ok().and_then(|s| s.parse().ok()).unwrap_or(args.tier.pick(150.0, 1500.0) * vcore::budget_scale());
    let total_cases = limit.map(|n| n.min(total)).unwrap_or(total);
    let locate = |mut i: usize| -> (usize, usize) {
        for (si, sz) in sizes.iter().enumerate() {
            if i < *sz {
                return (si, i);
            }
            i -= sz;
        }
        (0, 0)
    };
    if let Some(i) = std::env::var("C10_SHOW").ok().and_then(|s| s.parse::<usize>().ok()) {
        // debugging aid: print what the compiler produces for one enumerated case
        let (si, k) = locate(i);
        let spec = spaces[si].case(k);
        println!("{}", spec.label());
        let d = build_design(&spec);
        let sc = vcore::Scratch::new("c10show");
        let path = d.write_source(sc.path()).unwrap();
        let bytes = fcx::compile(&path, &Opts { propagate_anchors: Some(spec.propagate), ..Default::default() }, None).unwrap();
        let vf = VFont::new(&bytes).unwrap();
        let lf = LFont::new(&bytes).unwrap();
        for (g, n) in vf.glyph_names().iter().enumerate() {
            println!("gid {g} {n} class {}", lf.glyph_class(g as u16));
        }
        for sl in [("DFLT", "dflt"), ("latn", "dflt")] {
            println!("{sl:?}: {:?}", lf.features_for(Table::Gpos, sl.0, sl.1, &[]));
        }
        for a in lf.mark_attachments(&[]) {
            println!("{a:?}");
        }
        let ev = evaluate(&d, spec.propagate);
        for x in ev.viol {
            println!("{}: {}", x.key, x.what);
        }
        vcore::cleanup_scratch();
        std::process::exit(0);
    }
    let chunk = 32usize;
    let nchunks = total_cases.div_ceil(chunk);
    let start = std::time::Instant::now();
    let skipped = std::sync::atomic::AtomicUsize::new(0);
    let results = vcore::par_for(nchunks, vcore::ncores(), |ci| {
        let mut st = Stats::default();
        let mut gst = Stats::default();
        let mut viol: Vec<(String, String, Value)> = vec![];
        let mut machinery: Vec<String> = vec![];
        let mut samples: Vec<Value> = vec![];
        let mut per_space: BTreeMap<String, u64> = BTreeMap::new();
        let mut seen = BTreeSet::new();
        if start.elapsed().as_secs_f64() > budget_s {
            skipped.fetch_add(((ci + 1) * chunk).min(total_cases) - ci * chunk, std::sync::atomic::Ordering::Relaxed);
            return (st, gst, viol, machinery, samples, per_space);
        }
        for idx in ci * chunk..((ci + 1) * chunk).min(total_cases) {
            let (si, k) = locate(idx);
            let spec = spaces[si].case(k);
            let d = build_design(&spec);
            let ev = evaluate(&d, spec.propagate);
            add_stats(&mut st, &ev.stats);
            *per_space.entry(spec.space.clone()).or_default() += 1;
            machinery.extend(ev.machinery.into_iter().map(|m| format!("{m} [source {}]", spec.label())));
            if idx % 997 == 5 && ev.viol.is_empty() {
                samples.push(json!({"source": spec.label(), "result": ev.summary}));
            }
            for x in ev.viol {
                if seen.insert(x.key.clone()) {
                    viol.push((
                        x.key,
                        format!("{} [source {}]", x.what, spec.label()),
                        json!({"design": serde_json::to_value(&d).unwrap_or(Value::Null), "spec": spec, "propagate_anchors": spec.propagate, "details": x.details}),
                    ));
                }
            }
            // the same design written as a Glyphs 3 source (reported separately, keys `glyphs3/..`)
            if glyphs_twin(args.tier, &spec) && d.glyphs_unrepresentable().is_empty() {
                let ev = evaluate_route(&d, spec.propagate, Route::Glyphs3);
                add_stats(&mut gst, &ev.stats);
                machinery.extend(ev.machinery.into_iter().map(|m| format!("glyphs3 route: {m} [source {}]", spec.label())));
                for x in ev.viol {
                    let key = format!("glyphs3/{}", x.key);
                    if seen.insert(key.clone()) {
                        viol.push((
                            key,
                            format!("(design written as a Glyphs 3 source) {} [source {}]", x.what, spec.label()),
                            json!({"design": serde_json::to_value(&d).unwrap_or(Value::Null), "spec": spec, "propagate_anchors": spec.propagate, "route": "glyphs3", "details": x.details}),
                        ));
                    }
                }
            }
        }
        (st, gst, viol, machinery, samples, per_space)
    });
    let mut totals = Stats::default();
    let mut gtotals = Stats::default();
    let mut samples: Vec<Value> = vec![];
    let mut machinery: Vec<String> = vec![];
    let mut per_space: BTreeMap<String, u64> = BTreeMap::new();
    for (st, gst, viol, mach, s, ps) in results {
        add_stats(&mut totals, &st);
        add_stats(&mut gtotals, &gst);
        for (k, w, r) in viol {
            // a known defect of the shared back end that shows through the Glyphs route as well is the same
            // finding (same key); anything else seen on the Glyphs route keeps its own `glyphs3/` key
            let k = match k.strip_prefix("glyphs3/") {
                Some(base) if rep.is_known(base) => base.to_string(),
                _ => k,
            };
            rep.violation(&k, &w, r);
        }
        machinery.extend(mach);
        for (k, v) in ps {
            *per_space.entry(k).or_default() += v;
        }
        for x in s {
            if samples.len() < 8 {
                samples.push(x);
            }
        }
    }
    if !machinery.is_empty() {
        for m in machinery.iter().take(10) {
            eprintln!("  {m}");
        }
        vcore::machinery_error(&format!("{} evaluator/harness failures (first ones above)", machinery.len()));
    }
    let skipped = skipped.into_inner();
    rep.set("evaluations", totals.fonts);
    rep.set("distinct_nontrivial", totals.fonts_nontrivial);
    rep.set(
        "rule",
        "distinct enumerated sources (every case of the stated products is a different source by construction) whose compiled font offers at least one mark attachment anchor pair AND for which at least one expected (attaching glyph, component, mark) entry was found and compared coordinate by coordinate at a master location",
    );
    rep.set("counts", serde_json::to_value(&totals).unwrap());
    rep.set("glyphs3_route_counts", serde_json::to_value(&gtotals).unwrap());
    rep.set(
        "glyphs3_route",
        args.tier.pick(
            "every enumerated design is also written as a Glyphs 3 source and judged with the same oracle (classification = written category, else glyph data; glyphsLib rule)",
            "every enumerated design of every space except attaching-x-mark and the four-corner coordinate assignments is also written as a Glyphs 3 source and judged with the same oracle (classification = written category, else glyph data; glyphsLib rule)",
        ),
    );
    rep.set("cases_per_space", serde_json::to_value(&per_space).unwrap());
    rep.set(
        "spaces",
        spaces.iter().map(|s| json!({"name": s.name, "what": s.what, "size": s.size()})).collect::<Vec<_>>(),
    );
    rep.set("samples", samples);
    rep.set("exhaustive", limit.is_none() && skipped == 0);
    if limit.is_some() || skipped > 0 {
        rep.set("cap", format!("{} of {total} cases evaluated (C10_LIMIT / time budget {budget_s}s); {skipped} skipped by the budget", total_cases - skipped));
    }
    rep.assume("sources: UFO (static) or designspace + UFOs (and the same design as a Glyphs 3 file), no axis, one axis (wght) or two axes (wght and wdth, declared in either order), 1-4 full masters (two axes: default + one master per axis, or the 4 corners), every glyph and every anchor present in every master, no features.fea, no kerning; Latin letters, U+FB01 and U+0300/U+0301 only");
    rep.assume("explicit categories: public.openTypeCategories is the classification. Absent + propagate-anchors on: reference = Unicode (U+0300..036F nonspacing marks are marks, U+FB0x with an attaching anchor is a ligature, any other glyph with an attaching anchor a base). Absent + propagate-anchors off: the source classifies nothing; a glyph is taken as a mark iff it has an underscore anchor whose group also has an attaching anchor (ufo2ft's rule); an underscore anchor whose group no glyph attaches to cannot make a glyph a mark: such a glyph is a base / ligature if it has attaching anchors, and is excluded and counted (ambiguous_glyphs_excluded) if it has none; no GDEF class is asserted in that mode except for marks that take part in an expected attachment. Glyphs 3 route: the class follows the glyphsLib rule from the written category (mark -> Mark/Nonspacing, ligature -> Letter/Ligature, base -> Letter) or, where none is written, from the glyph data (same Unicode rule as above)");
    rep.assume("an attaching anchor of a glyph classified mark counts for mkmk whether or not that glyph also has an underscore anchor (the statement says 'every base, ligature or mark glyph anchor')");
    rep.assume("duplicates are fine: the statement asks for SOME lookup reachable from mark (base, ligature) / mkmk (mark); further lookups (abvm/blwm copies) offering the same pair are only required to carry the same anchors (soundness)");
    rep.assume("propagate-anchors: only translated components, composite = plain base + mark; expected anchors follow the glyphsLib rule stated in the module documentation; own anchors of a composite replace propagated ones of the same name");
    rep.assume("shaping [G, M] is asserted only when G and M share exactly one anchor group (otherwise which lookup wins is outside the statement); for a ligature the unligated mark goes to the last component (HarfBuzz), NULL anchor there = no attachment");
    rep.finish()
}
