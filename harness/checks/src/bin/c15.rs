//! C15 — bad input ends in a reported error, never a crash, hang or bogus font.
//!
//! Level: fault enumeration. Every fault of a listed class is applied at every site of a small
//! valid source; each resulting file tree is compiled by the UNMODIFIED product binary
//! (`vcore::fontc_bin()`), one process per case, under a CPU-time limit (RLIMIT_CPU), a wall-clock
//! backstop, an address-space cap (RLIMIT_AS) and the default stack. Fault classes (all enumerated
//! completely within the stated bound; `C15 quick <class>[,<class>]` runs a subset):
//!
//!  1. `component-graph`   every digraph on <= 3 glyphs as components: static UFO, 2-master
//!                         designspace and generated Glyphs 3 file x flag sets x export sets x
//!                         contour modes (every glyph has a contour / composites are pure)
//!  2. `structural`        on every file of a 2-master UFO+designspace: delete / duplicate each XML
//!                         element, replace each number by each of 7 values, truncate at every
//!                         1/16, delete the file, empty the file
//!  3. `designspace`       a list of semantic designspace faults
//!  4. `glif`              a list of glif / layer-contents faults, at every glyph x master subset
//!  5. `fea-soup`          every sequence of <= 2 / <= 3 lexemes as features.fea (raw and inside a
//!                         feature block); plus include cycles / chains / missing includes
//!  6. `glyphs-text`       truncation, top-level key deletion, unbalanced delimiters and component
//!                         retargeting on small Glyphs fixtures of the repository
//!  7. `deep-nesting`      nesting depth 100 .. 10^6 in every recursive input syntax (Glyphs plist,
//!                         XML plist in lib.plist / designspace lib / glif lib, FEA brackets and blocks)
//!
//! Oracle (from the property text only): the process ends within the limits and either
//!   * exits 0, the output file exists, is not empty and is a structurally sound font
//!     (`otref::check_font` plus a small hand-written sfnt/glyf sanity pass), or
//!   * exits 1 (2 for a command-line error) with a non-empty diagnostic and NO output file.
//! Anything else is a violation: death by signal, exit 101/134/other, CPU or wall limit reached,
//! exit 0 without a font, a font left behind by a failed run, a silent failure.
//! A diagnostic "A task panicked: …" with exit 1 is a *reported* failure: not a violation of this
//! property's text, but counted (`panics_reported_as_errors`).
//!
//! Time: a normal run costs 30-50 ms. A run that does not terminate costs its whole limit, so
//! every case first runs with a 1 s CPU limit and only cases over it are judged with the full
//! 10 s limit (see `hang_policy` in the evidence). The run-wide deadline (`C15_DEADLINE_S`) is a
//! safety valve far above the tier budget; when it cuts cases off, `exhaustive` is false.
use dgen::{Axis, Component, Design, Glyph, Layer, shapes};
use serde_json::{Value, json};
use std::{
    collections::{BTreeMap, BTreeSet},
    path::Path,
    sync::Arc,
    time::Instant,
};
use vcore::{ProcOutcome, Reporter, Scratch, Tier};

/// Time limits of one run. The judging limit is on CPU time (RLIMIT_CPU, all threads summed), so
/// that a machine shared with other jobs cannot turn a starved normal run (about 0.05 s CPU) into a
/// "hang"; the wall-clock limit is the backstop for a run that blocks without using CPU.
#[derive(Clone, Copy, PartialEq, Debug)]
struct Limits {
    cpu_s: u64,
    wall_ms: u64,
}
/// the limits a hang verdict is based on
const FULL: Limits = Limits { cpu_s: 10, wall_ms: 60_000 };
/// first-pass limits (see `hang_policy` in the evidence)
const FIRST: Limits = Limits { cpu_s: 1, wall_ms: 20_000 };
const SIGXCPU: i32 = 24;
/// groups of cases over the first limit up to this size are re-run completely with the full limit
const SMALL_GROUP: usize = 16;
const MEM_CAP: u64 = 4 << 30;
const JOBS: usize = 16;

type Tree = BTreeMap<String, Vec<u8>>;

// ------------------------------------------------------------------ flag sets

const FLAGSETS: [(&str, &[&str]); 4] = [
    ("default", &[]),
    ("decompose", &["--decompose-components"]),
    ("prefer-simple-off", &["--prefer-simple-glyphs=false"]),
    ("flatten", &["--flatten-components=true"]),
];

// ------------------------------------------------------------------ cases

struct Base {
    name: String,
    entry: String,
    files: Tree,
}

#[derive(Clone)]
enum Patch {
    Set(String, Vec<u8>),
    Del(String),
}

struct Case {
    class: &'static str,
    /// the fault, at the granularity used in violation keys
    fault: String,
    /// where it was applied (file + element / number / offset), unique within (class, fault)
    site: String,
    flagset: usize,
    base: Arc<Base>,
    patch: Vec<Patch>,
    /// smaller = expected cheaper; also the order of "minimal example"
    cost: u32,
    /// size of the case for choosing a minimal example
    size: u32,
    note: String,
    /// which unmodified source this case's font is compared with to see whether the fault was felt
    baseline_id: String,
    /// this case IS that unmodified source
    is_baseline: bool,
}

impl Case {
    fn tree(&self) -> Tree {
        let mut t = self.base.files.clone();
        for p in &self.patch {
            match p {
                Patch::Set(k, v) => {
                    t.insert(k.clone(), v.clone());
                }
                Patch::Del(k) => {
                    t.remove(k);
                }
            }
        }
        t
    }
    fn flags(&self) -> Vec<String> {
        FLAGSETS[self.flagset].1.iter().map(|s| s.to_string()).collect()
    }
    fn replay(&self, count: u64, kind: &str) -> Value {
        let mut files = serde_json::Map::new();
        for (k, v) in self.tree() {
            files.insert(
                k,
                match String::from_utf8(v) {
                    Ok(s) => Value::String(s),
                    Err(e) => json!({"bytes": e.into_bytes()}),
                },
            );
        }
        json!({
            "class": self.class, "fault": self.fault, "site": self.site, "note": self.note,
            "base": self.base.name, "entry": self.base.entry,
            "flags": self.flags(), "flagset": FLAGSETS[self.flagset].0,
            "files": Value::Object(files),
            "outcome_kind": kind, "cases_in_class": count,
            "cpu_limit_s": FULL.cpu_s, "wall_limit_ms": FULL.wall_ms, "mem_cap": MEM_CAP,
        })
    }
}

// ------------------------------------------------------------------ running one tree

#[derive(Debug, Clone, PartialEq)]
enum Kind {
    OkFont,
    CleanError,
    /// exit 1 with a diagnostic that reports a caught panic
    ReportedPanic,
    /// exit 2: clap rejected the command line
    UsageError,
    // ---- violations
    StackOverflow,
    AllocAbort,
    Signal(i32),
    PanicExit101,
    ExitOther(i32),
    Hang,
    NoFont,
    BogusFont(String),
    LeftoverFont,
    SilentFailure,
}

impl Kind {
    fn is_violation(&self) -> bool {
        !matches!(self, Kind::OkFont | Kind::CleanError | Kind::ReportedPanic | Kind::UsageError)
    }
    fn name(&self) -> String {
        match self {
            Kind::OkFont => "ok-font".into(),
            Kind::CleanError => "clean-error".into(),
            Kind::ReportedPanic => "clean-error-reporting-panic".into(),
            Kind::UsageError => "usage-error".into(),
            Kind::StackOverflow => "stack-overflow".into(),
            Kind::AllocAbort => "alloc-abort".into(),
            Kind::Signal(n) => format!("signal-{n}"),
            Kind::PanicExit101 => "panic-exit101".into(),
            Kind::ExitOther(n) => format!("exit-{n}"),
            Kind::Hang => "hang".into(),
            Kind::NoFont => "no-font".into(),
            Kind::BogusFont(c) => format!("bogus-font:{c}"),
            Kind::LeftoverFont => "leftover-font".into(),
            Kind::SilentFailure => "silent-failure".into(),
        }
    }
}

#[derive(Debug, Clone)]
struct Outcome {
    kind: Kind,
    detail: String,
    font_hash: Option<u64>,
    panic_msg: Option<String>,
    wall_ms: u64,
}

fn write_tree(root: &Path, tree: &Tree) {
    for (rel, bytes) in tree {
        let p = root.join(rel);
        if let Some(d) = p.parent() {
            let _ = std::fs::create_dir_all(d);
        }
        if let Err(e) = std::fs::write(&p, bytes) {
            vcore::machinery_error(&format!("cannot write {p:?}: {e}"));
        }
    }
}

fn read_tree(root: &Path) -> Tree {
    fn go(root: &Path, dir: &Path, out: &mut Tree) {
        let Ok(rd) = std::fs::read_dir(dir) else { return };
        for e in rd.flatten() {
            let p = e.path();
            if p.is_dir() {
                go(root, &p, out);
            } else if let Ok(b) = std::fs::read(&p) {
                let rel = p.strip_prefix(root).unwrap().to_string_lossy().into_owned();
                out.insert(rel, b);
            }
        }
    }
    let mut t = Tree::new();
    go(root, root, &mut t);
    t
}

/// font files anywhere under `dir`
fn font_files(dir: &Path) -> Vec<String> {
    read_tree(dir)
        .into_keys()
        .filter(|k| k.ends_with(".ttf") || k.ends_with(".otf"))
        .collect()
}

fn first_lines(s: &str, n: usize) -> String {
    let mut out: Vec<&str> = s.lines().filter(|l| !l.trim().is_empty()).take(n).collect();
    if out.is_empty() {
        out.push("");
    }
    let j = out.join(" | ");
    j.chars().take(400).collect()
}

/// the message of a reported panic, without time stamps and thread ids
fn panic_message(stderr: &str) -> Option<String> {
    let l = stderr.lines().find(|l| l.contains("panicked"))?;
    let msg = match l.find("A task panicked") {
        Some(i) => &l[i..],
        None => match l.find("panicked at") {
            Some(i) => &l[i..],
            None => l,
        },
    };
    // the panic text may follow on the next line(s) ("thread '..' panicked at file:line:\nmsg")
    let mut m: String = msg.chars().take(200).collect();
    if l.contains("panicked at") && !l.contains("A task panicked") {
        if let Some(next) = stderr.lines().skip_while(|x| *x != l).nth(1) {
            m.push_str(" :: ");
            m.extend(next.chars().take(160));
        }
    }
    Some(m)
}

fn run_tree(tree: &Tree, entry: &str, flags: &[String], lim: Limits) -> Outcome {
    let sc = Scratch::new("c15");
    let src = sc.join("src");
    write_tree(&src, tree);
    let _ = std::fs::create_dir_all(&src);
    let out = sc.join("out.ttf");
    let mut cmd = vcore::fontc_cmd(&vcore::fontc_bin(), None);
    cmd.current_dir(sc.path());
    // 16 cases run side by side: a full-width rayon pool in each only adds contention (a stack
    // overflow or a hang does not depend on the pool width; schedules are C02's subject)
    cmd.env("RAYON_NUM_THREADS", "2");
    cmd.arg(src.join(entry)).arg("-o").arg(&out);
    cmd.args(flags);
    {
        use std::os::unix::process::CommandExt;
        let cpu = lim.cpu_s;
        unsafe {
            cmd.pre_exec(move || {
                // soft limit: SIGXCPU; hard limit two seconds later: SIGKILL
                let l = libc::rlimit { rlim_cur: cpu, rlim_max: cpu + 2 };
                libc::setrlimit(libc::RLIMIT_CPU, &l);
                Ok(())
            });
        }
    }
    let po = vcore::run_proc(&mut cmd, lim.wall_ms, Some(MEM_CAP));
    classify(&po, &out, sc.path(), lim)
}

fn classify(po: &ProcOutcome, out: &Path, scratch: &Path, lim: Limits) -> Outcome {
    let diag = first_lines(&po.stderr, 3);
    let mk = |kind: Kind, detail: String| Outcome {
        kind,
        detail,
        font_hash: None,
        panic_msg: None,
        wall_ms: po.wall_ms,
    };
    if po.timed_out {
        return mk(Kind::Hang, format!("no exit within {} ms of wall-clock time; stderr: {diag}", po.wall_ms));
    }
    if po.signal == Some(SIGXCPU) {
        return mk(Kind::Hang, format!("still running after {} s of CPU time ({} ms wall); stderr: {diag}", lim.cpu_s, po.wall_ms));
    }
    let overflow = po.stderr.contains("has overflowed its stack") || po.stderr.contains("stack overflow");
    let alloc = po.stderr.contains("memory allocation of") || po.stderr.contains("capacity overflow");
    if let Some(sig) = po.signal {
        let kind = if overflow {
            Kind::StackOverflow
        } else if alloc {
            Kind::AllocAbort
        } else {
            Kind::Signal(sig)
        };
        return mk(kind, format!("killed by signal {sig}; stderr: {diag}"));
    }
    let code = po.code.unwrap_or(-1);
    let fonts = font_files(scratch);
    let out_bytes = std::fs::read(out).ok();
    match code {
        0 => {
            let Some(bytes) = out_bytes else {
                return mk(Kind::NoFont, format!("exit 0 but no output file; stderr: {diag}"));
            };
            if bytes.is_empty() {
                return mk(Kind::NoFont, "exit 0 and an empty output file".into());
            }
            let mut o = match font_issue(&bytes) {
                Some((code, detail)) => mk(Kind::BogusFont(code), detail),
                None => mk(Kind::OkFont, String::new()),
            };
            o.font_hash = Some(vcore::hash64(&bytes));
            o
        }
        1 | 2 => {
            if !fonts.is_empty() {
                return mk(
                    Kind::LeftoverFont,
                    format!("exit {code} but font file(s) {fonts:?} exist; stderr: {diag}"),
                );
            }
            if po.stderr.trim().is_empty() && po.stdout.trim().is_empty() {
                return mk(Kind::SilentFailure, format!("exit {code} without any diagnostic"));
            }
            if code == 2 {
                return mk(Kind::UsageError, diag);
            }
            if po.stderr.contains("panicked") {
                let mut o = mk(Kind::ReportedPanic, diag);
                o.panic_msg = panic_message(&po.stderr);
                return o;
            }
            mk(Kind::CleanError, diag)
        }
        101 => {
            let mut o = mk(Kind::PanicExit101, format!("exit 101 (uncaught panic); stderr: {diag}"));
            o.panic_msg = panic_message(&po.stderr);
            o
        }
        134 | 139 => mk(
            if overflow { Kind::StackOverflow } else if alloc { Kind::AllocAbort } else { Kind::ExitOther(code) },
            format!("exit {code}; stderr: {diag}"),
        ),
        n => mk(Kind::ExitOther(n), format!("exit {n}; stderr: {diag}")),
    }
}

// ------------------------------------------------------------------ font sanity (success side)

fn be16(b: &[u8], o: usize) -> Option<u16> {
    Some(u16::from_be_bytes(b.get(o..o + 2)?.try_into().ok()?))
}
fn be32(b: &[u8], o: usize) -> Option<u32> {
    Some(u32::from_be_bytes(b.get(o..o + 4)?.try_into().ok()?))
}

/// First structural defect of a font that fontc reported as built: (issue code, detail).
fn font_issue(bytes: &[u8]) -> Option<(String, String)> {
    if let Some(i) = basic_sanity(bytes) {
        return Some(i);
    }
    structural_issues(bytes).into_iter().next()
}

/// Hook for the independent structural checker: with feature `ev-ref` this is
/// `otref::check_font`; without it only `basic_sanity` judges the font.
#[cfg(feature = "ev-ref")]
fn structural_issues(bytes: &[u8]) -> Vec<(String, String)> {
    let (_, issues) = otref::check_font(bytes);
    issues.into_iter().map(|i| (i.code, i.detail)).collect()
}
#[cfg(not(feature = "ev-ref"))]
fn structural_issues(_bytes: &[u8]) -> Vec<(String, String)> {
    vec![]
}
const USES_OTREF: bool = cfg!(feature = "ev-ref");

/// Hand-written minimum: sfnt directory, required tables, loca/glyf consistency, composite
/// glyphs reference existing glyphs and do not form a cycle; skrifa opens the file.
fn basic_sanity(b: &[u8]) -> Option<(String, String)> {
    let bad = |c: &str, d: String| Some((c.to_string(), d));
    let Some(ver) = be32(b, 0) else { return bad("sfnt-short", "shorter than 4 bytes".into()) };
    if ver != 0x0001_0000 && ver != 0x4F54_544F {
        return bad("sfnt-version", format!("sfnt version {ver:#x}"));
    }
    let Some(n) = be16(b, 4) else { return bad("sfnt-short", "no table count".into()) };
    let mut tables: BTreeMap<[u8; 4], (usize, usize)> = BTreeMap::new();
    let mut prev: Option<[u8; 4]> = None;
    for i in 0..n as usize {
        let r = 12 + 16 * i;
        let (Some(off), Some(len)) = (be32(b, r + 8), be32(b, r + 12)) else {
            return bad("dir-truncated", format!("record {i} outside the file"));
        };
        let tag: [u8; 4] = b[r..r + 4].try_into().unwrap();
        if prev.is_some_and(|p| p >= tag) {
            return bad("dir-unsorted", format!("tag {:?} out of order", String::from_utf8_lossy(&tag)));
        }
        prev = Some(tag);
        let (off, len) = (off as usize, len as usize);
        if off.checked_add(len).is_none_or(|e| e > b.len()) {
            return bad("table-bounds", format!("{} at {off}+{len} > {}", String::from_utf8_lossy(&tag), b.len()));
        }
        tables.insert(tag, (off, len));
    }
    let mut required = vec!["head", "hhea", "maxp", "OS/2", "hmtx", "cmap", "name", "post"];
    if ver == 0x0001_0000 {
        required.extend(["glyf", "loca"]);
    }
    for t in required {
        let tag: [u8; 4] = t.as_bytes().try_into().unwrap();
        if !tables.contains_key(&tag) {
            return bad("missing-table", format!("no {t} table"));
        }
    }
    let t = |tag: &[u8; 4]| tables.get(tag).map(|(o, l)| &b[*o..*o + *l]);
    let maxp = t(b"maxp")?;
    let Some(num_glyphs) = be16(maxp, 4) else { return bad("maxp-short", "maxp too short".into()) };
    if num_glyphs == 0 {
        return bad("no-glyphs", "maxp.numGlyphs = 0".into());
    }
    if let (Some(glyf), Some(loca), Some(head)) = (t(b"glyf"), t(b"loca"), t(b"head")) {
        let Some(fmt) = be16(head, 50) else { return bad("head-short", "head too short".into()) };
        let ng = num_glyphs as usize;
        let mut offs = Vec::with_capacity(ng + 1);
        for i in 0..=ng {
            let o = if fmt == 0 { be16(loca, 2 * i).map(|v| v as usize * 2) } else { be32(loca, 4 * i).map(|v| v as usize) };
            let Some(o) = o else { return bad("loca-short", format!("loca has no entry {i} of {}", ng + 1)) };
            offs.push(o);
        }
        let mut comps: Vec<Vec<usize>> = vec![vec![]; ng];
        for g in 0..ng {
            let (s, e) = (offs[g], offs[g + 1]);
            if s > e || e > glyf.len() {
                return bad("loca-range", format!("glyph {g}: {s}..{e} of {}", glyf.len()));
            }
            if s == e {
                continue;
            }
            let gd = &glyf[s..e];
            let Some(nc) = be16(gd, 0) else { return bad("glyph-short", format!("glyph {g}")) };
            if (nc as i16) < 0 {
                let mut p = 10;
                loop {
                    let (Some(flags), Some(gid)) = (be16(gd, p), be16(gd, p + 2)) else {
                        return bad("composite-truncated", format!("glyph {g}"));
                    };
                    if gid as usize >= ng {
                        return bad("component-gid-range", format!("glyph {g} uses component {gid} >= {ng}"));
                    }
                    comps[g].push(gid as usize);
                    p += 4 + if flags & 1 != 0 { 4 } else { 2 };
                    p += if flags & 0x8 != 0 { 2 } else if flags & 0x40 != 0 { 4 } else if flags & 0x80 != 0 { 8 } else { 0 };
                    if flags & 0x20 == 0 {
                        break;
                    }
                }
            }
        }
        // cycle search: colours 0 new / 1 open / 2 done, iterative
        let mut colour = vec![0u8; ng];
        for root in 0..ng {
            if colour[root] != 0 {
                continue;
            }
            let mut stack = vec![(root, 0usize)];
            colour[root] = 1;
            while let Some((g, i)) = stack.pop() {
                if i < comps[g].len() {
                    stack.push((g, i + 1));
                    let c = comps[g][i];
                    match colour[c] {
                        1 => return bad("component-cycle", format!("compiled glyph {g} reaches itself through glyph {c}")),
                        0 => {
                            colour[c] = 1;
                            stack.push((c, 0));
                        }
                        _ => {}
                    }
                } else {
                    colour[g] = 2;
                }
            }
        }
    }
    if let Err(e) = skrifa::FontRef::new(b) {
        return bad("skrifa-open", format!("{e}"));
    }
    None
}

// ------------------------------------------------------------------ base sources

fn design_tree(d: &Design, variable: bool, name: &str) -> Arc<Base> {
    let sc = Scratch::new("c15-base");
    let entry = if variable {
        d.write_designspace(sc.path()).unwrap_or_else(|e| vcore::machinery_error(&format!("dgen: {e}")))
    } else {
        d.write_single_ufo(sc.path()).unwrap_or_else(|e| vcore::machinery_error(&format!("dgen: {e}")))
    };
    let entry = entry.strip_prefix(sc.path()).unwrap().to_string_lossy().into_owned();
    Arc::new(Base { name: name.into(), entry, files: read_tree(sc.path()) })
}

const GNAMES: [&str; 3] = ["a", "b", "c"];

#[derive(Clone, Copy, PartialEq, Debug)]
enum ContourMode {
    /// every glyph has one contour (acyclic graphs give glyphs mixing contours and components)
    Mixed,
    /// a glyph with components has no contour (pure composites); sinks keep their contour
    Pure,
}

/// edge i -> j (glyph i has a component of glyph j) is bit i*n+j of `mask`
fn graph_edges(n: usize, mask: u32) -> Vec<(usize, usize)> {
    let mut v = vec![];
    for i in 0..n {
        for j in 0..n {
            if mask >> (i * n + j) & 1 == 1 {
                v.push((i, j));
            }
        }
    }
    v
}

fn graph_is_cyclic(n: usize, mask: u32) -> bool {
    // reachability closure
    let mut r = vec![vec![false; n]; n];
    for (i, j) in graph_edges(n, mask) {
        r[i][j] = true;
    }
    for k in 0..n {
        for i in 0..n {
            for j in 0..n {
                if r[i][k] && r[k][j] {
                    r[i][j] = true;
                }
            }
        }
    }
    (0..n).any(|i| r[i][i])
}

fn graph_text(n: usize, mask: u32) -> String {
    let e: Vec<String> = graph_edges(n, mask)
        .iter()
        .map(|(i, j)| format!("{}->{}", GNAMES[*i], GNAMES[*j]))
        .collect();
    format!("{} glyph(s) [{}]", n, e.join(" "))
}

fn graph_design(n: usize, mask: u32, hidden: Option<usize>, mode: ContourMode, variable: bool) -> Design {
    let mut d = if variable {
        Design::skeleton(
            "Graph",
            vec![Axis::new("wght", "Weight", 400.0, 400.0, 700.0)],
            vec![vec![400.0], vec![700.0]],
        )
    } else {
        Design::static_font("Graph")
    };
    let edges = graph_edges(n, mask);
    for i in 0..n {
        let mut g = Glyph::new(GNAMES[i], &[0x61 + i as u32]);
        g.export = hidden != Some(i);
        let out: Vec<usize> = edges.iter().filter(|(a, _)| *a == i).map(|(_, b)| *b).collect();
        for m in 0..d.masters.len() {
            let w = 100.0 + 40.0 * m as f64 + 10.0 * i as f64;
            let mut l = Layer { advance: 500.0 + w, ..Default::default() };
            if mode == ContourMode::Mixed || out.is_empty() {
                l.contours.push(shapes::rect(50.0, 100.0 * i as f64, 50.0 + w, 100.0 * i as f64 + 80.0));
            }
            for j in &out {
                l.components.push(Component::at(GNAMES[*j], 20.0 * (*j as f64 + 1.0), 10.0 * m as f64));
            }
            g.layers.insert(m, l);
        }
        d.glyphs.push(g);
    }
    d
}

/// The same digraph as a minimal Glyphs 3 file (one master).
fn graph_glyphs_file(n: usize, mask: u32, mode: ContourMode) -> String {
    let edges = graph_edges(n, mask);
    let mut s = String::from(
        "{\n.appVersion = \"3151\";\n.formatVersion = 3;\nfamilyName = \"Graph\";\nfontMaster = (\n{\nid = m01;\nmetricValues = (\n{\npos = 800;\n},\n{\npos = 700;\n},\n{\npos = 500;\n},\n{\n},\n{\npos = -200;\n},\n{\n}\n);\nname = Regular;\n}\n);\nglyphs = (\n",
    );
    for i in 0..n {
        let out: Vec<usize> = edges.iter().filter(|(a, _)| *a == i).map(|(_, b)| *b).collect();
        let mut shapes = vec![];
        if mode == ContourMode::Mixed || out.is_empty() {
            let y = 100 * i;
            shapes.push(format!(
                "{{\nclosed = 1;\nnodes = (\n(50,{y},l),\n({x1},{y},l),\n({x1},{y2},l),\n(50,{y2},l)\n);\n}}",
                x1 = 150 + 10 * i,
                y2 = y + 80
            ));
        }
        for j in &out {
            shapes.push(format!("{{\npos = ({},0);\nref = {};\n}}", 20 * (j + 1), GNAMES[*j]));
        }
        s.push_str(&format!(
            "{{\nglyphname = {};\nlayers = (\n{{\nlayerId = m01;\nshapes = (\n{}\n);\nwidth = 600;\n}}\n);\nunicode = {};\n}}{}\n",
            GNAMES[i],
            shapes.join(",\n"),
            0x61 + i,
            if i + 1 < n { "," } else { "" }
        ));
    }
    s.push_str(
        ");\nmetrics = (\n{\ntype = ascender;\n},\n{\ntype = \"cap height\";\n},\n{\ntype = \"x-height\";\n},\n{\ntype = baseline;\n},\n{\ntype = descender;\n},\n{\ntype = \"italic angle\";\n}\n);\nunitsPerEm = 1000;\nversionMajor = 1;\nversionMinor = 0;\n}\n",
    );
    s
}

// ------------------------------------------------------------------ class 1: component graphs

fn graph_cases(tier: Tier, out: &mut Vec<Case>) {
    struct Level {
        src: &'static str,
        n: usize,
        /// (glyph that is not exported, flag sets)
        variants: Vec<(Option<usize>, Vec<usize>)>,
        modes: Vec<ContourMode>,
    }
    use ContourMode::*;
    let all: Vec<usize> = (0..FLAGSETS.len()).collect();
    let dflt = vec![0usize];
    let both = vec![Mixed, Pure];
    let mut levels = vec![];
    match tier {
        Tier::Quick => {
            for n in 1..=2 {
                levels.push(Level { src: "ufo", n, variants: vec![(None, all.clone()), (Some(0), dflt.clone())], modes: both.clone() });
                levels.push(Level { src: "designspace", n, variants: vec![(None, dflt.clone())], modes: vec![Mixed] });
                levels.push(Level { src: "glyphs", n, variants: vec![(None, dflt.clone())], modes: both.clone() });
            }
            // the complete 3-glyph level in the mode whose cycles fail fast on the unrepaired tree
            levels.push(Level { src: "ufo", n: 3, variants: vec![(None, dflt.clone())], modes: vec![Pure] });
        }
        Tier::Thorough => {
            for n in 1..=2 {
                levels.push(Level { src: "ufo", n, variants: vec![(None, all.clone()), (Some(0), all.clone())], modes: both.clone() });
                levels.push(Level { src: "designspace", n, variants: vec![(None, all.clone()), (Some(0), all.clone())], modes: both.clone() });
                levels.push(Level { src: "glyphs", n, variants: vec![(None, all.clone())], modes: both.clone() });
            }
            levels.push(Level { src: "ufo", n: 3, variants: vec![(None, all.clone()), (Some(0), dflt.clone())], modes: both.clone() });
            levels.push(Level { src: "glyphs", n: 3, variants: vec![(None, dflt.clone())], modes: both.clone() });
        }
    }
    for lv in levels {
        let n = lv.n;
        for mask in 0..(1u32 << (n * n)) {
            let cyclic = graph_is_cyclic(n, mask);
            let nedges = mask.count_ones();
            for &mode in &lv.modes {
                // the two contour modes are the same source when no glyph has a component
                if mode == Pure && mask == 0 {
                    continue;
                }
                for (hidden, flagsets) in &lv.variants {
                    let hidden = *hidden;
                    let base = match lv.src {
                        "glyphs" => {
                            let mut files = Tree::new();
                            files.insert("font.glyphs".into(), graph_glyphs_file(n, mask, mode).into_bytes());
                            Arc::new(Base { name: "graph-glyphs".into(), entry: "font.glyphs".into(), files })
                        }
                        "designspace" => design_tree(&graph_design(n, mask, hidden, mode, true), true, "graph-designspace"),
                        _ => design_tree(&graph_design(n, mask, hidden, mode, false), false, "graph-ufo"),
                    };
                    for &fs in flagsets {
                        let hangs = cyclic && FLAGSETS[fs].0 == "flatten";
                        out.push(Case {
                            class: "component-graph",
                            fault: if cyclic { "component-cycle".into() } else { "component-acyclic".into() },
                            site: format!(
                                "{}:n={n}:mask={mask}:{}:{}",
                                lv.src,
                                if mode == Mixed { "mixed" } else { "pure" },
                                match hidden {
                                    None => "all-exported".to_string(),
                                    Some(h) => format!("{}-not-exported", GNAMES[h]),
                                }
                            ),
                            flagset: fs,
                            base: base.clone(),
                            patch: vec![],
                            cost: if hangs { 1000 } else if cyclic { 100 } else { 10 },
                            size: (n as u32) * 100 + nedges * 4 + hidden.is_some() as u32 + (mode == Pure) as u32 * 2 + (lv.src != "ufo") as u32 * 50,
                            note: format!("{} source, {}, {:?} contours", lv.src, graph_text(n, mask), mode),
                            baseline_id: format!("graph:{}:n={n}:{:?}:{}", lv.src, hidden, FLAGSETS[fs].0),
                            is_baseline: mask == 0,
                        });
                    }
                }
            }
        }
    }
}

// ------------------------------------------------------------------ the full base source (classes 2-4)

const FULL_FEA: &str = "languagesystem DFLT dflt;\n@AB = [a b];\nfeature liga {\n  sub a b by a;\n} liga;\nfeature cpsp {\n  pos a <5 0 10 0>;\n} cpsp;\n";

/// 2 masters, 2 glyphs (a simple, b a composite of a), anchors, kerning, groups, features, lib,
/// an axis map, a rule and two instances.
fn full_design() -> Design {
    use dgen::{Anchor, Instance, Rule, plist::Plist};
    let mut axis = Axis::new("wght", "Weight", 400.0, 400.0, 700.0);
    axis.map = vec![(400.0, 400.0), (550.0, 520.0), (700.0, 700.0)];
    let mut d = Design::skeleton("Full", vec![axis], vec![vec![400.0], vec![700.0]]);
    let mut a = Glyph::new("a", &[0x61]);
    let mut b = Glyph::new("b", &[0x62]);
    for m in 0..2 {
        let w = 100.0 + 60.0 * m as f64;
        a.layers.insert(
            m,
            Layer {
                advance: 500.0 + w,
                contours: vec![shapes::rect(50.0, 0.0, 50.0 + w, 500.0)],
                anchors: vec![Anchor { name: "top".into(), x: 100.0 + w / 2.0, y: 500.0 }],
                ..Default::default()
            },
        );
        b.layers.insert(
            m,
            Layer {
                advance: 520.0 + w,
                components: vec![Component::at("a", 15.0 + 5.0 * m as f64, 0.0)],
                anchors: vec![Anchor { name: "top".into(), x: 120.0 + w / 2.0, y: 500.0 }],
                ..Default::default()
            },
        );
        let mm = &mut d.masters[m];
        mm.kerning.insert(("a".into(), "b".into()), -20.0 - 10.0 * m as f64);
        mm.kerning.insert(("public.kern1.A".into(), "public.kern2.B".into()), -12.0 - 6.0 * m as f64);
        mm.groups.insert("public.kern1.A".into(), vec!["a".into()]);
        mm.groups.insert("public.kern2.B".into(), vec!["b".into()]);
        mm.info.extra = vec![
            ("versionMajor".into(), Plist::Int(1)),
            ("versionMinor".into(), Plist::Int(5)),
            ("openTypeOS2TypoAscender".into(), Plist::Int(800)),
            ("openTypeOS2WeightClass".into(), Plist::Int(400 + 300 * m as i64)),
            ("openTypeNameDesigner".into(), Plist::s("nobody")),
        ];
    }
    d.glyphs = vec![a, b];
    d.glyph_order = Some(vec!["a".into(), "b".into()]);
    d.postscript_names.insert("a".into(), "a".into());
    d.categories.insert("a".into(), "base".into());
    d.features_fea = Some(FULL_FEA.into());
    d.lib_extra = vec![("org.example.number".into(), Plist::Real(1.5))];
    d.instances = vec![
        Instance { family: None, style: "Regular".into(), ps_name: Some("Full-Regular".into()), user_loc: vec![400.0] },
        Instance { family: None, style: "Bold".into(), ps_name: None, user_loc: vec![700.0] },
    ];
    d.rules = vec![Rule {
        name: "swap".into(),
        condition_sets: vec![vec![("Weight".into(), Some(600.0), Some(700.0))]],
        subs: vec![("a".into(), "b".into())],
    }];
    d
}

// ------------------------------------------------------------------ a tiny XML scanner

struct XmlElem {
    start: usize,
    end: usize,
    name: String,
}

#[derive(Default)]
struct XmlScan {
    elems: Vec<XmlElem>,
    /// byte spans of numeric attribute values and numeric leaf texts
    numbers: Vec<(usize, usize)>,
}

fn is_number(s: &str) -> bool {
    let t = s.strip_prefix('-').unwrap_or(s);
    let mut parts = t.splitn(2, '.');
    let int = parts.next().unwrap_or("");
    let frac = parts.next();
    !int.is_empty()
        && int.bytes().all(|c| c.is_ascii_digit())
        && frac.is_none_or(|f| !f.is_empty() && f.bytes().all(|c| c.is_ascii_digit()))
}

fn find_from(s: &str, from: usize, pat: &str) -> Option<usize> {
    s.get(from..)?.find(pat).map(|i| i + from)
}

/// Elements (start of the start tag .. end of the end tag) and numeric sites of a well-formed
/// document as written by dgen. Processing instructions, DOCTYPE and comments are skipped.
fn scan_xml(s: &str) -> XmlScan {
    let b = s.as_bytes();
    let mut out = XmlScan::default();
    // (start, name, content start, has child element)
    let mut stack: Vec<(usize, String, usize, bool)> = vec![];
    let mut i = 0;
    while i < b.len() {
        if b[i] != b'<' {
            i += 1;
            continue;
        }
        let rest = &s[i..];
        if rest.starts_with("<?") {
            i = find_from(s, i, "?>").map(|e| e + 2).unwrap_or(b.len());
            continue;
        }
        if rest.starts_with("<!--") {
            i = find_from(s, i, "-->").map(|e| e + 3).unwrap_or(b.len());
            continue;
        }
        if rest.starts_with("<!") {
            i = find_from(s, i, ">").map(|e| e + 1).unwrap_or(b.len());
            continue;
        }
        if rest.starts_with("</") {
            let close = find_from(s, i, ">").unwrap_or(b.len() - 1);
            if let Some((start, name, cstart, has_child)) = stack.pop() {
                if !has_child {
                    let text = &s[cstart..i];
                    let t = text.trim();
                    if is_number(t) {
                        let off = cstart + text.find(t).unwrap_or(0);
                        out.numbers.push((off, off + t.len()));
                    }
                }
                out.elems.push(XmlElem { start, end: close + 1, name });
            }
            if let Some(p) = stack.last_mut() {
                p.3 = true;
            }
            i = close + 1;
            continue;
        }
        // start tag
        let mut j = i + 1;
        while j < b.len() && !(b[j].is_ascii_whitespace() || b[j] == b'>' || b[j] == b'/') {
            j += 1;
        }
        let name = s[i + 1..j].to_string();
        let mut self_closing = false;
        while j < b.len() && b[j] != b'>' {
            if b[j] == b'"' || b[j] == b'\'' {
                let q = b[j];
                let vs = j + 1;
                let mut k = vs;
                while k < b.len() && b[k] != q {
                    k += 1;
                }
                if is_number(&s[vs..k.min(b.len())]) {
                    out.numbers.push((vs, k));
                }
                j = k + 1;
                continue;
            }
            self_closing = b[j] == b'/';
            j += 1;
        }
        let close = j.min(b.len() - 1);
        if let Some(p) = stack.last_mut() {
            p.3 = true;
        }
        if self_closing {
            out.elems.push(XmlElem { start: i, end: close + 1, name });
        } else {
            stack.push((i, name, close + 1, false));
        }
        i = close + 1;
    }
    out.elems.sort_by_key(|e| (e.start, std::cmp::Reverse(e.end)));
    out.numbers.sort();
    out
}

/// numeric tokens of a non-XML text file (features.fea)
fn scan_text_numbers(s: &str) -> Vec<(usize, usize)> {
    let b = s.as_bytes();
    let mut v = vec![];
    let mut i = 0;
    let word = |c: u8| c.is_ascii_alphanumeric() || c == b'_' || c == b'.' || c == b'-';
    while i < b.len() {
        if word(b[i]) {
            let st = i;
            while i < b.len() && word(b[i]) {
                i += 1;
            }
            if is_number(&s[st..i]) {
                v.push((st, i));
            }
        } else {
            i += 1;
        }
    }
    v
}

fn file_kind(rel: &str) -> String {
    let base = rel.rsplit('/').next().unwrap_or(rel);
    if base.ends_with(".glif") {
        "glif".into()
    } else if base.ends_with(".designspace") {
        "designspace".into()
    } else if rel.contains("/glyphs") && base == "contents.plist" {
        "contents.plist".into()
    } else {
        base.to_string()
    }
}

const NUMBER_VALUES: [&str; 7] = ["0", "-1", "65536", "1e30", "nan", "", "abc"];

// ------------------------------------------------------------------ class 2: structural faults

fn simple_case(
    class: &'static str,
    fault: String,
    site: String,
    base: &Arc<Base>,
    patch: Vec<Patch>,
    size: u32,
    note: String,
) -> Case {
    Case {
        class,
        fault,
        site,
        flagset: 0,
        base: base.clone(),
        patch,
        cost: 10,
        size,
        note,
        baseline_id: format!("{}:default", base.name),
        is_baseline: false,
    }
}

fn baseline_case(base: &Arc<Base>, flagset: usize) -> Case {
    Case {
        class: "baseline",
        fault: "none".into(),
        site: format!("{}:{}", base.name, FLAGSETS[flagset].0),
        flagset,
        base: base.clone(),
        patch: vec![],
        cost: 0,
        size: 0,
        note: "the unmodified base source".into(),
        baseline_id: format!("{}:{}", base.name, FLAGSETS[flagset].0),
        is_baseline: true,
    }
}

fn structural_cases(base: &Arc<Base>, out: &mut Vec<Case>) {
    for (rel, bytes) in &base.files {
        let text = String::from_utf8_lossy(bytes).into_owned();
        let fk = file_kind(rel);
        let is_xml = !rel.ends_with(".fea");
        let set = |t: String| vec![Patch::Set(rel.clone(), t.into_bytes())];
        let mut push = |fault: &str, site: String, patch: Vec<Patch>, size: u32, note: String| {
            out.push(simple_case("structural", format!("{fault}:{fk}"), format!("{rel}#{site}"), base, patch, size, note));
        };
        // whole-file faults
        push("delete-file", "file".into(), vec![Patch::Del(rel.clone())], 1, format!("{rel} removed"));
        push("empty-file", "file".into(), vec![Patch::Set(rel.clone(), vec![])], 1, format!("{rel} made empty"));
        for k in 1..16 {
            let cut = bytes.len() * k / 16;
            push(
                "truncate",
                format!("{k}/16"),
                vec![Patch::Set(rel.clone(), bytes[..cut].to_vec())],
                k as u32,
                format!("{rel} cut to {cut} of {} bytes", bytes.len()),
            );
        }
        let numbers = if is_xml {
            let scan = scan_xml(&text);
            for (ei, e) in scan.elems.iter().enumerate() {
                let el = &text[e.start..e.end];
                let mut del = text.clone();
                del.replace_range(e.start..e.end, "");
                let head: String = el.chars().take(60).collect::<String>().replace('\n', " ");
                push("delete-element", format!("e{ei}:{}", e.name), set(del), ei as u32, format!("element #{ei} `{head}` removed from {rel}"));
                let mut dup = text.clone();
                dup.insert_str(e.end, el);
                push("duplicate-element", format!("e{ei}:{}", e.name), set(dup), ei as u32, format!("element #{ei} `{head}` written twice in {rel}"));
            }
            scan.numbers
        } else {
            scan_text_numbers(&text)
        };
        for (ni, (s0, s1)) in numbers.iter().enumerate() {
            for v in NUMBER_VALUES {
                let mut t = text.clone();
                t.replace_range(*s0..*s1, v);
                let ctx_start = text[..*s0].rfind('\n').map(|x| x + 1).unwrap_or(0);
                let ctx_end = text[*s1..].find('\n').map(|x| x + *s1).unwrap_or(text.len());
                push(
                    &format!("number={}", if v.is_empty() { "empty" } else { v }),
                    format!("n{ni}@{s0}"),
                    set(t),
                    ni as u32,
                    format!("number `{}` in line `{}` of {rel} replaced by `{v}`", &text[*s0..*s1], text[ctx_start..ctx_end].trim()),
                );
            }
        }
    }
}

// ------------------------------------------------------------------ class 3: designspace faults

fn designspace_cases(base: &Arc<Base>, out: &mut Vec<Case>) {
    let full = full_design();
    let mut n = 0u32;
    let mut add = |fault: &str, variant: &str, patch: Vec<Patch>, note: &str| {
        n += 1;
        out.push(simple_case("designspace", fault.into(), variant.into(), base, patch, n, note.into()));
    };
    let ds = |d: &Design| vec![Patch::Set("design.designspace".into(), d.designspace_xml().into_bytes())];
    let text = full.designspace_xml();
    let txt = |from: &str, to: &str| -> Vec<Patch> {
        assert!(text.contains(from), "designspace text has no `{from}`");
        vec![Patch::Set("design.designspace".into(), text.replacen(from, to, 1).into_bytes())]
    };
    let with = |f: &dyn Fn(&mut Design)| {
        let mut d = full.clone();
        f(&mut d);
        d
    };
    // no default master
    add("no-default-master", "default-source-moved", ds(&with(&|d| d.masters[0].loc = vec![500.0])), "no source at the default location");
    add("no-default-master", "axis-default-moved", ds(&with(&|d| { d.axes[0].default = 500.0; d.axes[0].map.clear(); })), "axis default 500 has no source");
    // min > max
    add("axis-min-gt-max", "swapped", ds(&with(&|d| { d.axes[0].min = 700.0; d.axes[0].max = 400.0; d.axes[0].map.clear(); })), "minimum 700 maximum 400 default 400");
    add("axis-min-gt-max", "swapped-with-map", ds(&with(&|d| { d.axes[0].min = 700.0; d.axes[0].max = 400.0; })), "minimum 700 maximum 400 default 400, map kept");
    // zero extent
    add("zero-extent-axis", "two-sources", ds(&with(&|d| { d.axes[0].max = 400.0; d.axes[0].map.clear(); })), "min=default=max=400, sources at 400 and 700");
    add("zero-extent-axis", "both-sources-at-point", ds(&with(&|d| { d.axes[0].max = 400.0; d.axes[0].map.clear(); d.masters[1].loc = vec![400.0]; })), "min=default=max=400, both sources at 400");
    // default outside its range
    add("default-outside-range", "above", ds(&with(&|d| { d.axes[0].default = 900.0; d.axes[0].map.clear(); })), "default 900 of 400..700");
    add("default-outside-range", "below", ds(&with(&|d| { d.axes[0].default = 100.0; d.axes[0].map.clear(); })), "default 100 of 400..700");
    // duplicate axis tag / name
    let two_axes = |tag2: &str, name2: &str| {
        with(&|d| {
            d.axes.push(Axis::new(tag2, name2, 0.0, 0.0, 10.0));
            d.masters[0].loc = vec![400.0, 0.0];
            d.masters[1].loc = vec![700.0, 0.0];
            for i in d.instances.iter_mut() {
                i.user_loc.push(0.0);
            }
        })
    };
    add("duplicate-axis-tag", "wght-wght", ds(&two_axes("wght", "Weight2")), "two axes with tag wght");
    add("duplicate-axis-name", "Weight-Weight", ds(&two_axes("wdth", "Weight")), "two axes named Weight");
    add("duplicate-axis", "same-tag-and-name", ds(&two_axes("wght", "Weight")), "the axis element twice");
    add("axis-tag-malformed", "five-chars", txt("tag=\"wght\"", "tag=\"wghtx\""), "tag wghtx");
    add("axis-tag-malformed", "empty", txt("tag=\"wght\"", "tag=\"\""), "empty tag");
    add("axis-tag-malformed", "non-ascii", txt("tag=\"wght\"", "tag=\"wgh\u{e9}\""), "tag wghé");
    // sources
    add("source-outside-range", "above", ds(&with(&|d| d.masters[1].loc = vec![900.0])), "source at 900, axis 400..700");
    add("source-outside-range", "below", ds(&with(&|d| d.masters[1].loc = vec![100.0])), "source at 100, axis 400..700");
    add("missing-ufo", "default-source", txt("filename=\"M0.ufo\"", "filename=\"Missing.ufo\""), "default source file does not exist");
    add("missing-ufo", "other-source", txt("filename=\"M1.ufo\"", "filename=\"Missing.ufo\""), "second source file does not exist");
    add("missing-ufo", "filename-empty", txt("filename=\"M1.ufo\"", "filename=\"\""), "empty filename");
    add("missing-ufo", "filename-attribute-absent", txt("filename=\"M1.ufo\" ", ""), "source without filename");
    add("missing-ufo", "points-at-itself", txt("filename=\"M1.ufo\"", "filename=\"design.designspace\""), "source filename is the designspace itself");
    add("duplicate-source-location", "both-at-default", ds(&with(&|d| d.masters[1].loc = vec![400.0])), "two sources at 400");
    add("duplicate-source-location", "same-ufo-twice", txt("filename=\"M1.ufo\"", "filename=\"M0.ufo\""), "M0.ufo at 400 and 700");
    add("duplicate-source-location", "both-at-max", ds(&with(&|d| d.masters[0].loc = vec![700.0])), "two sources at 700");
    add("unknown-layer", "second-source", txt("stylename=\"M1\"", "stylename=\"M1\" layer=\"nope\""), "layer nope does not exist in M1.ufo");
    add("unknown-layer", "default-source", txt("stylename=\"Regular\"", "stylename=\"Regular\" layer=\"nope\""), "layer nope does not exist in M0.ufo");
    add("source-without-location", "second-source", txt("      <location>\n        <dimension name=\"Weight\" xvalue=\"700\"/>\n      </location>\n", ""), "second source has no location");
    add("dimension-unknown-axis", "second-source", txt("<dimension name=\"Weight\" xvalue=\"700\"/>", "<dimension name=\"Nope\" xvalue=\"700\"/>"), "dimension names an axis that does not exist");
    add("no-sources", "empty-element", ds(&with(&|d| d.masters.clear())), "<sources> is empty");
    add("no-sources", "one-source-on-an-axis", ds(&with(&|d| { d.masters.truncate(1); })), "a single source and an axis 400..700");
    add("no-axes", "two-sources", ds(&with(&|d| { d.axes.clear(); d.rules.clear(); })), "two sources, no axes");
    // rules
    add("rule-missing-glyph", "replacement-missing", ds(&with(&|d| d.rules[0].subs = vec![("a".into(), "zzz".into())])), "sub a with zzz");
    add("rule-missing-glyph", "input-missing", ds(&with(&|d| d.rules[0].subs = vec![("zzz".into(), "a".into())])), "sub zzz with a");
    add("rule-missing-glyph", "both-missing", ds(&with(&|d| d.rules[0].subs = vec![("yyy".into(), "zzz".into())])), "sub yyy with zzz");
    add("rule-unknown-axis", "condition", ds(&with(&|d| d.rules[0].condition_sets[0][0].0 = "Nope".into())), "condition on axis Nope");
    add("rule-degenerate", "min-gt-max", ds(&with(&|d| d.rules[0].condition_sets[0][0] = ("Weight".into(), Some(700.0), Some(600.0)))), "condition 700..600");
    add("rule-degenerate", "no-bounds", ds(&with(&|d| d.rules[0].condition_sets[0][0] = ("Weight".into(), None, None))), "condition without minimum and maximum");
    add("rule-degenerate", "no-conditions", ds(&with(&|d| d.rules[0].condition_sets = vec![vec![]])), "empty condition set");
    add("rule-degenerate", "self-substitution", ds(&with(&|d| d.rules[0].subs = vec![("a".into(), "a".into())])), "sub a with a");
    add("rule-degenerate", "swap-cycle", ds(&with(&|d| d.rules[0].subs = vec![("a".into(), "b".into()), ("b".into(), "a".into())])), "sub a with b and b with a");
    // maps
    add("map-not-monotone", "decreasing-outputs", ds(&with(&|d| d.axes[0].map = vec![(400.0, 400.0), (550.0, 600.0), (700.0, 500.0)])), "outputs 400 600 500");
    add("map-not-monotone", "all-outputs-equal", ds(&with(&|d| d.axes[0].map = vec![(400.0, 400.0), (550.0, 400.0), (700.0, 400.0)])), "outputs 400 400 400");
    add("map-not-monotone", "duplicate-input", ds(&with(&|d| d.axes[0].map = vec![(400.0, 400.0), (400.0, 500.0), (700.0, 700.0)])), "inputs 400 400 700");
    add("map-not-monotone", "inputs-unsorted", ds(&with(&|d| d.axes[0].map = vec![(700.0, 700.0), (400.0, 400.0), (550.0, 520.0)])), "inputs 700 400 550");
    add("map-incomplete", "single-node", ds(&with(&|d| d.axes[0].map = vec![(550.0, 520.0)])), "map has one node that is none of min/default/max");
    // instances
    add("instance-outside-range", "above", ds(&with(&|d| d.instances[1].user_loc = vec![900.0])), "instance at 900");
    add("instance-outside-range", "below", ds(&with(&|d| d.instances[0].user_loc = vec![-50.0])), "instance at -50");
    add("instance-degenerate", "duplicate-instances", ds(&with(&|d| { let i = d.instances[0].clone(); d.instances.push(i); })), "the same instance twice");
    add("instance-degenerate", "no-location", txt("      <location>\n        <dimension name=\"Weight\" xvalue=\"400\"/>\n      </location>\n    </instance>", "    </instance>"), "instance without location");
}

// ------------------------------------------------------------------ class 4: glif faults

fn replace_first_contour(glif: &str, contour: &str) -> String {
    if let (Some(s), Some(e)) = (glif.find("    <contour>"), glif.find("</contour>\n")) {
        let mut t = glif.to_string();
        t.replace_range(s..e + "</contour>\n".len(), contour);
        t
    } else if glif.contains("  <outline>\n") {
        glif.replacen("  <outline>\n", &format!("  <outline>\n{contour}"), 1)
    } else {
        glif.replacen("</glyph>", &format!("  <outline>\n{contour}  </outline>\n</glyph>"), 1)
    }
}

fn glif_cases(base: &Arc<Base>, out: &mut Vec<Case>) {
    let pt = |x: i32, y: i32, t: &str| {
        if t.is_empty() {
            format!("      <point x=\"{x}\" y=\"{y}\"/>\n")
        } else {
            format!("      <point x=\"{x}\" y=\"{y}\" type=\"{t}\"/>\n")
        }
    };
    let contour = |pts: &[(i32, i32, &str)]| {
        let mut s = String::from("    <contour>\n");
        for (x, y, t) in pts {
            s.push_str(&pt(*x, *y, t));
        }
        s.push_str("    </contour>\n");
        s
    };
    type F = Box<dyn Fn(&str) -> String>;
    let rep = |from: &'static str, to: &'static str| -> F { Box::new(move |g: &str| g.replacen(from, to, 1)) };
    let before_end = |ins: &'static str| -> F { Box::new(move |g: &str| g.replacen("</glyph>", &format!("{ins}</glyph>"), 1)) };
    let cont = |c: String| -> F { Box::new(move |g: &str| replace_first_contour(g, &c)) };
    let del_line = |pat: &'static str| -> F {
        Box::new(move |g: &str| g.lines().filter(|l| !l.contains(pat)).map(|l| format!("{l}\n")).collect())
    };
    let faults: Vec<(&str, &str, F)> = vec![
        ("unicode-surrogate", "D800", Box::new(|g: &str| g.replacen("<unicode hex=\"006", "<unicode hex=\"D80", 1))),
        ("unicode-too-big", "110000", Box::new(|g: &str| g.replacen("<unicode hex=\"00", "<unicode hex=\"1100", 1))),
        ("unicode-too-big", "FFFFFFFFF", Box::new(|g: &str| g.replacen("<unicode hex=\"00", "<unicode hex=\"FFFFFFF", 1))),
        ("unicode-malformed", "not-hex", Box::new(|g: &str| g.replacen("<unicode hex=\"00", "<unicode hex=\"zz", 1))),
        ("unicode-malformed", "negative", Box::new(|g: &str| g.replacen("<unicode hex=\"00", "<unicode hex=\"-", 1))),
        ("unicode-duplicate", "same-twice", Box::new(|g: &str| {
            let l = g.lines().find(|l| l.contains("<unicode")).unwrap_or("").to_string();
            g.replacen(&format!("{l}\n"), &format!("{l}\n{l}\n"), 1)
        })),
        ("missing-advance", "element-absent", del_line("<advance")),
        ("advance-malformed", "no-width", rep("<advance width=", "<advance height=")),
        ("open-contour", "move-line-line", cont(contour(&[(0, 0, "move"), (100, 0, "line"), (100, 100, "line")]))),
        ("open-contour", "single-move", cont(contour(&[(0, 0, "move")]))),
        ("open-contour", "move-then-offcurves", cont(contour(&[(0, 0, "move"), (50, 50, ""), (100, 0, "")]))),
        ("offcurve-only-contour", "four-points", cont(contour(&[(0, 0, ""), (100, 0, ""), (100, 100, ""), (0, 100, "")]))),
        ("offcurve-only-contour", "one-point", cont(contour(&[(0, 0, "")]))),
        ("zero-point-contour", "empty-contour", cont("    <contour>\n    </contour>\n".into())),
        ("one-point-contour", "line", cont(contour(&[(10, 10, "line")]))),
        ("one-point-contour", "curve", cont(contour(&[(10, 10, "curve")]))),
        ("one-point-contour", "qcurve", cont(contour(&[(10, 10, "qcurve")]))),
        ("two-point-contour", "line-line", cont(contour(&[(10, 10, "line"), (90, 90, "line")]))),
        ("too-many-offcurves", "three-before-curve", cont(contour(&[(0, 0, "line"), (10, 50, ""), (50, 90, ""), (90, 50, ""), (100, 0, "curve")]))),
        ("too-many-offcurves", "one-before-curve", cont(contour(&[(0, 0, "line"), (50, 90, ""), (100, 0, "curve"), (50, -50, "line")]))),
        ("offcurve-before-line", "dangling", cont(contour(&[(0, 0, "line"), (50, 90, ""), (100, 0, "line"), (50, -50, "line")]))),
        ("point-type-unknown", "bogus", cont(contour(&[(0, 0, "bogus"), (100, 0, "line"), (100, 100, "line")]))),
        ("duplicate-anchors", "same-name-same-place", Box::new(|g: &str| {
            let l = g.lines().find(|l| l.contains("<anchor")).unwrap_or("").to_string();
            g.replacen(&format!("{l}\n"), &format!("{l}\n{l}\n"), 1)
        })),
        ("duplicate-anchors", "same-name-other-place", Box::new(|g: &str| {
            let l = g.lines().find(|l| l.contains("<anchor")).unwrap_or("").to_string();
            g.replacen(&format!("{l}\n"), &format!("{l}\n  <anchor name=\"top\" x=\"1\" y=\"2\"/>\n"), 1)
        })),
        ("anchor-malformed", "no-name", rep("<anchor name=\"top\" ", "<anchor ")),
        ("anchor-malformed", "mark-anchor-nil-group", rep("<anchor name=\"top\"", "<anchor name=\"_\"")),
        ("anchor-malformed", "ligature-index-zero", rep("<anchor name=\"top\"", "<anchor name=\"top_0\"")),
        ("component-missing-glyph", "extra-component", Box::new(|g: &str| {
            if g.contains("</outline>") {
                g.replacen("  </outline>", "    <component base=\"nope\"/>\n  </outline>", 1)
            } else {
                g.replacen("</glyph>", "  <outline>\n    <component base=\"nope\"/>\n  </outline>\n</glyph>", 1)
            }
        })),
        ("component-missing-glyph", "only-component", Box::new(|g: &str| {
            let head: String = g.lines().take_while(|l| !l.contains("<outline")).map(|l| format!("{l}\n")).collect();
            format!("{head}  <outline>\n    <component base=\"nope\"/>\n  </outline>\n</glyph>\n")
        })),
        ("component-malformed", "no-base", Box::new(|g: &str| g.replacen("  </outline>", "    <component xOffset=\"3\"/>\n  </outline>", 1))),
        ("component-malformed", "empty-base", Box::new(|g: &str| g.replacen("  </outline>", "    <component base=\"\"/>\n  </outline>", 1))),
        ("component-degenerate", "zero-scale", rep("<component base=\"a\"", "<component base=\"a\" xScale=\"0\" yScale=\"0\"")),
        ("component-degenerate", "same-component-twice", Box::new(|g: &str| {
            let l = g.lines().find(|l| l.contains("<component")).unwrap_or("").to_string();
            g.replacen(&format!("{l}\n"), &format!("{l}\n{l}\n"), 1)
        })),
        ("glyph-name-mismatch", "other-name", rep("<glyph name=\"", "<glyph name=\"x")),
        ("glyph-name-mismatch", "empty-name", Box::new(|g: &str| {
            let s = g.find("<glyph name=\"").map(|i| i + 13).unwrap_or(0);
            let e = g[s..].find('"').map(|i| i + s).unwrap_or(s);
            let mut t = g.to_string();
            t.replace_range(s..e, "");
            t
        })),
        ("glif-format", "format-1", rep("format=\"2\"", "format=\"1\"")),
        ("glif-format", "format-3", rep("format=\"2\"", "format=\"3\"")),
        ("outline-twice", "two-outline-elements", before_end("  <outline>\n  </outline>\n")),
        ("lib-malformed", "lib-not-dict", before_end("  <lib>\n    <array/>\n  </lib>\n")),
    ];
    let mut n = 0u32;
    for (fault, variant, f) in &faults {
        for glyph in ["g0", "g1"] {
            for masters in [&["M0"][..], &["M1"], &["M0", "M1"]] {
                let mut patch = vec![];
                let mut changed = false;
                for m in masters {
                    let rel = format!("{m}.ufo/glyphs/{glyph}.glif");
                    let orig = String::from_utf8_lossy(&base.files[&rel]).into_owned();
                    let new = f(&orig);
                    changed |= new != orig;
                    patch.push(Patch::Set(rel, new.into_bytes()));
                }
                if !changed {
                    continue; // the fault has no site in this glyph (e.g. no anchor line)
                }
                n += 1;
                out.push(simple_case(
                    "glif",
                    fault.to_string(),
                    format!("{variant}:{glyph}:{}", masters.join("+")),
                    base,
                    patch,
                    n,
                    format!("{fault} ({variant}) in glyph {} of {}", if glyph == "g0" { "a" } else { "b" }, masters.join("+")),
                ));
            }
        }
    }
    // layer-contents faults
    for masters in [&["M0"][..], &["M1"], &["M0", "M1"]] {
        let mut p1 = vec![];
        let mut p2 = vec![];
        let mut p3 = vec![];
        let mut p4 = vec![];
        for m in masters {
            let rel = format!("{m}.ufo/glyphs/contents.plist");
            let orig = String::from_utf8_lossy(&base.files[&rel]).into_owned();
            p1.push(Patch::Set(rel.clone(), orig.replacen("</dict>", "  <key>zzz</key>\n    <string>zzz.glif</string>\n  </dict>", 1).into_bytes()));
            let g0 = base.files[&format!("{m}.ufo/glyphs/g0.glif")].clone();
            p2.push(Patch::Set(format!("{m}.ufo/glyphs/extra.glif"), String::from_utf8_lossy(&g0).replace("name=\"a\"", "name=\"extra\"").replace("0061", "0063").into_bytes()));
            p3.push(Patch::Set(rel.clone(), orig.replacen("g1.glif", "g0.glif", 1).into_bytes()));
            p4.push(Patch::Set(rel.clone(), orig.replacen("<string>g1.glif</string>", "<string>../../M0.ufo/glyphs/g0.glif</string>", 1).into_bytes()));
        }
        let ms = masters.join("+");
        n += 1;
        out.push(simple_case("glif", "contents-entry-without-file".into(), format!("zzz:{ms}"), base, p1, n, format!("contents.plist of {ms} lists zzz.glif which does not exist")));
        n += 1;
        out.push(simple_case("glif", "file-without-contents-entry".into(), format!("extra.glif:{ms}"), base, p2, n, format!("glyphs/extra.glif exists in {ms} but is not listed")));
        n += 1;
        out.push(simple_case("glif", "contents-two-names-one-file".into(), format!("g0.glif:{ms}"), base, p3, n, format!("a and b both map to g0.glif in {ms}")));
        n += 1;
        out.push(simple_case("glif", "contents-path-escapes-layer".into(), format!("dotdot:{ms}"), base, p4, n, format!("b maps to ../../M0.ufo/glyphs/g0.glif in {ms}")));
    }
}

// ------------------------------------------------------------------ class 5: FEA token soup / includes

/// The lexeme alphabet of DESIGN C13(a) (as implemented by the C13 check).
const LEXEMES: [&str; 28] = [
    "feature", "lookup", "sub", "by", "pos", "'", "[", "]", "{", "}", "(", ")", "<", ">", ";", ",",
    "=", "-", "@c", "\\a", "a", "a-b", "10", "-5", "1.5", "\"s\"", "#c\n", "include",
];

fn fea_base() -> Arc<Base> {
    let mut d = Design::static_font("Fea");
    for (i, n) in ["a", "b"].iter().enumerate() {
        let mut g = Glyph::new(n, &[0x61 + i as u32]);
        g.layers.insert(0, Layer { advance: 500.0, contours: vec![shapes::rect(50.0, 0.0, 150.0 + 10.0 * i as f64, 300.0)], ..Default::default() });
        d.glyphs.push(g);
    }
    d.features_fea = Some("languagesystem DFLT dflt;\n".into());
    design_tree(&d, false, "fea")
}

fn fea_cases(tier: Tier, base: &Arc<Base>, out: &mut Vec<Case>) {
    let max_len = tier.pick(2, 3);
    let k = LEXEMES.len();
    for len in 0..=max_len {
        for idx in 0..k.pow(len as u32) {
            let mut toks = vec![];
            let mut r = idx;
            for _ in 0..len {
                toks.push(LEXEMES[r % k]);
                r /= k;
            }
            toks.reverse();
            let body = toks.join(" ");
            for wrapped in [false, true] {
                // quick tier: inside a feature block only the sequences of <= 1 lexeme
                if wrapped && tier == Tier::Quick && len > 1 {
                    continue;
                }
                let text = if wrapped { format!("feature test {{\n{body}\n}} test;\n") } else { format!("{body}\n") };
                out.push(simple_case(
                    "fea-soup",
                    if wrapped { "tokens-in-feature-block".into() } else { "tokens-at-top-level".into() },
                    format!("len={len}:idx={idx}"),
                    base,
                    vec![Patch::Set("font.ufo/features.fea".into(), text.into_bytes())],
                    (len * 1000 + idx.min(999)) as u32,
                    format!("features.fea = {:?}", body),
                ));
            }
        }
    }
    // include faults
    let f = |name: &str, text: &str| Patch::Set(format!("font.ufo/{name}"), text.as_bytes().to_vec());
    let mut n = 0;
    let mut inc = |fault: &str, variant: &str, patch: Vec<Patch>, note: &str| {
        n += 1;
        out.push(simple_case("fea-include", fault.into(), variant.into(), base, patch, n, note.into()));
    };
    inc("include-self", "features.fea", vec![f("features.fea", "include(features.fea);\n")], "features.fea includes itself");
    inc("include-cycle", "two-files", vec![f("features.fea", "include(x.fea);\n"), f("x.fea", "include(features.fea);\n")], "features.fea -> x.fea -> features.fea");
    inc("include-cycle", "three-files", vec![f("features.fea", "include(x.fea);\n"), f("x.fea", "include(y.fea);\n"), f("y.fea", "include(x.fea);\n")], "features.fea -> x.fea -> y.fea -> x.fea");
    // every include digraph on features.fea + x.fea + y.fea (each file includes any subset of the three, itself
    // included): 512 graphs; the hand-listed cycles above are three of them
    for mask in 0u32..512 {
        let names = ["features.fea", "x.fea", "y.fea"];
        let body = |i: usize| -> String {
            (0..3).filter(|j| mask & (1 << (3 * i + j)) != 0).map(|j| format!("include({});\n", names[j])).collect::<String>() + "# end\n"
        };
        let edges: Vec<String> = (0..3).map(|i| format!("{}>{{{}}}", i, (0..3).filter(|j| mask & (1 << (3 * i + j)) != 0).map(|j| j.to_string()).collect::<Vec<_>>().join(","))).collect();
        inc(
            "include-graph",
            &edges.join(";"),
            vec![f("features.fea", &body(0)), f("x.fea", &body(1)), f("y.fea", &body(2))],
            "every include digraph on three files",
        );
    }
    inc("include-missing", "no-such-file", vec![f("features.fea", "include(nope.fea);\n")], "included file does not exist");
    inc("include-missing", "directory", vec![f("features.fea", "include(glyphs);\n")], "included path is a directory");
    inc("include-missing", "empty-path", vec![f("features.fea", "include();\n")], "include()");
    inc("include-missing", "absolute-nonexistent", vec![f("features.fea", "include(/nonexistent/x.fea);\n")], "absolute path that does not exist");
    for depth in [49usize, 50, 51, 200] {
        let mut p = vec![f("features.fea", "include(i0.fea);\n")];
        for i in 0..depth {
            p.push(f(&format!("i{i}.fea"), &format!("include(i{}.fea);\n", i + 1)));
        }
        p.push(f(&format!("i{depth}.fea"), "feature liga { sub a by b; } liga;\n"));
        inc("include-chain", &format!("depth={depth}"), p, "a chain of includes");
    }
    inc("include-binary", "nul-bytes", vec![Patch::Set("font.ufo/features.fea".into(), vec![0, 0, 0xff, 0xfe, 0, b'a'])], "features.fea holds binary bytes");
    inc("include-binary", "invalid-utf8", vec![Patch::Set("font.ufo/features.fea".into(), b"feature liga { sub a by b; } liga; # \xff\xfe\n".to_vec())], "features.fea is not UTF-8");
}

// ------------------------------------------------------------------ class 6: Glyphs-format text faults

fn glyphs_fixture(rel: &str) -> Arc<Base> {
    let p = Path::new(vcore::REPO).join("resources/testdata").join(rel);
    let bytes = std::fs::read(&p).unwrap_or_else(|e| vcore::machinery_error(&format!("fixture {p:?}: {e}")));
    let mut files = Tree::new();
    files.insert("font.glyphs".into(), bytes);
    Arc::new(Base { name: format!("fixture:{rel}"), entry: "font.glyphs".into(), files })
}

/// (key, start of the entry, end of the entry incl. `;` and newline) of the top-level dictionary
fn glyphs_top_level_entries(s: &str) -> Vec<(String, usize, usize)> {
    let b = s.as_bytes();
    let mut v = vec![];
    let mut depth = 0i32;
    let mut in_q = false;
    let mut entry_start: Option<usize> = None;
    let mut i = 0;
    while i < b.len() {
        let c = b[i];
        if in_q {
            if c == b'\\' {
                i += 1;
            } else if c == b'"' {
                in_q = false;
            }
        } else {
            match c {
                b'"' => in_q = true,
                b'{' | b'(' => depth += 1,
                b'}' | b')' => depth -= 1,
                b';' if depth == 1 => {
                    if let Some(st) = entry_start.take() {
                        let mut end = i + 1;
                        if b.get(end) == Some(&b'\n') {
                            end += 1;
                        }
                        let key = s[st..].split(|ch: char| ch == ' ' || ch == '=').next().unwrap_or("").to_string();
                        v.push((key, st, end));
                    }
                }
                _ => {}
            }
            if depth == 1 && entry_start.is_none() && !c.is_ascii_whitespace() && c != b'{' && c != b';' && c != b'}' && c != b')' {
                entry_start = Some(i);
            }
        }
        i += 1;
    }
    v
}

fn glyphs_text_cases(tier: Tier, out: &mut Vec<Case>) -> Vec<Arc<Base>> {
    let fixtures: Vec<&str> = tier.pick(
        vec!["glyphs3/WghtVar.glyphs"],
        vec!["glyphs3/WghtVar.glyphs", "glyphs2/WghtVar.glyphs", "glyphs3/NonExportWithBraceLayer.glyphs", "glyphs2/IntermediateLayer.glyphs"],
    );
    let mut bases = vec![];
    for fx in fixtures {
        let base = glyphs_fixture(fx);
        bases.push(base.clone());
        let bytes = base.files["font.glyphs"].clone();
        let text = String::from_utf8_lossy(&bytes).into_owned();
        let short = fx.replace(".glyphs", "");
        let set = |t: Vec<u8>| vec![Patch::Set("font.glyphs".into(), t)];
        let steps = tier.pick(8, 32);
        for k in 0..steps {
            let cut = bytes.len() * k / steps;
            out.push(simple_case("glyphs-text", "truncate".into(), format!("{short}:{k}/{steps}"), &base, set(bytes[..cut].to_vec()), k as u32, format!("{fx} cut to {cut} of {} bytes", bytes.len())));
        }
        for (i, (key, st, en)) in glyphs_top_level_entries(&text).into_iter().enumerate() {
            let mut t = text.clone();
            t.replace_range(st..en, "");
            out.push(simple_case("glyphs-text", "delete-top-level-key".into(), format!("{short}:{key}"), &base, set(t.into_bytes()), i as u32, format!("top-level key `{key}` removed from {fx}")));
        }
        // unbalanced delimiters: first / middle / last occurrence of each delimiter removed or doubled
        for (dn, d) in [("brace-open", '{'), ("brace-close", '}'), ("paren-open", '('), ("paren-close", ')'), ("quote", '"'), ("semicolon", ';'), ("equals", '=')] {
            let occ: Vec<usize> = text.match_indices(d).map(|(i, _)| i).collect();
            if occ.is_empty() {
                continue;
            }
            let mut picks = vec![(0usize, "first"), (occ.len() / 2, "middle"), (occ.len() - 1, "last")];
            picks.dedup_by_key(|p| p.0);
            for (oi, pos_name) in picks {
                let at = occ[oi];
                let mut t = text.clone();
                t.replace_range(at..at + 1, "");
                out.push(simple_case("glyphs-text", format!("unbalanced:{dn}-removed"), format!("{short}:{pos_name}@{at}"), &base, set(t.into_bytes()), at as u32, format!("{pos_name} `{d}` (byte {at}) removed from {fx}")));
                let mut t = text.clone();
                t.insert(at, d);
                out.push(simple_case("glyphs-text", format!("unbalanced:{dn}-doubled"), format!("{short}:{pos_name}@{at}"), &base, set(t.into_bytes()), at as u32, format!("{pos_name} `{d}` (byte {at}) doubled in {fx}")));
            }
        }
        // component retargeting (Glyphs 3 `ref = x;`, Glyphs 2 `name = x;` inside components)
        let names: Vec<String> = text
            .lines()
            .filter_map(|l| l.trim().strip_prefix("glyphname = "))
            .map(|v| v.trim_end_matches(';').to_string())
            .collect();
        let mut ref_sites: Vec<(usize, usize)> = vec![];
        {
            let (mut off, mut in_components) = (0usize, false);
            for l in text.split_inclusive('\n') {
                let t = l.trim_end();
                if t == "components = (" {
                    in_components = true;
                } else if t == ");" {
                    in_components = false;
                }
                let key = if t.starts_with("ref = ") { Some("ref = ") } else if in_components && t.starts_with("name = ") { Some("name = ") } else { None };
                if let (Some(k), true) = (key, t.ends_with(';')) {
                    ref_sites.push((off + k.len(), off + t.len() - 1));
                }
                off += l.len();
            }
        }
        for (ri, (vs, ve)) in ref_sites.into_iter().enumerate() {
            for nm in names.iter().map(String::as_str).chain(["nope"]) {
                if &text[vs..ve] == nm {
                    continue;
                }
                let mut t = text.clone();
                t.replace_range(vs..ve, nm);
                out.push(simple_case("glyphs-text", "component-retarget".into(), format!("{short}:ref{ri}->{nm}"), &base, set(t.into_bytes()), ri as u32, format!("component #{ri} `{}` of {fx} now refers to `{nm}`", &text[vs..ve])));
            }
        }
    }
    bases
}

// ------------------------------------------------------------------ class 7: deep nesting (runaway recursion)

fn nesting_cases(tier: Tier, full: &Arc<Base>, fea: &Arc<Base>, out: &mut Vec<Case>) {
    let glyphs = glyphs_fixture("glyphs3/WghtVar.glyphs");
    let gtext = String::from_utf8_lossy(&glyphs.files["font.glyphs"]).into_owned();
    let depths: Vec<usize> = tier.pick(vec![100, 100_000], vec![100, 3_000, 100_000, 1_000_000]);
    for &n in &depths {
        let mut add = |fault: &str, variant: &str, base: &Arc<Base>, patch: Vec<Patch>, note: String| {
            out.push(Case { cost: 20, ..simple_case("deep-nesting", fault.into(), format!("{variant}:depth={n}"), base, patch, (n / 100) as u32, note) });
        };
        // Glyphs: nested arrays / dictionaries as the value of an unknown top-level key, balanced and not
        for (nm, o, c) in [("glyphs-array", "(", ")"), ("glyphs-dict", "{x = ", ";}")] {
            let v = format!("{}1{}", o.repeat(n), c.repeat(n));
            let t = gtext.replacen("familyName = ", &format!("userData = {v};\nfamilyName = "), 1);
            add("glyphs-plist", &format!("{nm}-balanced"), &glyphs, vec![Patch::Set("font.glyphs".into(), t.into_bytes())], format!("userData = {n} nested {nm}"));
            let t = gtext.replacen("familyName = ", &format!("userData = {};\nfamilyName = ", o.repeat(n)), 1);
            add("glyphs-plist", &format!("{nm}-unclosed"), &glyphs, vec![Patch::Set("font.glyphs".into(), t.into_bytes())], format!("userData = {n} unclosed {nm}"));
        }
        // UFO lib.plist: nested <array>
        let lib = String::from_utf8_lossy(&full.files["M0.ufo/lib.plist"]).into_owned();
        let v = format!("{}<integer>1</integer>{}", "<array>".repeat(n), "</array>".repeat(n));
        let t = lib.replacen("<dict>\n", &format!("<dict>\n<key>deep</key>\n{v}\n"), 1);
        add("xml-plist", "lib.plist", full, vec![Patch::Set("M0.ufo/lib.plist".into(), t.clone().into_bytes()), Patch::Set("M1.ufo/lib.plist".into(), t.into_bytes())], format!("lib.plist holds {n} nested arrays"));
        // designspace lib
        let ds = String::from_utf8_lossy(&full.files["design.designspace"]).into_owned();
        let t = ds.replacen("</designspace>", &format!("  <lib>\n<dict>\n<key>deep</key>\n{v}\n</dict>\n  </lib>\n</designspace>"), 1);
        add("xml-plist", "designspace-lib", full, vec![Patch::Set("design.designspace".into(), t.into_bytes())], format!("designspace lib holds {n} nested arrays"));
        // glif: nested unknown elements / nested lib arrays
        let glif = String::from_utf8_lossy(&full.files["M0.ufo/glyphs/g0.glif"]).into_owned();
        let t = glif.replacen("</glyph>", &format!("  <lib>\n<dict>\n<key>deep</key>\n{v}\n</dict>\n  </lib>\n</glyph>"), 1);
        add("xml-plist", "glif-lib", full, vec![Patch::Set("M0.ufo/glyphs/g0.glif".into(), t.into_bytes())], format!("glif lib holds {n} nested arrays"));
        // FEA
        for (nm, text) in [
            ("fea-class", format!("@c = {}a{};\n", "[".repeat(n), "]".repeat(n))),
            ("fea-class-unclosed", format!("@c = {}a;\n", "[".repeat(n))),
            ("fea-parens", format!("feature liga {{ sub a by {}b{}; }} liga;\n", "(".repeat(n), ")".repeat(n))),
            // error recovery costs about 0.1 ms of CPU per unclosed block (measured: linear, 11 s at
            // 100 000), so the block constructs stop at 10 000 to stay far inside the CPU limit
            ("fea-braces", format!("{}\n", "feature liga {\n".repeat(n.min(10_000)))),
            ("fea-lookup-blocks", format!("feature liga {{ {} sub a by b; {} }} liga;\n", (0..n.min(10_000)).map(|i| format!("lookup l{i} {{\n")).collect::<String>(), (0..n.min(10_000)).rev().map(|i| format!("}} l{i};")).collect::<String>())),
            ("fea-angle", format!("feature kern {{ pos a {}1{}; }} kern;\n", "<".repeat(n), ">".repeat(n))),
        ] {
            add(nm, "features.fea", fea, vec![Patch::Set("font.ufo/features.fea".into(), text.into_bytes())], format!("features.fea with {n} nested {nm}"));
        }
    }
}

// ------------------------------------------------------------------ driver

struct ClassAgg {
    count: u64,
    min_size: u32,
    what: String,
    case_idx: usize,
    kind: String,
}

fn vkey(c: &Case, k: &Kind) -> String {
    let flags = FLAGSETS[c.flagset].0;
    if c.class == "component-graph" {
        format!("{}:{}:flags={}", c.fault, k.name(), flags)
    } else if c.class == "structural" && c.fault.starts_with("number=") {
        // one key per file kind, whatever the replacement value (it is in the description)
        format!("{}:{}:number:{}", k.name(), c.class, c.fault.split(':').nth(1).unwrap_or(""))
    } else {
        format!("{}:{}:{}", k.name(), c.class, c.fault)
    }
}

/// scratch directory names removed from a diagnostic
fn strip_scratch(s: &str) -> String {
    let mut out = String::new();
    let mut rest = s;
    while let Some(i) = rest.find("/dev/shm/verif-") {
        out.push_str(&rest[..i]);
        let tail = &rest[i..];
        match tail.find("/src") {
            Some(j) => {
                out.push_str("<src>");
                rest = &tail[j + 4..];
            }
            None => {
                out.push_str("<scratch>");
                rest = &tail["/dev/shm/verif-".len()..];
            }
        }
    }
    out.push_str(rest);
    out
}

fn run_case(c: &Case, lim: Limits) -> Outcome {
    run_tree(&c.tree(), &c.base.entry, &c.flags(), lim)
}

fn main() {
    let args = vcore::parse_args();
    if let Some(p) = &args.replay {
        replay(p);
    }
    let mut rep = Reporter::new("C15", "fault_enumeration", &args);
    if !vcore::fontc_bin().is_file() {
        vcore::machinery_error(&format!("product binary {:?} is missing (run ./check C15 …)", vcore::fontc_bin()));
    }
    let t0 = Instant::now();
    let tier = args.tier;
    let deadline_s: f64 = std::env::var("C15_DEADLINE_S").ok().and_then(|s| s.parse().ok()).unwrap_or(tier.pick(240.0, 3000.0) * vcore::budget_scale());
    let two_phase = std::env::var("C15_SINGLE_PHASE").is_err();
    let first = if two_phase { FIRST } else { FULL };

    // ---- generate
    let mut cases: Vec<Case> = vec![];
    let only: Option<String> = args.rest.first().cloned();
    let want = |c: &str| only.as_deref().is_none_or(|o| o.split(',').any(|x| x == c));
    let full = design_tree(&full_design(), true, "full");
    let fea = fea_base();
    let mut bases = vec![];
    if want("component-graph") {
        graph_cases(tier, &mut cases);
    }
    if want("structural") {
        structural_cases(&full, &mut cases);
        bases.push(full.clone());
    }
    if want("designspace") {
        designspace_cases(&full, &mut cases);
        bases.push(full.clone());
    }
    if want("glif") {
        glif_cases(&full, &mut cases);
        bases.push(full.clone());
    }
    if want("fea-soup") {
        fea_cases(tier, &fea, &mut cases);
        bases.push(fea.clone());
    }
    if want("glyphs-text") {
        bases.extend(glyphs_text_cases(tier, &mut cases));
    }
    if want("deep-nesting") {
        nesting_cases(tier, &full, &fea, &mut cases);
        bases.push(full.clone());
        bases.push(fea.clone());
        bases.push(glyphs_fixture("glyphs3/WghtVar.glyphs"));
    }
    let mut seen = BTreeSet::new();
    for b in &bases {
        if seen.insert(b.name.clone()) {
            cases.push(baseline_case(b, 0));
        }
    }
    cases.sort_by_key(|c| c.cost);
    {
        // sites must be distinct within (class, fault, flag set)
        let mut ids = BTreeSet::new();
        for c in &cases {
            if !ids.insert((c.class, c.fault.clone(), c.site.clone(), c.flagset)) {
                vcore::machinery_error(&format!("duplicate case id {} {} {}", c.class, c.fault, c.site));
            }
        }
    }
    eprintln!("[C15] {} cases generated in {:.1}s", cases.len(), t0.elapsed().as_secs_f64());
    if std::env::var("C15_COUNT_ONLY").is_ok() {
        let mut n: BTreeMap<(&str, usize), usize> = BTreeMap::new();
        for c in &cases {
            *n.entry((c.class, c.flagset)).or_default() += 1;
        }
        for ((class, fs), k) in n {
            println!("{class:18} {:18} {k}", FLAGSETS[fs].0);
        }
        vcore::cleanup_scratch();
        std::process::exit(0);
    }

    // ---- phase 1: every case, short limit
    let mut results: Vec<Option<Outcome>> = vcore::par_for(cases.len(), JOBS, |i| {
        if t0.elapsed().as_secs_f64() > deadline_s {
            return None;
        }
        Some(run_case(&cases[i], first))
    });
    eprintln!("[C15] phase 1 done at {:.1}s", t0.elapsed().as_secs_f64());

    // ---- phase 2: cases over the short limit are judged at the full limit
    // A group (one violation key) of at most SMALL_GROUP cases is re-run completely. Of a larger
    // group the `confirm` smallest cases are re-run with the FULL limits. If all of them
    // still do not finish, the rest of the group keeps its phase-1 verdict (counted as hang with
    // the limit it was observed at); if any finishes, the whole group is re-run with FULL.
    let confirm = tier.pick(1usize, 3usize);
    let mut groups: BTreeMap<String, Vec<usize>> = BTreeMap::new();
    for (i, r) in results.iter().enumerate() {
        if let Some(o) = r {
            if o.kind == Kind::Hang && two_phase {
                groups.entry(vkey(&cases[i], &Kind::Hang)).or_default().push(i);
            }
        }
    }
    let phase1_timeouts: usize = groups.values().map(|g| g.len()).sum();
    let mut rerun: Vec<usize> = vec![];
    let take = |len: usize| if len <= SMALL_GROUP { len } else { confirm };
    for g in groups.values_mut() {
        g.sort_by_key(|i| cases[*i].size);
        rerun.extend(g.iter().take(take(g.len())));
    }
    let redo = vcore::par_for(rerun.len(), JOBS, |k| run_case(&cases[rerun[k]], FULL));
    let mut confirmed_full: BTreeSet<usize> = BTreeSet::new();
    let mut cleared = 0usize;
    let mut second: Vec<usize> = vec![];
    {
        let mut by_idx: BTreeMap<usize, Outcome> = rerun.iter().cloned().zip(redo).collect();
        for g in groups.values() {
            let head: Vec<usize> = g.iter().take(take(g.len())).cloned().collect();
            let all_hang = head.iter().all(|i| by_idx[i].kind == Kind::Hang);
            for i in &head {
                let o = by_idx.remove(i).unwrap();
                if o.kind == Kind::Hang {
                    confirmed_full.insert(*i);
                } else {
                    cleared += 1;
                }
                results[*i] = Some(o);
            }
            if !all_hang {
                second.extend(g.iter().skip(take(g.len())));
            }
        }
    }
    let redo2 = vcore::par_for(second.len(), JOBS, |k| run_case(&cases[second[k]], FULL));
    for (i, o) in second.iter().zip(redo2) {
        if o.kind == Kind::Hang {
            confirmed_full.insert(*i);
        } else {
            cleared += 1;
        }
        results[*i] = Some(o);
    }
    eprintln!(
        "[C15] phase 2 done at {:.1}s: {} over {:?}, {} re-run with {:?}, {} of them finished",
        t0.elapsed().as_secs_f64(), phase1_timeouts, first, rerun.len() + second.len(), FULL, cleared
    );

    // ---- baselines
    let mut baseline: BTreeMap<String, u64> = BTreeMap::new();
    for (c, r) in cases.iter().zip(&results) {
        if c.is_baseline {
            match r {
                Some(Outcome { kind: Kind::OkFont, font_hash: Some(h), .. }) => {
                    baseline.insert(c.baseline_id.clone(), *h);
                }
                Some(o) if c.class == "baseline" => vcore::machinery_error(&format!(
                    "the unmodified base source {} does not compile cleanly: {} {}", c.site, o.kind.name(), o.detail
                )),
                _ => {}
            }
        }
    }

    // ---- aggregate
    let mut by_class: BTreeMap<String, BTreeMap<String, u64>> = BTreeMap::new();
    let mut by_kind: BTreeMap<String, u64> = BTreeMap::new();
    let mut felt: BTreeMap<String, (u64, u64)> = BTreeMap::new(); // class -> (felt, total)
    let mut viol: BTreeMap<String, ClassAgg> = BTreeMap::new();
    let mut panics: BTreeMap<String, u64> = BTreeMap::new();
    let mut errors: BTreeMap<String, BTreeMap<String, u64>> = BTreeMap::new();
    let mut samples: Vec<Value> = vec![];
    let mut sample_classes: BTreeMap<(String, String), u32> = BTreeMap::new();
    let (mut panics_reported, mut skipped, mut evaluations, mut unfelt_no_baseline) = (0u64, 0u64, 0u64, 0u64);
    let mut slowest: (u64, String) = (0, String::new());
    let mut cyclic_ok: Vec<String> = vec![];
    for (i, (c, r)) in cases.iter().zip(&results).enumerate() {
        let Some(o) = r else {
            skipped += 1;
            continue;
        };
        evaluations += 1;
        if c.class == "baseline" {
            continue;
        }
        *by_class.entry(c.class.into()).or_default().entry(o.kind.name()).or_default() += 1;
        *by_kind.entry(o.kind.name()).or_default() += 1;
        let f = felt.entry(c.class.into()).or_default();
        f.1 += 1;
        let is_felt = match (&o.kind, o.font_hash, baseline.get(&c.baseline_id)) {
            (Kind::OkFont, Some(h), Some(b)) => h != *b,
            (Kind::OkFont, _, None) => {
                unfelt_no_baseline += 1;
                false
            }
            _ => true,
        };
        if is_felt {
            f.0 += 1;
        }
        if o.kind == Kind::ReportedPanic {
            panics_reported += 1;
        }
        if c.fault == "component-cycle" && o.kind == Kind::OkFont {
            cyclic_ok.push(format!("{} flags={}", c.site, FLAGSETS[c.flagset].0));
        }
        if let Some(m) = &o.panic_msg {
            *panics.entry(format!("[{} / {}] {m}", c.class, c.fault)).or_default() += 1;
        }
        if o.kind == Kind::CleanError || o.kind == Kind::UsageError {
            // the diagnostic without time stamp and thread id
            let msg = o.detail.split("] ").nth(1).unwrap_or(&o.detail);
            let msg: String = strip_scratch(msg).chars().take(90).collect();
            let e = errors.entry(c.class.into()).or_default();
            if e.len() < 40 || e.contains_key(&msg) {
                *e.entry(msg).or_default() += 1;
            }
        }
        let sc = sample_classes.entry((c.class.to_string(), o.kind.name())).or_default();
        if *sc < 2 {
            *sc += 1;
            samples.push(json!({"class": c.class, "fault": c.fault, "site": c.site, "flags": FLAGSETS[c.flagset].0,
                "note": c.note, "outcome": o.kind.name(), "felt": is_felt, "detail": o.detail, "ms": o.wall_ms}));
        }
        if !o.kind.is_violation() && o.wall_ms > slowest.0 {
            slowest = (o.wall_ms, format!("{} {} {}", c.class, c.fault, c.site));
        }
        if o.kind.is_violation() {
            let key = vkey(c, &o.kind);
            let limit = if o.kind == Kind::Hang && !confirmed_full.contains(&i) && two_phase { first } else { FULL };
            let what = format!(
                "{} / {} at {} ({}; flags {}): {}{}",
                c.class, c.fault, c.site, c.note, FLAGSETS[c.flagset].0, o.detail,
                if o.kind == Kind::Hang { format!(" [limits {limit:?}]") } else { String::new() }
            );
            let e = viol.entry(key).or_insert(ClassAgg { count: 0, min_size: u32::MAX, what: String::new(), case_idx: i, kind: o.kind.name() });
            e.count += 1;
            // the minimal example of a hang class must be one confirmed at the full limit
            let eligible = o.kind != Kind::Hang || limit == FULL;
            if eligible && c.size < e.min_size {
                e.min_size = c.size;
                e.what = what;
                e.case_idx = i;
            }
        }
    }
    for (key, a) in &viol {
        let c = &cases[a.case_idx];
        rep.violation(
            key,
            &format!("{} [{} case(s) in this class; minimal example shown]", a.what, a.count),
            c.replay(a.count, &a.kind),
        );
    }
    let nontrivial: u64 = felt.values().map(|f| f.0).sum();
    let mut by_fault: BTreeMap<String, BTreeMap<String, u64>> = BTreeMap::new();
    for c in cases.iter().filter(|c| c.class != "baseline") {
        // structural faults carry the file kind after a colon; count per fault proper
        let f = if c.class == "structural" { c.fault.split(':').next().unwrap_or("").split('=').next().unwrap_or("").to_string() } else { c.fault.clone() };
        *by_fault.entry(c.class.into()).or_default().entry(f).or_default() += 1;
    }
    rep.set("cases_by_class_and_fault", json!(by_fault));
    rep.set("font_oracle", if USES_OTREF { "basic_sanity + otref::check_font" } else { "basic_sanity only (built without feature ev-ref)" });
    rep.set("evaluations", evaluations + (rerun.len() + second.len()) as u64);
    rep.set("cases_generated", cases.len());
    rep.set("cases_skipped_by_deadline", skipped);
    rep.set("deadline_s", deadline_s);
    rep.set("exhaustive", skipped == 0);
    rep.set("distinct_nontrivial", nontrivial);
    rep.set(
        "rule",
        "a case (fault class, fault, site, flag set) counts as nontrivial when the fault was felt: the run did not end in \
         a valid font, or the font differs byte-for-byte from the font of the unmodified base source under the same flags \
         (component graphs: from the edgeless graph on the same glyphs)",
    );
    rep.set("felt_by_class", json!(felt.iter().map(|(k, (a, b))| (k.clone(), json!({"felt": a, "cases": b}))).collect::<BTreeMap<_, _>>()));
    rep.set("ok_fonts_without_baseline_to_compare", unfelt_no_baseline);
    rep.set("cyclic_component_graphs_that_gave_a_valid_font", json!({"count": cyclic_ok.len(), "first": cyclic_ok.iter().take(20).collect::<Vec<_>>()}));
    rep.set("outcomes_by_class", json!(by_class));
    rep.set("outcomes_by_kind", json!(by_kind));
    rep.set("panics_reported_as_errors", panics_reported);
    rep.set("panic_messages", json!(panics));
    rep.set("distinct_diagnostics_by_class", json!(errors.iter().map(|(k, v)| (k.clone(), v.len())).collect::<BTreeMap<_, _>>()));
    rep.set("diagnostic_samples", json!(errors.iter().map(|(k, v)| (k.clone(), v.iter().take(12).map(|(m, n)| format!("{n}x {m}")).collect::<Vec<_>>())).collect::<BTreeMap<_, _>>()));
    rep.set("samples", json!(samples));
    rep.set("slowest_non_violating_run_ms", json!({"ms": slowest.0, "case": slowest.1}));
    rep.set(
        "hang_policy",
        json!({"first_limits": format!("{first:?}"), "full_limits": format!("{FULL:?}"), "over_first_limit": phase1_timeouts,
               "rerun_at_full_limit": rerun.len() + second.len(), "finished_on_rerun": cleared,
               "confirmed_at_full_limit": confirmed_full.len(),
               "text": "limits are on CPU time of the process (RLIMIT_CPU) with a wall-clock backstop; every case runs with the first limits; the cases over them are grouped by violation key; a group of <= 16 cases is re-run completely \
                        with the full limits; of a larger group the smallest case(s) are re-run and, if one of them finishes, the whole group; \
                        otherwise the remaining members keep their first-limit verdict (they may include runs that would have crashed a little later)"}),
    );
    rep.set("mem_cap_bytes", MEM_CAP);
    let cpu = unsafe {
        let mut ru: libc::rusage = std::mem::zeroed();
        libc::getrusage(libc::RUSAGE_CHILDREN, &mut ru);
        ru.ru_utime.tv_sec as f64 + ru.ru_stime.tv_sec as f64 + (ru.ru_utime.tv_usec + ru.ru_stime.tv_usec) as f64 / 1e6
    };
    rep.set("children_cpu_s", (cpu * 10.0).round() / 10.0);
    rep.assume("a diagnostic that reports a caught panic ('A task panicked: …') with exit status 1 and no font is a reported failure, not a violation; such runs are counted in panics_reported_as_errors");
    rep.assume("exit status 2 (command line rejected by clap) with a diagnostic and no font is a clean failure");
    rep.assume("whether a given malformed input must be rejected or may be tolerated (repaired, ignored) is not fixed by the property; only crash, hang, silent failure, leftover font and a structurally unsound font are judged");
    rep.assume("the product binary runs with RAYON_NUM_THREADS=2 (16 cases side by side); crash / hang / exit-status outcomes do not depend on the pool width");
    rep.finish();
}

fn replay(p: &Path) -> ! {
    let v: Value = std::fs::read_to_string(p)
        .ok()
        .and_then(|s| serde_json::from_str(&s).ok())
        .unwrap_or_else(|| vcore::machinery_error(&format!("cannot read replay file {p:?}")));
    let r = v.get("replay").unwrap_or(&v);
    let mut tree = Tree::new();
    for (k, f) in r["files"].as_object().cloned().unwrap_or_default() {
        let bytes = match &f {
            Value::String(s) => s.clone().into_bytes(),
            other => other["bytes"]
                .as_array()
                .map(|a| a.iter().map(|b| b.as_u64().unwrap_or(0) as u8).collect())
                .unwrap_or_default(),
        };
        tree.insert(k, bytes);
    }
    let entry = r["entry"].as_str().unwrap_or("font.ufo").to_string();
    let flags: Vec<String> = r["flags"]
        .as_array()
        .map(|a| a.iter().filter_map(|s| s.as_str().map(String::from)).collect())
        .unwrap_or_default();
    println!(
        "replaying {} / {} at {} with flags {:?} ({} files)",
        r["class"], r["fault"], r["site"], flags, tree.len()
    );
    let o = run_tree(&tree, &entry, &flags, FULL);
    println!("outcome: {} after {} ms — {}", o.kind.name(), o.wall_ms, o.detail);
    vcore::cleanup_scratch();
    if o.kind.is_violation() {
        println!("still a violation of C15");
        std::process::exit(1)
    }
    println!("no violation");
    std::process::exit(0)
}
