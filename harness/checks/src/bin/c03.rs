//! C03 — outlines at every master location reproduce that master's drawing.
//!
//! Bounded-exhaustive: every master-location set of a small normalized grid (see `spaces`), every
//! glyph kind x perturbation family, every sparseness pattern (a glyph per subset of the masters
//! that contains the default), with or without one glyph-only layer master. Each design is written
//! by dgen, compiled in process, and the font is instantiated with `otvar` at the location of
//! every master at which a glyph has a drawing of its own. The expectation is computed from the
//! `Design` alone.
//!
//! Further dimensions of the space:
//!  * units per em 1000 / 2048 / 4096 (the drawings scaled by upem/1000 to half units): simple kinds,
//!    the families in which IUP infers deltas (and all-move). The bound below does NOT scale with
//!    the em: rounding is to whole font units and the IUP tolerance is half a font unit whatever
//!    the em is; only the cu2qu tolerance (upem/1000) and the sampling allowance of the cubic
//!    comparison do.
//!  * source route: every design that the Glyphs format can express (`glyphs_unrepresentable()` is
//!    empty) is ALSO compiled from its Glyphs 3 twin (layer masters = brace layers of their host
//!    master) and judged by the same oracle against the same `Design`; where a brace layer sits on
//!    its host master's position on the trailing axes, a third font is compiled from the spelling
//!    that lists only the leading coordinates (an axis a brace layer does not list comes from the
//!    associated master: glyphs2fontir `process_layer` starts from the associated master's location
//!    and overrides the listed axes). Layer masters hosted by a NON-default master that is off the
//!    default on the omitted axis are enumerated (`hosted_layer_candidates`).
//!  * composites whose component 2x2 differs between the masters in exactly one coefficient (xx,
//!    xy, yx, yy) or in all four, from the identity or from a general 2x2 at the default: such a
//!    glyph cannot stay a composite (glyf holds one 2x2, gvar varies offsets only); the expected
//!    outline at each master is the source's own resolution of that master (the base's drawing
//!    at that master under that master's 2x2 + offset), compared like a simple glyph. All numbers
//!    are dyadic, so the transformed coordinates are exact whatever the order of operations.
//!    A sparse glyph whose masters all share the 2x2 stays a composite with that (F2Dot14-exact) 2x2.
//!
//! Bounds (per coordinate, font vs `ot_round(source)`):
//!  * default master: exact;
//!  * another master L, simple glyph with line/quadratic segments:
//!    0.5 + 0.5 * sum(|scalar| of the gvar tuples active at L that leave the point to IUP inference)
//!    (fontc rounds every master's coordinates to integers, computes each master's delta as
//!    round(value - sum of earlier contributions) so the reconstruction at a master is off by one
//!    rounding = 0.5; IUP optimisation may replace a tuple's delta of a point by an inferred one
//!    within its tolerance 0.5, which enters scaled by that tuple's scalar; a point that a tuple
//!    references explicitly carries its exact delta there. This is never larger than the
//!    statement's 0.5 + 0.5 * sum of all active scalars);
//!  * component offsets: 0.5 (composites get no IUP);
//!  * an on-curve point that the compiler left implied (legal when it is the midpoint of its two
//!    off-curve neighbours in every master) is compared through the midpoint of the instantiated
//!    neighbours against the unrounded source point with the bound above + 0.5 (the midpoint of two
//!    rounded neighbours is within 0.5 of the source point);
//!  * cubic sources: symmetric sampled Hausdorff distance (Euclidean) between the instantiated
//!    quadratic outline and the master's cubic outline <= upem/1000 (cu2qu tolerance, Euclidean)
//!    + sqrt(2) * (0.5 [master rounding] + bound above, 0 at the default) + sampling allowance;
//!    against the master's own static build: twice the cu2qu tolerance (two independent
//!    conversions) + sqrt(2) * (1 + bound above).

use dgen::{Axis, Component, Contour, Design, Glyph, Layer, Pt, PtKind, ot_round, shapes};
use otvar::{InstKind, VFont};
use serde::{Deserialize, Serialize};
use serde_json::{Value, json};
use std::collections::{BTreeMap, BTreeSet};
use vcore::{Reporter, Tier};

// ------------------------------------------------------------------------------------------ space

#[derive(Clone, Copy, Debug, PartialEq, Eq, Serialize, Deserialize)]
enum Kind {
    Line,
    Quadratic,
    Cubic,
    Composite,
    Nested,
    /// composites whose component 2x2 differs between the masters in exactly one coefficient
    /// (UFO xScale / xyScale / yxScale / yScale), or in all four
    XfXX,
    XfXY,
    XfYX,
    XfYY,
    XfAll,
}

impl Kind {
    const ALL: [Kind; 5] = [Kind::Line, Kind::Quadratic, Kind::Cubic, Kind::Composite, Kind::Nested];
    const XFORM: [Kind; 5] = [Kind::XfXX, Kind::XfXY, Kind::XfYX, Kind::XfYY, Kind::XfAll];
    fn name(self) -> &'static str {
        match self {
            Kind::Line => "line",
            Kind::Quadratic => "quadratic",
            Kind::Cubic => "cubic",
            Kind::Composite => "composite",
            Kind::Nested => "nested",
            Kind::XfXX => "xform-xx",
            Kind::XfXY => "xform-xy",
            Kind::XfYX => "xform-yx",
            Kind::XfYY => "xform-yy",
            Kind::XfAll => "xform-all",
        }
    }
    /// which of the four 2x2 coefficients (xform order xx xy yx yy) vary between the masters
    fn varying(self) -> [bool; 4] {
        match self {
            Kind::XfXX => [true, false, false, false],
            Kind::XfXY => [false, true, false, false],
            Kind::XfYX => [false, false, true, false],
            Kind::XfYY => [false, false, false, true],
            Kind::XfAll => [true; 4],
            _ => [false; 4],
        }
    }
}

#[derive(Clone, Copy, Debug, PartialEq, Eq, Serialize, Deserialize)]
enum Fam {
    /// every point moves by a master-dependent amount (with .5 fractions)
    AllMove,
    /// the first half of every contour is static, the rest shifts rigidly (IUP can infer)
    SomeStatic,
    /// only the second contour moves
    OneContour,
    /// every master is an affine image (scale + shift) of the default: IUP infers most deltas,
    /// with fractional inferred values inside its tolerance
    Scale,
    /// the boundary of the IUP tolerance: every master is a rigid whole-unit shift of the default,
    /// except that every other point moves one unit further in x, by an amount chosen so that in
    /// EVERY gvar tuple of the glyph (masters on the {-1,0,1} grid) the delta of such a point is
    /// exactly one unit off what IUP would infer from its neighbours: with the tolerance 0.5 no
    /// delta may be left to inference, and a compiler that infers them anyway is off by one unit
    /// per active tuple. Whole-unit shifts are applied after the scaling to the em, so this holds
    /// at every upem.
    Ripple,
}

impl Fam {
    const ALL: [Fam; 5] = [Fam::AllMove, Fam::SomeStatic, Fam::OneContour, Fam::Scale, Fam::Ripple];
    fn name(self) -> &'static str {
        match self {
            Fam::Ripple => "ripple",
            Fam::AllMove => "all-move",
            Fam::SomeStatic => "some-static",
            Fam::OneContour => "one-contour",
            Fam::Scale => "scale",
        }
    }
}

/// Normalized coordinates are held in quarter units: -4 = -1.0, 1 = 0.25, 2 = 0.5, 4 = 1.0.
type QLoc = Vec<i8>;

#[derive(Clone, Debug, Serialize, Deserialize)]
struct Case {
    n: usize,
    /// full masters, origin first
    locs: Vec<QLoc>,
    /// glyph-only layer masters (hosted by the default master's UFO)
    layers: Vec<QLoc>,
    kind: Kind,
    fam: Fam,
    keep_direction: bool,
    /// axis 0 has a non-linear user->design map (the font gets an avar)
    mapped: bool,
    /// units per em; the drawings are the 1000-upem drawings scaled by upem/1000 (to half units)
    #[serde(default = "upem_1000")]
    upem: u32,
    /// host (index into `locs`) of every glyph-only layer master; empty = all in the default master
    #[serde(default)]
    layer_hosts: Vec<usize>,
    /// xform kinds: 0 = the component 2x2 is the identity at the default master, 1 = a general one
    #[serde(default)]
    xbase: u8,
}

fn upem_1000() -> u32 {
    1000
}

impl Case {
    fn label(&self) -> String {
        let f = |l: &QLoc| l.iter().map(|q| format!("{}", *q as f64 / 4.0)).collect::<Vec<_>>().join(",");
        format!(
            "n{} masters[{}]{} {} {}{}{}{}{}",
            self.n,
            self.locs.iter().map(f).collect::<Vec<_>>().join(" | "),
            self.layers
                .iter()
                .enumerate()
                .map(|(i, l)| match self.layer_hosts.get(i) {
                    Some(h) if *h != 0 => format!(" layer[{}]@master{h}", f(l)),
                    _ => format!(" layer[{}]", f(l)),
                })
                .collect::<String>(),
            self.kind.name(),
            self.fam.name(),
            if self.keep_direction { " keep-direction" } else { "" },
            if self.mapped { " mapped-axis" } else { "" },
            if self.upem != 1000 { format!(" upem{}", self.upem) } else { String::new() },
            if self.xbase != 0 { " general-base-2x2" } else { "" }
        )
    }
}

impl Case {
    /// the sub-space a case belongs to
    fn sub(&self) -> &'static str {
        if self.upem != 1000 {
            "upem"
        } else if self.kind.varying().iter().any(|v| *v) {
            "xform"
        } else if !self.layer_hosts.is_empty() {
            "hosted"
        } else {
            "base"
        }
    }
    /// Can the Glyphs format say this design (axis extremes at full masters, no skewed component
    /// 2x2), and is there a brace layer that may leave out trailing coordinates? Computed from the
    /// case alone (for `--count`); the run itself asks dgen (`routes_of`) and insists on agreement.
    fn glyphs_routes(&self) -> (bool, bool) {
        let all: Vec<&QLoc> = self.locs.iter().chain(self.layers.iter()).collect();
        let extremes = (0..self.n).all(|a| {
            (!all.iter().any(|l| l[a] > 0) || self.locs.iter().any(|l| l[a] == 4)) && (!all.iter().any(|l| l[a] < 0) || self.locs.iter().any(|l| l[a] == -4))
        });
        let v = self.kind.varying();
        let skewed = v[1] || v[2] || (v.iter().any(|b| *b) && self.xbase != 0);
        let ok = extremes && !skewed;
        let partial = ok
            && self.n >= 2
            && self.layers.iter().enumerate().any(|(i, l)| l[self.n - 1] == self.locs[self.layer_hosts.get(i).copied().unwrap_or(0)][self.n - 1]);
        (ok, partial)
    }
    /// (glyph, master) comparisons of one font of the case: the cost proxy of `--count`
    fn comparisons(&self) -> u64 {
        let nm = (self.locs.len() + self.layers.len()) as u64;
        let sparse = (1u64 << (nm - 1)) * (nm + 1) / 2;
        match self.kind {
            Kind::Line | Kind::Quadratic | Kind::Cubic => sparse,
            Kind::Composite => sparse + 4 * nm + 2,
            Kind::Nested => sparse + 4 * nm,
            _ => sparse + 3 * nm,
        }
    }
}

fn grid(n: usize) -> Vec<QLoc> {
    // {-1,0,1}^n minus the origin, plus (0.5,0,...)
    let mut pts = vec![];
    let total = 3usize.pow(n as u32);
    for code in 0..total {
        let mut c = code;
        let mut p = vec![0i8; n];
        for a in p.iter_mut() {
            *a = [0i8, 4, -4][c % 3];
            c /= 3;
        }
        if p.iter().any(|v| *v != 0) {
            pts.push(p);
        }
    }
    let mut half = vec![0i8; n];
    half[0] = 2;
    pts.push(half);
    pts.sort();
    pts
}

fn permutations(n: usize) -> Vec<Vec<usize>> {
    fn rec(cur: &mut Vec<usize>, n: usize, out: &mut Vec<Vec<usize>>) {
        if cur.len() == n {
            out.push(cur.clone());
            return;
        }
        for i in 0..n {
            if !cur.contains(&i) {
                cur.push(i);
                rec(cur, n, out);
                cur.pop();
            }
        }
    }
    let mut out = vec![];
    rec(&mut vec![], n, &mut out);
    out
}

/// All sets of non-origin grid points with 1..=max_extra members that give every axis an extent,
/// one representative per axis-permutation class (a permutation that moves the point (0.5,0,..)
/// off the grid is not a symmetry of the space).
fn location_sets(n: usize, max_extra: usize) -> Vec<Vec<QLoc>> {
    let g = grid(n);
    let perms = permutations(n);
    let mut out = vec![];
    fn rec(g: &[QLoc], start: usize, cur: &mut Vec<QLoc>, max: usize, f: &mut dyn FnMut(&[QLoc])) {
        if !cur.is_empty() {
            f(cur);
        }
        if cur.len() == max {
            return;
        }
        for i in start..g.len() {
            cur.push(g[i].clone());
            rec(g, i + 1, cur, max, f);
            cur.pop();
        }
    }
    let mut emit = |set: &[QLoc]| {
        if !(0..n).all(|a| set.iter().any(|p| p[a] != 0)) {
            return;
        }
        let mut me: Vec<QLoc> = set.to_vec();
        me.sort();
        for perm in &perms {
            let mut img: Vec<QLoc> = set.iter().map(|p| (0..n).map(|a| p[perm[a]]).collect()).collect();
            if img.iter().any(|p| p.iter().any(|v| *v == 2) && p[0] != 2) {
                continue;
            }
            img.sort();
            if img < me {
                return;
            }
        }
        out.push(me);
    };
    rec(&g, 0, &mut vec![], max_extra, &mut emit);
    // small sets first (a time cap, if it is ever hit, cuts the largest sets)
    out.sort_by_key(|s| s.len());
    out
}

/// candidate sets of glyph-only layer masters
fn layer_candidates(n: usize, set: &[QLoc]) -> Vec<Vec<QLoc>> {
    let mut c: Vec<Vec<QLoc>> = vec![];
    let mut half = vec![0i8; n];
    half[0] = 2;
    if !set.contains(&half) {
        c.push(vec![half]);
    } else {
        let mut q = vec![0i8; n];
        q[0] = 1;
        c.push(vec![q]);
    }
    if n >= 2 {
        // off the grid lines: the earlier masters' regions have fractional scalars here, so the
        // delta of this master is a genuinely rounded number
        let mut hh = vec![0i8; n];
        hh[0] = 2;
        hh[1] = 2;
        c.push(vec![hh.clone()]);
        // two off-grid layer masters, one inside the other's region: the second one's delta
        // depends on the first one's ROUNDED delta with a fractional weight
        let mut qh = vec![0i8; n];
        qh[0] = 1;
        qh[1] = 2;
        c.push(vec![hh, qh]);
    }
    c
}

/// Glyph-only layer masters kept in the UFO (Glyphs: attached to the master) of a NON-default full
/// master that is off the default on some later axis: the layer master keeps the host's position
/// on the later axes and moves on axis 0 alone — what a Glyphs brace layer that lists only its
/// leading coordinates says. (layer location, host index into `locs`)
fn hosted_layer_candidates(n: usize, locs: &[QLoc]) -> Vec<(QLoc, usize)> {
    let mut out = vec![];
    if n < 2 {
        return out;
    }
    for (h, host) in locs.iter().enumerate().skip(1) {
        if host[1..].iter().all(|v| *v == 0) {
            continue;
        }
        for x in [2i8, -2, 0] {
            let in_extent = match x {
                2 => locs.iter().any(|l| l[0] > 0),
                -2 => locs.iter().any(|l| l[0] < 0),
                _ => true,
            };
            let mut l = host.clone();
            l[0] = x;
            if in_extent && !locs.contains(&l) {
                out.push((l, h));
            }
        }
    }
    out
}

const UPEMS: [u32; 2] = [2048, 4096];

fn spaces(tier: Tier) -> (Vec<Case>, Vec<Value>) {
    let mut cases = vec![];
    let mut notes = vec![];
    let dims: Vec<(usize, usize)> = match tier {
        // (axes, max masters incl. default)
        Tier::Quick => vec![(1, 4), (2, 4)],
        Tier::Thorough => vec![(1, 4), (2, 6), (3, 5)],
    };
    let two_layer_max = tier.pick(3, 4);
    for (n, max_masters) in dims {
        let sets = location_sets(n, max_masters - 1);
        let before = cases.len();
        let (mut n_upem, mut n_xform, mut n_hosted) = (0usize, 0usize, 0usize);
        for set in &sets {
            let mut locs = vec![vec![0i8; n]];
            locs.extend(set.iter().cloned());
            let mut layers: Vec<Vec<QLoc>> = vec![vec![]];
            layers.extend(layer_candidates(n, set));
            let has_pos0 = set.iter().any(|p| p[0] > 0);
            let mk = |layers: &Vec<QLoc>, kind: Kind, fam: Fam| Case {
                n,
                locs: locs.clone(),
                layers: layers.clone(),
                kind,
                fam,
                keep_direction: false,
                mapped: false,
                upem: 1000,
                layer_hosts: vec![],
                xbase: 0,
            };
            for kind in Kind::ALL {
                for fam in Fam::ALL {
                    if fam == Fam::Ripple && n == 3 && locs.len() > 4 {
                        continue; // the largest 3-axis sets: the four older families
                    }
                    for (li, layer) in layers.iter().enumerate() {
                        if layer.len() == 2 && locs.len() > two_layer_max {
                            continue; // the two-layer option stays with the small sets
                        }
                        if n == 3 && locs.len() == 5 && li > 1 {
                            continue; // the largest 3-axis sets: no layer master / the on-axis one
                        }
                        cases.push(mk(layer, kind, fam));
                    }
                    // keep-direction: the sub-space of small sets without a layer master
                    if locs.len() <= 3 {
                        cases.push(Case { keep_direction: true, ..mk(&vec![], kind, fam) });
                    }
                }
                // a non-linear axis map (avar): line and composite glyphs, all-move family
                if has_pos0 && locs.len() <= 3 && matches!(kind, Kind::Line | Kind::Composite) {
                    for layer in &layers[..2] {
                        cases.push(Case { mapped: true, ..mk(layer, kind, Fam::AllMove) });
                    }
                }
            }
            // the largest sets of thorough stay with the 1000-upem / identity-2x2 / default-host space
            let small = (n <= 2 && locs.len() <= 5) || locs.len() <= 3;
            let small_upem = small || (n == 3 && locs.len() <= 4);
            // units per em: the simple kinds with the families in which IUP infers deltas
            // (and the all-move family: every delta explicit), no layer master / the first one
            if small_upem {
                for upem in UPEMS {
                    for kind in [Kind::Line, Kind::Quadratic, Kind::Cubic] {
                        for fam in [Fam::SomeStatic, Fam::Scale, Fam::Ripple, Fam::AllMove] {
                            for layer in &layers[..2] {
                                cases.push(Case { upem, ..mk(layer, kind, fam) });
                                n_upem += 1;
                            }
                        }
                    }
                }
            }
            // component 2x2 varying between the masters in one coefficient / in all; dyadic
            // drawings only (the three displacement families), so that the transformed
            // coordinates are exact in binary floating point whatever the order of operations
            if small {
                for kind in Kind::XFORM {
                    for fam in [Fam::AllMove, Fam::SomeStatic, Fam::OneContour] {
                        for xbase in [0u8, 1] {
                            for layer in &layers[..2] {
                                cases.push(Case { xbase, ..mk(layer, kind, fam) });
                                n_xform += 1;
                            }
                        }
                    }
                }
            }
            // a layer master hosted by a non-default master
            if small {
                for (l, h) in hosted_layer_candidates(n, &locs) {
                    for kind in Kind::ALL {
                        for fam in [Fam::AllMove, Fam::Scale] {
                            cases.push(Case { layer_hosts: vec![h], ..mk(&vec![l.clone()], kind, fam) });
                            n_hosted += 1;
                        }
                    }
                }
            }
        }
        notes.push(json!({
            "axes": n, "max_masters": max_masters, "location_sets": sets.len(), "designs": cases.len() - before,
            "of_which_upem_2048_4096": n_upem, "of_which_varying_component_2x2": n_xform,
            "of_which_layer_master_hosted_by_a_non_default_master": n_hosted,
        }));
    }
    (cases, notes)
}

// ------------------------------------------------------------------------------------- generation

const TAGS: [(&str, &str); 3] = [("wght", "Weight"), ("wdth", "Width"), ("opsz", "Optical")];

fn q_to_design(q: i8) -> f64 {
    400.0 + 75.0 * q as f64
}

#[derive(Clone, Copy, PartialEq)]
enum Shape {
    Line,
    Quad,
    Cubic,
}

fn pt(x: f64, y: f64, kind: PtKind) -> Pt {
    Pt { x, y, kind }
}

fn base_shape(s: Shape) -> Vec<Contour> {
    match s {
        Shape::Line => vec![
            // a triangle with .5 fractions (one negative) in the default master
            shapes::line_contour(&[(-30.5, 0.0), (450.5, 0.0), (250.0, 400.5)]),
            // a 12-gon: enough points for a sparse (IUP) gvar encoding to be the smaller one
            shapes::line_contour(&[
                (620.0, 160.0),
                (612.0, 205.0),
                (590.0, 238.0),
                (560.0, 250.5),
                (530.0, 238.0),
                (508.0, 205.0),
                (500.0, 160.0),
                (508.0, 115.0),
                (530.0, 82.0),
                (560.0, 70.0),
                (590.0, 82.0),
                (612.0, 115.0),
            ]),
        ],
        Shape::Quad => vec![
            // on/off alternating; every on-curve point is the midpoint of its neighbours in the default
            shapes::quad_blob(300.0, 300.0, 200.0),
            // starts with two off-curve points (implied on-curve point in the source), one line
            Contour {
                points: vec![
                    pt(600.0, 50.0, PtKind::Off),
                    pt(700.0, 50.0, PtKind::Off),
                    pt(700.0, 150.0, PtKind::QCurve),
                    pt(600.0, 150.5, PtKind::Line),
                ],
            },
        ],
        Shape::Cubic => vec![
            shapes::cubic_blob(300.0, 300.0, 200.0),
            Contour {
                points: vec![
                    pt(700.0, 100.0, PtKind::Curve),
                    pt(600.0, 100.0, PtKind::Line),
                    pt(600.0, 160.0, PtKind::Off),
                    pt(640.0, 200.0, PtKind::Off),
                    pt(700.0, 200.5, PtKind::Curve),
                ],
            },
        ],
    }
}

const TBL: [f64; 8] = [-14.0, 9.5, 23.0, -6.5, 0.0, 17.0, -21.5, 4.0];

fn disp(fam: Fam, c: usize, i: usize, npts: usize, m: usize) -> (f64, f64) {
    if m == 0 {
        return (0.0, 0.0);
    }
    let all = (TBL[(3 * i + 5 * m + c) % 8] + 10.0 * m as f64, TBL[(5 * i + 3 * m + 2 * c + 1) % 8]);
    match fam {
        Fam::AllMove => all,
        Fam::SomeStatic => {
            if i < npts.div_ceil(2) {
                (0.0, 0.0)
            } else {
                (12.0 * m as f64 + 0.5 * (m % 2) as f64, -7.0 * m as f64)
            }
        }
        Fam::OneContour => {
            if c == 0 {
                (0.0, 0.0)
            } else {
                all
            }
        }
        Fam::Scale | Fam::Ripple => unreachable!(),
    }
}

/// Ripple family: the extra x movement of the odd points at master `m` of a glyph drawn on the
/// masters `on` (indices into `locs`): 1 + the number of the glyph's other non-default masters
/// whose location agrees with `m`'s on every axis where it is not 0 (on the {-1,0,1} grid those
/// are the masters whose tuples are active at `m` with scalar 1, each contributing its own unit).
fn ripple_extra(locs: &[&QLoc], on: &[usize], m: usize) -> f64 {
    if m == 0 {
        return 0.0;
    }
    let below = on
        .iter()
        .filter(|&&j| j != 0 && j != m && locs[j].iter().zip(locs[m].iter()).all(|(a, b)| *a == 0 || a == b))
        .count();
    1.0 + below as f64
}

/// A 1000-upem coordinate in the em of the case: unchanged at 1000 upem, else scaled by upem/1000
/// and taken to the nearest half unit (so that .5 fractions, the rounding boundary, keep occurring
/// and every source coordinate is exact in binary).
fn em(v: f64, scale: f64) -> f64 {
    if scale == 1.0 { v } else { (v * scale * 2.0).round() / 2.0 }
}

fn drawing(s: Shape, fam: Fam, m: usize, scale: f64, ripple: f64) -> Vec<Contour> {
    base_shape(s)
        .iter()
        .enumerate()
        .map(|(c, ct)| {
            let n = ct.points.len();
            shapes::map_contour(ct, |i, x, y| {
                if fam == Fam::Ripple {
                    let k = m as f64 * scale.ceil();
                    return (em(x, scale) + 16.0 * k + if i % 2 == 1 { ripple } else { 0.0 }, em(y, scale) - 9.0 * k);
                }
                if fam == Fam::Scale {
                    let k = m as f64;
                    return (
                        em(x * (1.0 + 0.03 * k) + if m > 0 { 7.0 * k + 0.5 } else { 0.0 }, scale),
                        em(y * (1.0 - 0.02 * k) - 4.0 * k, scale),
                    );
                }
                let (dx, dy) = disp(fam, c, i, n, m);
                (em(x + dx, scale), em(y + dy, scale))
            })
        })
        .collect()
}

fn off1(m: usize) -> (f64, f64) {
    (100.0 + 13.5 * m as f64, 20.5 - 7.0 * m as f64)
}
fn off2(m: usize) -> (f64, f64) {
    (-40.5 + TBL[(3 * m) % 8], 300.0 + TBL[(5 * m + 1) % 8])
}
fn off3(m: usize) -> (f64, f64) {
    (10.0 + 5.5 * m as f64, -3.0 * m as f64)
}

/// The 2x2 (xform order: xx xy yx yy) of the varying component at master `m`: the base matrix,
/// with the varying coefficients moved by a master-dependent dyadic amount. Every third master
/// keeps the default's matrix (a sparse glyph on the default and such masters only has a
/// consistent 2x2 and stays a composite). All values stay inside (-2, 2) and are multiples of 1/32.
fn xform_2x2(kind: Kind, xbase: u8, m: usize) -> [f64; 4] {
    let base = if xbase == 0 { [1.0, 0.0, 0.0, 1.0] } else { [1.25, 0.25, -0.125, 0.75] };
    const STEP: [f64; 4] = [0.0625, 0.0625, -0.03125, 0.125];
    let w = if m % 3 == 2 { 0.0 } else { m as f64 };
    let v = kind.varying();
    std::array::from_fn(|i| base[i] + if v[i] { STEP[i] * w } else { 0.0 })
}

fn build(case: &Case) -> (Design, fcx::Opts) {
    let n = case.n;
    let all_locs: Vec<&QLoc> = case.locs.iter().chain(case.layers.iter()).collect();
    let mut axes = vec![];
    for a in 0..n {
        let has_pos = all_locs.iter().any(|l| l[a] > 0);
        let has_neg = all_locs.iter().any(|l| l[a] < 0);
        let (tag, name) = TAGS[a];
        let mut ax = Axis::new(tag, name, if has_neg { 100.0 } else { 400.0 }, 400.0, if has_pos { 700.0 } else { 400.0 });
        if a == 0 && case.mapped {
            // user 400..500..800 -> design 400..550..700 : normalized 0.25 -> 0.5 (F2Dot14-exact)
            ax.max = 800.0;
            ax.map = vec![(400.0, 400.0), (500.0, 550.0), (800.0, 700.0)];
            if has_neg {
                ax.map.insert(0, (100.0, 100.0));
            }
        }
        axes.push(ax);
    }
    let dloc = |l: &QLoc| -> Vec<f64> { l.iter().map(|q| q_to_design(*q)).collect() };
    let mut d = Design::skeleton("C03", axes, case.locs.iter().map(dloc).collect());
    assert_eq!(d.default_master, 0);
    d.upem = case.upem;
    let scale = case.upem as f64 / 1000.0;
    if scale != 1.0 {
        for m in d.masters.iter_mut() {
            m.info.ascender = em(m.info.ascender, scale);
            m.info.descender = em(m.info.descender, scale);
            m.info.x_height = em(m.info.x_height, scale);
            m.info.cap_height = em(m.info.cap_height, scale);
        }
    }
    for (i, l) in case.layers.iter().enumerate() {
        d.add_layer_master(case.layer_hosts.get(i).copied().unwrap_or(0), dloc(l));
    }
    let nm = d.masters.len();
    let simple = |name: &str, s: Shape, on: &[usize]| -> Glyph {
        let mut g = Glyph::new(name, &[]);
        for &m in on {
            let ripple = ripple_extra(&all_locs, on, m);
            g.layers.insert(m, Layer { advance: em(800.0 + 10.0 * m as f64, scale), contours: drawing(s, case.fam, m, scale, ripple), ..Default::default() });
        }
        g
    };
    let composite = |name: &str, on: &[usize], comps: &dyn Fn(usize) -> Vec<Component>| -> Glyph {
        let mut g = Glyph::new(name, &[]);
        for &m in on {
            let mut c = comps(m);
            for k in c.iter_mut() {
                k.xform[4] = em(k.xform[4], scale);
                k.xform[5] = em(k.xform[5], scale);
            }
            g.layers.insert(m, Layer { advance: em(800.0 + 10.0 * m as f64, scale), components: c, ..Default::default() });
        }
        g
    };
    let all: Vec<usize> = (0..nm).collect();
    let subsets: Vec<(usize, Vec<usize>)> = (0..1usize << (nm - 1))
        .map(|mask| (mask, std::iter::once(0).chain((1..nm).filter(|m| mask >> (m - 1) & 1 == 1)).collect()))
        .collect();
    let bases = ["Btri", "Bquad", "Bcub"];
    match case.kind {
        Kind::Line | Kind::Quadratic | Kind::Cubic => {
            let s = match case.kind {
                Kind::Line => Shape::Line,
                Kind::Quadratic => Shape::Quad,
                _ => Shape::Cubic,
            };
            for (mask, on) in &subsets {
                d.glyphs.push(simple(&format!("s{mask}"), s, on));
            }
        }
        Kind::Composite => {
            d.glyphs.push(simple("Btri", Shape::Line, &all));
            d.glyphs.push(simple("Bquad", Shape::Quad, &all));
            d.glyphs.push(simple("Bcub", Shape::Cubic, &all));
            // a sparse base used by a composite that is defined everywhere
            d.glyphs.push(simple("Bsp", Shape::Line, &[0, nm - 1]));
            d.glyphs.push(composite("Csp", &all, &|m| {
                let (x, y) = off1(m);
                vec![Component::at("Bsp", x, y)]
            }));
            for (mask, on) in &subsets {
                let (b1, b2) = (bases[mask % 3], bases[(mask + 1) % 3]);
                d.glyphs.push(composite(&format!("s{mask}"), on, &|m| {
                    let ((x1, y1), (x2, y2)) = (off1(m), off2(m));
                    vec![Component::at(b1, x1, y1), Component::at(b2, x2, y2)]
                }));
            }
        }
        Kind::XfXX | Kind::XfXY | Kind::XfYX | Kind::XfYY | Kind::XfAll => {
            d.glyphs.push(simple("Btri", Shape::Line, &all));
            d.glyphs.push(simple("Bquad", Shape::Quad, &all));
            d.glyphs.push(simple("Bcub", Shape::Cubic, &all));
            for (mask, on) in &subsets {
                // (a cubic contour makes the whole glyph a curve comparison: only with the cubic base)
                let (b1, b2) = (bases[mask % 3], ["Bquad", "Btri", "Btri"][mask % 3]);
                d.glyphs.push(composite(&format!("s{mask}"), on, &|m| {
                    let ((x1, y1), (x2, y2)) = (off1(m), off2(m));
                    let [xx, xy, yx, yy] = xform_2x2(case.kind, case.xbase, m);
                    let mut v = vec![Component { base: b1.into(), xform: [xx, xy, yx, yy, x1, y1] }];
                    // every other glyph: a second component with the identity 2x2
                    if mask % 2 == 1 {
                        v.push(Component::at(b2, x2, y2));
                    }
                    v
                }));
            }
        }
        Kind::Nested => {
            d.glyphs.push(simple("Btri", Shape::Line, &all));
            d.glyphs.push(simple("Bquad", Shape::Quad, &all));
            d.glyphs.push(simple("Bcub", Shape::Cubic, &all));
            d.glyphs.push(composite("Cmid", &all, &|m| {
                let ((x1, y1), (x2, y2)) = (off1(m), off2(m));
                vec![Component::at("Btri", x1, y1), Component::at("Bquad", x2, y2)]
            }));
            for (mask, on) in &subsets {
                d.glyphs.push(composite(&format!("s{mask}"), on, &|m| {
                    let ((x1, y1), (x2, y2)) = (off3(m), off1(m));
                    vec![Component::at("Cmid", x1, y1), Component::at("Bcub", x2, y2)]
                }));
            }
        }
    }
    d.glyphs[0].codepoints = vec![0x41];
    d.glyph_order = Some(d.glyphs.iter().map(|g| g.name.clone()).collect());
    let opts = fcx::Opts { keep_direction: case.keep_direction, ..Default::default() };
    (d, opts)
}

// ----------------------------------------------------------------------------------------- oracle

#[derive(Clone, Copy, Debug)]
struct EP {
    x: f64,
    y: f64,
    on: bool,
}

fn is_cubic_contour(c: &Contour) -> bool {
    c.points.iter().any(|p| p.kind == PtKind::Curve)
}

/// The closed source contour as the cyclic point sequence a TrueType outline holds: the source
/// points, plus the implied on-curve point between two consecutive off-curve points of a qcurve
/// segment; reversed when the compiler reverses directions. `None` for what is not enumerated
/// (open contours, cubic segments).
fn expected_contour(c: &Contour, reverse: bool) -> Option<Vec<EP>> {
    let n = c.points.len();
    if n == 0 || c.points.iter().any(|p| matches!(p.kind, PtKind::Move | PtKind::Curve)) {
        return None;
    }
    let mut out = vec![];
    for i in 0..n {
        let p = &c.points[i];
        let q = &c.points[(i + 1) % n];
        out.push(EP { x: p.x, y: p.y, on: p.kind != PtKind::Off });
        if p.kind == PtKind::Off && q.kind == PtKind::Off && n > 1 {
            out.push(EP { x: (p.x + q.x) / 2.0, y: (p.y + q.y) / 2.0, on: true });
        }
    }
    if reverse {
        out.reverse();
    }
    Some(out)
}

#[derive(Clone, Copy, Debug, PartialEq)]
enum Slot {
    /// font point index
    Kept(usize),
    /// left implied between these two font points
    Dropped(usize, usize),
}

/// Every way the font contour (flags only) is the expected cyclic sequence with some on-curve
/// points, each flanked by two off-curve points, left out: (rotation, slot of expected index
/// (rotation + t) % n for t = 0..n).
fn correspondences(exp: &[EP], font: &[otvar::Pt]) -> Vec<(usize, Vec<Slot>)> {
    let n = exp.len();
    let m = font.len();
    let mut out = vec![];
    if m == 0 || n < m {
        return out;
    }
    let deletable = |k: usize| exp[k].on && !exp[(k + n - 1) % n].on && !exp[(k + 1) % n].on;
    'rot: for r in 0..n {
        let mut j = 0usize;
        let mut slots = Vec::with_capacity(n);
        for t in 0..n {
            let k = (r + t) % n;
            if j < m && exp[k].on == font[j].on {
                slots.push(Slot::Kept(j));
                j += 1;
            } else if t > 0 && deletable(k) {
                slots.push(Slot::Dropped(j - 1, j % m));
            } else {
                continue 'rot;
            }
        }
        if j == m {
            out.push((r, slots));
        }
    }
    out
}

#[derive(Clone, Debug, Default)]
struct Worst {
    /// largest err - bound (positive = failure)
    excess: f64,
    err: f64,
    bound: f64,
    what: String,
    /// largest err / bound seen where bound > 0 (tightness)
    ratio: f64,
    max_err: f64,
    dropped: usize,
}

/// Compare one contour at one master through a correspondence.
fn eval_contour(exp: &[EP], font: &[otvar::Pt], rot: usize, slots: &[Slot], pb: &[f64], w: &mut Worst, tag: &str) {
    let n = exp.len();
    for (t, s) in slots.iter().enumerate() {
        let e = &exp[(rot + t) % n];
        let (fx, fy, ex, ey, b, how) = match *s {
            Slot::Kept(j) => (font[j].x, font[j].y, ot_round(e.x), ot_round(e.y), pb[j], "point"),
            Slot::Dropped(a, c) => {
                w.dropped += 1;
                ((font[a].x + font[c].x) / 2.0, (font[a].y + font[c].y) / 2.0, e.x, e.y, pb[a].max(pb[c]) + 0.5, "implied on-curve point")
            }
        };
        let err = (fx - ex).abs().max((fy - ey).abs());
        if b > 0.0 {
            w.ratio = w.ratio.max(err / b);
        }
        w.max_err = w.max_err.max(err);
        if err > b && (w.what.is_empty() || err - b > w.excess) {
            w.excess = err - b;
            w.err = err;
            w.bound = b;
            w.what = format!("{tag} {how} {} (source index order after direction handling): font ({fx},{fy}) expected ({ex},{ey}), |diff| {err} > bound {b}", (rot + t) % n);
        }
    }
}

type P2 = (f64, f64);

fn quad_pts(p0: P2, p1: P2, p2: P2, n: usize, out: &mut Vec<P2>) {
    for k in 1..=n {
        let t = k as f64 / n as f64;
        let u = 1.0 - t;
        out.push((u * u * p0.0 + 2.0 * u * t * p1.0 + t * t * p2.0, u * u * p0.1 + 2.0 * u * t * p1.1 + t * t * p2.1));
    }
}

fn cubic_pts(p0: P2, p1: P2, p2: P2, p3: P2, n: usize, out: &mut Vec<P2>) {
    for k in 1..=n {
        let t = k as f64 / n as f64;
        let u = 1.0 - t;
        let (a, b, c, d) = (u * u * u, 3.0 * u * u * t, 3.0 * u * t * t, t * t * t);
        out.push((a * p0.0 + b * p1.0 + c * p2.0 + d * p3.0, a * p0.1 + b * p1.1 + c * p2.1 + d * p3.1));
    }
}

const N_QUAD: usize = 16;
const N_CUBIC: usize = 32;

/// Closed polyline (vertices, first not repeated) through a closed source contour of any segment mix.
fn flatten_source(c: &Contour) -> Option<Vec<P2>> {
    let pts = &c.points;
    let n = pts.len();
    let s = pts.iter().position(|p| p.kind != PtKind::Off)?;
    if pts.iter().any(|p| p.kind == PtKind::Move) {
        return None;
    }
    let mut cur = (pts[s].x, pts[s].y);
    let mut out = vec![cur];
    let mut offs: Vec<P2> = vec![];
    for k in 1..=n {
        let p = &pts[(s + k) % n];
        let here = (p.x, p.y);
        match p.kind {
            PtKind::Off => {
                offs.push(here);
                continue;
            }
            PtKind::Line | PtKind::Move => {
                if !offs.is_empty() {
                    return None;
                }
                out.push(here);
            }
            PtKind::Curve => match offs.len() {
                0 => out.push(here),
                1 => quad_pts(cur, offs[0], here, N_QUAD, &mut out),
                2 => cubic_pts(cur, offs[0], offs[1], here, N_CUBIC, &mut out),
                _ => return None,
            },
            PtKind::QCurve => {
                if offs.is_empty() {
                    out.push(here);
                } else {
                    let mut from = cur;
                    for w in offs.windows(2) {
                        let mid = ((w[0].0 + w[1].0) / 2.0, (w[0].1 + w[1].1) / 2.0);
                        quad_pts(from, w[0], mid, N_QUAD, &mut out);
                        from = mid;
                    }
                    quad_pts(from, *offs.last().unwrap(), here, N_QUAD, &mut out);
                }
            }
        }
        cur = here;
        offs.clear();
    }
    out.pop(); // the closing vertex repeats the first
    Some(out)
}

/// Closed polyline through a TrueType contour (implied on-curve points made explicit).
fn flatten_font(c: &[otvar::Pt]) -> Vec<P2> {
    let n = c.len();
    let mut e: Vec<(f64, f64, bool)> = Vec::with_capacity(2 * n);
    for i in 0..n {
        let (p, q) = (&c[i], &c[(i + 1) % n]);
        e.push((p.x, p.y, p.on));
        if !p.on && !q.on {
            e.push(((p.x + q.x) / 2.0, (p.y + q.y) / 2.0, true));
        }
    }
    let Some(s) = e.iter().position(|p| p.2) else {
        return e.iter().map(|p| (p.0, p.1)).collect();
    };
    let len = e.len();
    let mut cur = (e[s].0, e[s].1);
    let mut out = vec![cur];
    let mut pending: Option<P2> = None;
    for k in 1..=len {
        let p = e[(s + k) % len];
        if p.2 {
            match pending.take() {
                Some(o) => quad_pts(cur, o, (p.0, p.1), N_QUAD, &mut out),
                None => out.push((p.0, p.1)),
            }
            cur = (p.0, p.1);
        } else {
            pending = Some((p.0, p.1));
        }
    }
    out.pop();
    out
}

fn seg_dist2(p: P2, a: P2, b: P2) -> f64 {
    let (vx, vy) = (b.0 - a.0, b.1 - a.1);
    let (wx, wy) = (p.0 - a.0, p.1 - a.1);
    let l2 = vx * vx + vy * vy;
    let t = if l2 == 0.0 { 0.0 } else { ((wx * vx + wy * vy) / l2).clamp(0.0, 1.0) };
    let (dx, dy) = (wx - t * vx, wy - t * vy);
    dx * dx + dy * dy
}

/// max over the vertices of `a` of the Euclidean distance to the closed polyline `b` (exhaustive)
fn one_sided_full(a: &[P2], b: &[P2]) -> f64 {
    let mut worst: f64 = 0.0;
    for p in a {
        let mut best = f64::INFINITY;
        for i in 0..b.len() {
            let d = seg_dist2(*p, b[i], b[(i + 1) % b.len()]);
            if d < best {
                best = d;
            }
        }
        worst = worst.max(best);
    }
    worst.sqrt()
}

/// The same, searching for each vertex only near the segment that was nearest to the previous
/// vertex (both curves run alongside each other). A windowed minimum can only be larger than the
/// true one, so the result is an upper bound of `one_sided_full`.
fn one_sided_windowed(a: &[P2], b: &[P2]) -> f64 {
    const W: usize = 6;
    let nb = b.len();
    if nb <= 2 * W + 1 || a.is_empty() {
        return one_sided_full(a, b);
    }
    let nearest_full = |p: P2| -> (usize, f64) {
        let mut best = (0usize, f64::INFINITY);
        for i in 0..nb {
            let d = seg_dist2(p, b[i], b[(i + 1) % nb]);
            if d < best.1 {
                best = (i, d);
            }
        }
        best
    };
    let (mut at, first) = nearest_full(a[0]);
    let mut worst = first;
    for p in &a[1..] {
        let mut best = (at, f64::INFINITY);
        for k in 0..=2 * W {
            let i = (at + nb + k - W) % nb;
            let d = seg_dist2(*p, b[i], b[(i + 1) % nb]);
            if d < best.1 {
                best = (i, d);
            }
        }
        // the minimum sits on the window's edge: the curves drifted apart in parameter, look everywhere
        if (best.0 + nb - at) % nb == W || (at + nb - best.0) % nb == W {
            best = nearest_full(*p);
        }
        at = best.0;
        worst = worst.max(best.1);
    }
    worst.sqrt()
}

/// Symmetric sampled Hausdorff distance; exact whenever the (cheaper, never smaller) windowed
/// value exceeds `allow`.
fn hausdorff(a: &[P2], b: &[P2], allow: f64) -> f64 {
    if a.is_empty() || b.is_empty() {
        return if a.is_empty() && b.is_empty() { 0.0 } else { f64::INFINITY };
    }
    let quick = one_sided_windowed(a, b).max(one_sided_windowed(b, a));
    if quick <= allow {
        return quick;
    }
    one_sided_full(a, b).max(one_sided_full(b, a))
}

/// vertices of both polylines are on their curves; the chord sagitta of the finest sampling of a
/// 200-unit-radius arc is < 0.07
const SAMPLING_EPS: f64 = 0.15;

/// the sagitta grows with the em (the drawings are scaled by upem/1000)
fn sampling_eps(upem: f64) -> f64 {
    SAMPLING_EPS * (upem / 1000.0).max(1.0)
}

/// Which 2x2 coefficients (xform order xx xy yx yy) of some component differ between the layers
/// of a composite glyph; `None` when the layers do not even agree on the component bases.
fn varying_2x2(g: &Glyph) -> Option<[bool; 4]> {
    let mut it = g.layers.values();
    let first = it.next()?;
    let mut v = [false; 4];
    for l in it {
        if l.components.len() != first.components.len() {
            return None;
        }
        for (a, b) in first.components.iter().zip(&l.components) {
            if a.base != b.base {
                return None;
            }
            for i in 0..4 {
                v[i] |= a.xform[i] != b.xform[i];
            }
        }
    }
    Some(v)
}

/// The drawing of layer `m` of `g` with every component replaced by the base glyph's drawing at
/// the same master under the component's transform (UFO: x' = xx*x + yx*y + dx, y' = xy*x + yy*y + dy),
/// components in order, own contours first. `None` when a base has no drawing at `m` (the
/// compiler then interpolates one: not asserted here) or the 2x2 reverses the orientation.
fn resolve_layer(d: &Design, g: &Glyph, m: usize, depth: usize) -> Option<Vec<Contour>> {
    let l = g.layers.get(&m)?;
    let mut out = l.contours.clone();
    for c in &l.components {
        if depth > 6 {
            return None;
        }
        let base = d.glyph(&c.base)?;
        let bc = resolve_layer(d, base, m, depth + 1)?;
        let [xx, xy, yx, yy, dx, dy] = c.xform;
        if xx * yy - xy * yx <= 0.0 {
            return None;
        }
        for ct in &bc {
            out.push(shapes::map_contour(ct, |_, x, y| (xx * x + yx * y + dx, xy * x + yy * y + dy)));
        }
    }
    Some(out)
}

macro_rules! stats {
    (sum: $($s:ident),* ; max: $($m:ident),* $(,)?) => {
        #[derive(Clone, Debug, Default, Serialize)]
        struct Stats {
            $($s: u64,)*
            $($m: f64,)*
        }
        fn add_stats(a: &mut Stats, b: &Stats) {
            $(a.$s += b.$s;)*
            $(a.$m = a.$m.max(b.$m);)*
        }
    };
}

stats! {
    sum: designs, compiled, rejected, panicked, comparisons, comparisons_non_default,
        comparisons_active_variation, comparisons_simple, comparisons_cubic, comparisons_cubic_vs_static,
        comparisons_composite, comparisons_at_layer_master, points_compared, implied_oncurve_points_dropped,
        designs_with_intermediate_region, designs_with_sparse_submodel, designs_with_iup_omitted_points,
        designs_with_composites, designs_with_nested_composites, designs_with_layer_master, designs_with_avar,
        designs_keep_direction, comparisons_with_iup_allowance, glyphs_sparse, glyphs_with_fractional_master_scalar, iup_omitted_points,
        gvar_tuples, gvar_intermediate_tuples, locations_off_master_by_quantisation, skrifa_crosschecks,
        static_compiles, cpu_ms_write_and_compile, cpu_ms_judge, designs_skipped_by_time_cap,
        // units per em
        fonts_upem_1000, fonts_upem_2048, fonts_upem_4096,
        comparisons_with_iup_allowance_upem_1000, comparisons_with_iup_allowance_upem_2048, comparisons_with_iup_allowance_upem_4096,
        iup_omitted_points_upem_1000, iup_omitted_points_upem_2048, iup_omitted_points_upem_4096,
        comparisons_two_or_more_tuples_active_with_iup_upem_2048, comparisons_two_or_more_tuples_active_with_iup_upem_4096,
        // source routes
        fonts_ufo_route, fonts_glyphs_route, fonts_glyphs_route_partial_coordinates, designs_not_representable_in_glyphs, designs_glyphs_route_not_taken_in_this_tier,
        brace_layers_written, brace_layers_with_partial_coordinates, brace_layers_with_partial_coordinates_host_off_default,
        comparisons_at_brace_layer_with_partial_coordinates, comparisons_at_brace_layer_with_partial_coordinates_host_off_default,
        comparisons_at_layer_master_of_non_default_host,
        // component 2x2
        glyphs_expected_decomposed_for_varying_2x2, glyphs_not_asserted_unresolvable_component,
        comparisons_2x2_varies_xx_only, comparisons_2x2_varies_xy_only, comparisons_2x2_varies_yx_only,
        comparisons_2x2_varies_yy_only, comparisons_2x2_varies_all_four, comparisons_2x2_varies_other,
        comparisons_2x2_varies_general_base, comparisons_composite_kept_with_non_identity_2x2;
    // max_err_over_bound: largest |font - source| / bound over all non-default point comparisons
    max: max_err_over_bound, max_err, max_bound, max_cubic_dist, max_cubic_dist_over_bound,
        max_static_dist_over_bound
}

#[derive(Clone, Debug)]
struct Finding {
    /// structure | coordinate | location | unreadable
    class: &'static str,
    what: String,
    detail: Value,
}

enum Outcome {
    Rejected(String),
    Panicked(String),
    Judged(Vec<Finding>),
}

/// How the design reaches the compiler.
#[derive(Clone, Copy, Debug, Default, PartialEq, Eq, Serialize, Deserialize)]
enum Route {
    /// designspace + UFOs
    #[default]
    Ufo,
    /// one Glyphs 3 file; layer masters are brace layers that spell out every coordinate
    Glyphs3,
    /// the same, brace layers listing only their leading coordinates where the rest is the
    /// associated master's
    Glyphs3Partial,
}

impl Route {
    fn name(self) -> &'static str {
        match self {
            Route::Ufo => "ufo",
            Route::Glyphs3 => "glyphs3",
            Route::Glyphs3Partial => "glyphs3-partial-brace-coordinates",
        }
    }
    fn g3opts(self) -> dgen::glyphs::G3Opts {
        dgen::glyphs::G3Opts { brace_partial_coordinates: self == Route::Glyphs3Partial }
    }
}

/// layer masters whose brace layer loses coordinates under the partial spelling
fn partial_layers(d: &Design) -> Vec<usize> {
    let o = Route::Glyphs3Partial.g3opts();
    (0..d.masters.len())
        .filter(|m| matches!(d.masters[*m].kind, dgen::MasterKind::LayerOf(_)) && d.brace_coordinates(*m, &o).len() < d.axes.len())
        .collect()
}

/// Which cases also go through the Glyphs routes: 1 and 2 axes with up to 5 full masters (all of
/// quick), 3 axes with up to 3. (The larger master sets of thorough stay with the UFO route: what
/// the Glyphs front end adds is location handling, which does not depend on the size of the set.)
fn glyphs_routes_enabled(_tier: Tier, c: &Case) -> bool {
    (c.n <= 2 && c.locs.len() <= 5) || c.locs.len() <= 3
}

/// number of fonts a case is compiled into under the tier's route policy
fn routes_planned(tier: Tier, c: &Case) -> u64 {
    let (g, p) = c.glyphs_routes();
    if glyphs_routes_enabled(tier, c) { 1 + g as u64 + p as u64 } else { 1 }
}

/// the routes a design is compiled through (the UFO route always)
fn routes_of(d: &Design) -> Vec<Route> {
    let mut r = vec![Route::Ufo];
    if d.glyphs_unrepresentable().is_empty() {
        r.push(Route::Glyphs3);
        if !partial_layers(d).is_empty() {
            r.push(Route::Glyphs3Partial);
        }
    }
    r
}

fn compile_design(d: &Design, opts: &fcx::Opts, route: Route) -> Result<Vec<u8>, fcx::Failure> {
    let sc = vcore::Scratch::new("c03");
    let path = match route {
        Route::Ufo => d.write_designspace(sc.path()),
        _ => d.write_glyphs3_with(sc.path(), &route.g3opts()),
    }
    .unwrap_or_else(|e| vcore::machinery_error(&format!("writing the source ({}): {e}", route.name())));
    fcx::compile(&path, opts, None)
}

/// The design reduced to master `m` alone, holding the named glyphs' drawings at `m`.
fn static_design(d: &Design, m: usize, names: &[String]) -> Design {
    let mut s = Design::static_font("C03s");
    s.upem = d.upem;
    s.masters[0].info = d.masters[m].info.clone();
    for name in names {
        let g = d.glyph(name).unwrap();
        let mut sg = Glyph::new(name, &g.codepoints);
        sg.layers.insert(0, g.layers[&m].clone());
        s.glyphs.push(sg);
    }
    s.glyph_order = Some(names.to_vec());
    s
}

fn contours_json(cs: &[Vec<otvar::Pt>]) -> Value {
    json!(cs.iter().map(|c| c.iter().map(|p| json!([p.x, p.y, p.on])).collect::<Vec<_>>()).collect::<Vec<_>>())
}

fn source_json(l: &Layer) -> Value {
    json!({
        "contours": l.contours.iter().map(|c| c.points.iter().map(|p| json!([p.x, p.y, format!("{:?}", p.kind)])).collect::<Vec<_>>()).collect::<Vec<_>>(),
        "components": l.components.iter().map(|c| json!([c.base, c.xform[4], c.xform[5]])).collect::<Vec<_>>(),
    })
}

fn judge(d: &Design, opts: &fcx::Opts, route: Route, xcheck: bool, vs_static: bool, st: &mut Stats) -> Outcome {
    if route == Route::Ufo {
        st.designs += 1;
    }
    let t0 = std::time::Instant::now();
    let compiled = compile_design(d, opts, route);
    st.cpu_ms_write_and_compile += t0.elapsed().as_millis() as u64;
    let bytes = match compiled {
        Ok(b) => b,
        Err(fcx::Failure::Error(e)) => {
            st.rejected += 1;
            return Outcome::Rejected(e);
        }
        Err(fcx::Failure::Panic(e)) => {
            st.panicked += 1;
            return Outcome::Panicked(e);
        }
    };
    st.compiled += 1;
    match route {
        Route::Ufo => st.fonts_ufo_route += 1,
        Route::Glyphs3 => st.fonts_glyphs_route += 1,
        Route::Glyphs3Partial => {
            st.fonts_glyphs_route += 1;
            st.fonts_glyphs_route_partial_coordinates += 1;
        }
    }
    let t1 = std::time::Instant::now();
    let f = judge_font(d, opts, route, &bytes, xcheck, vs_static, st);
    st.cpu_ms_judge += t1.elapsed().as_millis() as u64;
    Outcome::Judged(f)
}

/// Judge a compiled font against the drawings of `d`.
fn judge_font(d: &Design, opts: &fcx::Opts, route: Route, bytes: &[u8], xcheck: bool, vs_static: bool, st: &mut Stats) -> Vec<Finding> {
    let mut findings = vec![];
    let vf = match VFont::new(bytes) {
        Ok(v) => v,
        Err(e) => {
            findings.push(Finding { class: "unreadable", what: format!("the compiled font cannot be evaluated: {e}"), detail: Value::Null });
            return findings;
        }
    };
    let names = vf.glyph_names();
    let nm = d.masters.len();
    let reverse = !opts.keep_direction;
    let upem = d.upem as f64;
    let cu2qu_tol = upem / 1000.0;

    // the font's own normalized coordinates of every master location
    let mut coords: Vec<Vec<f64>> = vec![];
    let mut devs: Vec<f64> = vec![];
    for m in 0..nm {
        let user: Vec<(String, f64)> = d.axes.iter().zip(d.master_user(m)).map(|(a, u)| (a.tag.clone(), u)).collect();
        let c = vf.normalize(&user);
        let want = d.master_norm(m);
        let dev = c.iter().zip(&want).map(|(a, b)| (a - b).abs()).fold(0.0, f64::max);
        if c.len() != want.len() || dev > 1.0 / 16384.0 + 1e-12 {
            findings.push(Finding {
                class: "location",
                what: format!("master {m} at user {user:?}: the font normalizes it to {c:?}, the designspace says {want:?}"),
                detail: json!({"master": m, "observed": c, "expected": want}),
            });
        }
        if dev > 0.0 {
            st.locations_off_master_by_quantisation += 1;
        }
        coords.push(c);
        devs.push(dev);
    }
    if !findings.is_empty() {
        return findings;
    }
    if (0..nm).any(|m| {
        let user: Vec<(String, f64)> = d.axes.iter().zip(d.master_user(m)).map(|(a, u)| (a.tag.clone(), u)).collect();
        vf.normalize_no_avar(&user) != coords[m]
    }) {
        st.designs_with_avar += 1;
    }

    // brace layers of the Glyphs routes
    let host_of = |m: usize| match d.masters[m].kind {
        dgen::MasterKind::LayerOf(h) => Some(h),
        _ => None,
    };
    let partial: Vec<usize> = if route == Route::Glyphs3Partial { partial_layers(d) } else { vec![] };
    // a partial brace layer whose omitted axes are NOT at the default in its host master
    let host_off_default = |m: usize| -> bool {
        let kept = d.brace_coordinates(m, &route.g3opts()).len();
        let h = host_of(m).unwrap();
        (kept..d.axes.len()).any(|a| d.masters[h].loc[a] != d.masters[d.default_master].loc[a])
    };
    if route != Route::Ufo {
        for g in &d.glyphs {
            for &m in g.layers.keys() {
                if host_of(m).is_some() {
                    st.brace_layers_written += 1;
                    if partial.contains(&m) {
                        st.brace_layers_with_partial_coordinates += 1;
                        if host_off_default(m) {
                            st.brace_layers_with_partial_coordinates_host_off_default += 1;
                        }
                    }
                }
            }
        }
    }
    match d.upem {
        1000 => st.fonts_upem_1000 += 1,
        2048 => st.fonts_upem_2048 += 1,
        4096 => st.fonts_upem_4096 += 1,
        _ => {}
    }
    let (mut iup_omitted_here, mut iup_allow_here, mut iup_multi_here) = (0u64, 0u64, 0u64);

    let mut any_intermediate = false;
    let mut any_sparse = false;
    let mut any_omitted = false;
    let mut any_composite = false;
    let mut any_nested = false;
    let mut static_fonts: BTreeMap<usize, Option<Vec<u8>>> = BTreeMap::new();
    let cubic_names: Vec<String> = d
        .glyphs
        .iter()
        .filter(|g| g.layers.values().all(|l| l.components.is_empty()) && g.layers.values().any(|l| l.contours.iter().any(is_cubic_contour)))
        .map(|g| g.name.clone())
        .collect();

    for g_src in &d.glyphs {
        if !g_src.export {
            continue;
        }
        // A composite whose component 2x2 is not the same in all of its masters cannot stay a
        // composite (glyf holds one 2x2, gvar varies offsets only): the outline of each master is
        // the source's own resolution of that master, and the font must hold a simple glyph.
        let resolved: Glyph;
        let mut g = g_src;
        let mut varies: Option<[bool; 4]> = None;
        if g_src.layers.values().all(|l| !l.components.is_empty() && l.contours.is_empty()) {
            match varying_2x2(g_src) {
                Some(v) if v.iter().any(|b| *b) => {
                    let layers: Option<BTreeMap<usize, Layer>> = g_src
                        .layers
                        .iter()
                        .map(|(&m, l)| resolve_layer(d, g_src, m, 0).map(|c| (m, Layer { advance: l.advance, height: l.height, contours: c, ..Default::default() })))
                        .collect();
                    match layers {
                        Some(layers) => {
                            resolved = Glyph { layers, ..g_src.clone() };
                            g = &resolved;
                            varies = Some(v);
                            st.glyphs_expected_decomposed_for_varying_2x2 += 1;
                        }
                        None => {
                            st.glyphs_not_asserted_unresolvable_component += 1;
                            continue;
                        }
                    }
                }
                Some(_) => {}
                None => {
                    st.glyphs_not_asserted_unresolvable_component += 1;
                    continue;
                }
            }
        }
        let Some(gid) = names.iter().position(|n| *n == g.name).map(|i| i as u16) else {
            findings.push(Finding { class: "structure", what: format!("glyph {} is not in the font (post names {names:?})", g.name), detail: json!({"glyph": g.name}) });
            continue;
        };
        let gs = vf.gvar_stats(gid);
        st.gvar_tuples += gs.tuples as u64;
        st.gvar_intermediate_tuples += gs.intermediate as u64;
        st.iup_omitted_points += gs.points_omitted as u64;
        iup_omitted_here += gs.points_omitted as u64;
        any_intermediate |= gs.intermediate > 0;
        any_omitted |= gs.points_omitted > 0;
        if g.layers.len() > 1 && g.layers.len() < nm {
            any_sparse = true;
            st.glyphs_sparse += 1;
        }
        let Some(l0) = g.layers.get(&d.default_master) else {
            continue;
        };
        let is_composite = !l0.components.is_empty();
        let is_cubic = !is_composite && g.layers.values().any(|l| l.contours.iter().any(is_cubic_contour));

        // instantiate at every master the glyph has a drawing for
        let mut inst: BTreeMap<usize, otvar::InstGlyph> = BTreeMap::new();
        // per master: the bound of every outline point (index over all contours)
        let mut pbound: BTreeMap<usize, Vec<f64>> = BTreeMap::new();
        let mut slacks: BTreeMap<usize, f64> = BTreeMap::new();
        let tuples = vf.glyph_tuples(gid).unwrap_or_default();
        let mut failed = false;
        let mut fractional = false;
        for &m in g.layers.keys() {
            match vf.glyph_at(gid, &coords[m]) {
                Ok(i) => {
                    let sum: f64 = i.tuple_scalars.iter().map(|s| s.abs()).sum();
                    fractional |= i.tuple_scalars.iter().any(|s| *s != 0.0 && *s != 1.0);
                    let mut slack = 0.0;
                    if devs[m] > 0.0 {
                        // the location differs from the master by F2Dot14 quantisation: allow the
                        // change of every tuple's scalar times its largest delta
                        let exact = d.master_norm(m);
                        for t in &tuples {
                            let big = t.dx.iter().chain(&t.dy).map(|v| v.abs()).max().unwrap_or(0) as f64;
                            slack += (t.scalar(&coords[m]) - t.scalar(&exact)).abs() * big;
                        }
                    }
                    // 0.5 for the rounding of this master's delta, + 0.5 |scalar| for every active
                    // tuple that leaves the point to IUP inference (tolerance 0.5 per tuple)
                    let npts = i.points().len();
                    let pb: Vec<f64> = (0..npts)
                        .map(|p| {
                            if m == d.default_master {
                                return 0.0;
                            }
                            let iup: f64 = tuples
                                .iter()
                                .zip(&i.tuple_scalars)
                                .filter(|(t, _)| t.points.as_ref().is_some_and(|v| !v.contains(&(p as u16))))
                                .map(|(_, s)| 0.5 * s.abs())
                                .sum();
                            0.5 + iup + slack + 1e-6
                        })
                        .collect();
                    if i.tuple_scalars.len() != tuples.len() {
                        vcore::machinery_error("otvar: tuple_scalars and glyph_tuples disagree in length");
                    }
                    if pb.iter().any(|b| *b > 0.5 + slack + 1e-6) {
                        st.comparisons_with_iup_allowance += 1;
                        iup_allow_here += 1;
                        if i.tuple_scalars.iter().filter(|s| **s != 0.0).count() >= 2 {
                            iup_multi_here += 1;
                        }
                    }
                    st.comparisons += 1;
                    if m != d.default_master {
                        st.comparisons_non_default += 1;
                        if sum > 0.0 {
                            st.comparisons_active_variation += 1;
                        }
                    }
                    if let Some(h) = host_of(m) {
                        st.comparisons_at_layer_master += 1;
                        if h != d.default_master {
                            st.comparisons_at_layer_master_of_non_default_host += 1;
                        }
                        if partial.contains(&m) {
                            st.comparisons_at_brace_layer_with_partial_coordinates += 1;
                            if host_off_default(m) {
                                st.comparisons_at_brace_layer_with_partial_coordinates_host_off_default += 1;
                            }
                        }
                    }
                    if let Some(v) = varies {
                        match v {
                            [true, false, false, false] => st.comparisons_2x2_varies_xx_only += 1,
                            [false, true, false, false] => st.comparisons_2x2_varies_xy_only += 1,
                            [false, false, true, false] => st.comparisons_2x2_varies_yx_only += 1,
                            [false, false, false, true] => st.comparisons_2x2_varies_yy_only += 1,
                            [true, true, true, true] => st.comparisons_2x2_varies_all_four += 1,
                            _ => st.comparisons_2x2_varies_other += 1,
                        }
                        let c0 = &g_src.layers[&d.default_master].components[0].xform;
                        if c0[..4] != [1.0, 0.0, 0.0, 1.0] {
                            st.comparisons_2x2_varies_general_base += 1;
                        }
                    }
                    pbound.insert(m, pb);
                    slacks.insert(m, slack);
                    inst.insert(m, i);
                }
                Err(e) => {
                    findings.push(Finding { class: "unreadable", what: format!("glyph {} at master {m}: {e}", g.name), detail: json!({"glyph": g.name, "master": m}) });
                    failed = true;
                }
            }
        }
        if failed {
            continue;
        }
        if fractional {
            st.glyphs_with_fractional_master_scalar += 1;
        }
        let detail = |m: usize, extra: Value| -> Value {
            json!({
                "glyph": g.name, "master": m, "master_design_location": d.masters[m].loc, "normalized": coords[m],
                "tuple_scalars": inst[&m].tuple_scalars,
                "expected_source": source_json(&g.layers[&m]),
                "observed": match &inst[&m].kind {
                    InstKind::Simple { contours } => contours_json(contours),
                    InstKind::Composite { components } => json!(components.iter().map(|c| json!([c.gid, c.dx, c.dy])).collect::<Vec<_>>()),
                    InstKind::Empty => json!("empty glyph"),
                },
                "extra": extra,
            })
        };

        if is_composite {
            any_composite = true;
            for (&m, layer) in &g.layers {
                st.comparisons_composite += 1;
                let InstKind::Composite { components } = &inst[&m].kind else {
                    findings.push(Finding { class: "structure", what: format!("glyph {} is a composite in the source, not in the font", g.name), detail: detail(m, Value::Null) });
                    break;
                };
                if components.len() != layer.components.len() {
                    findings.push(Finding {
                        class: "structure",
                        what: format!("glyph {} master {m}: {} components in the font, {} in the source", g.name, components.len(), layer.components.len()),
                        detail: detail(m, Value::Null),
                    });
                    break;
                }
                // composites get no IUP: one delta rounding only
                let b = if m == d.default_master { 0.0 } else { 0.5 + slacks[&m] + 1e-6 };
                for (ci, (fc, sc)) in components.iter().zip(&layer.components).enumerate() {
                    let base_gid = names.iter().position(|n| *n == sc.base);
                    // the 2x2 is the same in every master of the glyph here and F2Dot14-exact:
                    // the font's (otvar: x' = xx*x + xy*y, y' = yx*x + yy*y) is the source's
                    // (UFO: x' = xScale*x + yxScale*y, y' = xyScale*x + yScale*y)
                    let [sxx, sxy, syx, syy, _, _] = sc.xform;
                    if base_gid != Some(fc.gid as usize) || (fc.xx, fc.yx, fc.xy, fc.yy) != (sxx, sxy, syx, syy) {
                        findings.push(Finding {
                            class: "structure",
                            what: format!("glyph {} component {ci}: font refers to gid {} with 2x2 (xscale {}, scale01 {}, scale10 {}, yscale {}), source to {} (gid {base_gid:?}) with (xScale {sxx}, xyScale {sxy}, yxScale {syx}, yScale {syy})", g.name, fc.gid, fc.xx, fc.yx, fc.xy, fc.yy, sc.base),
                            detail: detail(m, Value::Null),
                        });
                        continue;
                    }
                    if (sxx, sxy, syx, syy) != (1.0, 0.0, 0.0, 1.0) {
                        st.comparisons_composite_kept_with_non_identity_2x2 += 1;
                    }
                    if d.glyph(&sc.base).is_some_and(|b| b.layers.values().any(|l| !l.components.is_empty())) {
                        any_nested = true;
                    }
                    let (ex, ey) = (ot_round(sc.xform[4]), ot_round(sc.xform[5]));
                    let err = (fc.dx - ex).abs().max((fc.dy - ey).abs());
                    st.points_compared += 1;
                    if b > 0.0 {
                        st.max_err_over_bound = st.max_err_over_bound.max(err / b);
                        st.max_err = st.max_err.max(err);
                    }
                    if err > b {
                        findings.push(Finding {
                            class: "coordinate",
                            what: format!("glyph {} master {m} component {ci} ({}): offset in the font ({},{}), source ({ex},{ey}), |diff| {err} > bound {b}", g.name, sc.base, fc.dx, fc.dy),
                            detail: detail(m, json!({"component": ci, "bound": b, "err": err})),
                        });
                    }
                }
            }
            continue;
        }

        // simple glyph in the source: must be simple in the font, with the source's contour count
        let mut font_contours: BTreeMap<usize, &Vec<Vec<otvar::Pt>>> = BTreeMap::new();
        let mut bad = false;
        for (&m, layer) in &g.layers {
            match &inst[&m].kind {
                InstKind::Simple { contours } if contours.len() == layer.contours.len() => {
                    font_contours.insert(m, contours);
                }
                other => {
                    let n = match other {
                        InstKind::Simple { contours } => format!("{} contours", contours.len()),
                        InstKind::Composite { .. } => "a composite".into(),
                        InstKind::Empty => "an empty glyph".into(),
                    };
                    let why = match varies {
                        Some(v) => format!(
                            " (the source's components have a 2x2 that differs between the glyph's masters in {}, so only the per-master resolution into contours reproduces every master)",
                            ["xScale", "xyScale", "yxScale", "yScale"].iter().zip(v).filter(|(_, on)| *on).map(|(n, _)| *n).collect::<Vec<_>>().join("+")
                        ),
                        None => String::new(),
                    };
                    findings.push(Finding { class: "structure", what: format!("glyph {} master {m}: the font has {n}, the source {} contours{why}", g.name, layer.contours.len()), detail: detail(m, Value::Null) });
                    bad = true;
                    break;
                }
            }
        }
        if bad {
            continue;
        }

        if is_cubic {
            for (&m, layer) in &g.layers {
                st.comparisons_cubic += 1;
                let b = pbound[&m].iter().cloned().fold(0.0, f64::max);
                let allow = cu2qu_tol + std::f64::consts::SQRT_2 * (0.5 + b) + sampling_eps(upem);
                for (ci, sc) in layer.contours.iter().enumerate() {
                    let Some(src) = flatten_source(sc) else { continue };
                    let fnt = flatten_font(&font_contours[&m][ci]);
                    let dist = hausdorff(&fnt, &src, allow);
                    st.max_cubic_dist = st.max_cubic_dist.max(dist);
                    st.max_cubic_dist_over_bound = st.max_cubic_dist_over_bound.max(dist / allow);
                    st.points_compared += (fnt.len() + src.len()) as u64;
                    if dist > allow {
                        findings.push(Finding {
                            class: "coordinate",
                            what: format!("glyph {} master {m} contour {ci}: sampled Hausdorff distance between the instantiated outline and the master's cubic drawing {dist:.3} > {allow:.3}", g.name),
                            detail: detail(m, json!({"contour": ci, "distance": dist, "allowance": allow})),
                        });
                    }
                }
                // the master's own static build
                if !vs_static {
                    continue;
                }
                let sfont = static_fonts.entry(m).or_insert_with(|| {
                    let have: Vec<String> = cubic_names.iter().filter(|n| d.glyph(n).unwrap().layers.contains_key(&m)).cloned().collect();
                    let sd = static_design(d, m, &have);
                    let sc = vcore::Scratch::new("c03s");
                    let p = sd.write_single_ufo(sc.path()).unwrap_or_else(|e| vcore::machinery_error(&format!("writing the static UFO: {e}")));
                    st.static_compiles += 1;
                    fcx::compile(&p, opts, None).ok()
                });
                let Some(sb) = sfont else { continue };
                let Ok(svf) = VFont::new(sb) else { continue };
                let Some(sgid) = svf.gid_for_name(&g.name) else { continue };
                let Ok(sinst) = svf.glyph_at(sgid, &[]) else { continue };
                let InstKind::Simple { contours: sct } = &sinst.kind else { continue };
                st.comparisons_cubic_vs_static += 1;
                if sct.len() != layer.contours.len() {
                    findings.push(Finding {
                        class: "structure",
                        what: format!("glyph {} master {m}: the master's static build has {} contours, the variable font {}", g.name, sct.len(), layer.contours.len()),
                        detail: detail(m, json!({"static": contours_json(sct)})),
                    });
                    continue;
                }
                let allow = 2.0 * cu2qu_tol + std::f64::consts::SQRT_2 * (1.0 + b) + sampling_eps(upem);
                for ci in 0..sct.len() {
                    let dist = hausdorff(&flatten_font(&font_contours[&m][ci]), &flatten_font(&sct[ci]), allow);
                    st.max_static_dist_over_bound = st.max_static_dist_over_bound.max(dist / allow);
                    if dist > allow {
                        findings.push(Finding {
                            class: "coordinate",
                            what: format!("glyph {} master {m} contour {ci}: sampled Hausdorff distance between the instantiated outline and the master's static build {dist:.3} > {allow:.3}", g.name),
                            detail: detail(m, json!({"contour": ci, "distance": dist, "allowance": allow, "static": contours_json(sct)})),
                        });
                    }
                }
            }
            continue;
        }

        // line / quadratic: point-for-point
        let ncont = l0.contours.len();
        'contours: for ci in 0..ncont {
            let mut exp: BTreeMap<usize, Vec<EP>> = BTreeMap::new();
            for (&m, layer) in &g.layers {
                match expected_contour(&layer.contours[ci], reverse) {
                    Some(e) => {
                        exp.insert(m, e);
                    }
                    None => continue 'contours, // not in the enumerated alphabet
                }
            }
            let dm = d.default_master;
            let cands = correspondences(&exp[&dm], &font_contours[&dm][ci]);
            if cands.is_empty() {
                findings.push(Finding {
                    class: "structure",
                    what: format!(
                        "glyph {} contour {ci}: the font's {} points (on-curve flags {:?}) are not the source's cyclic point sequence (flags {:?}, {}) with only midpoint on-curve points left implied",
                        g.name,
                        font_contours[&dm][ci].len(),
                        font_contours[&dm][ci].iter().map(|p| p.on as u8).collect::<Vec<_>>(),
                        exp[&dm].iter().map(|p| p.on as u8).collect::<Vec<_>>(),
                        if reverse { "reversed" } else { "source direction" }
                    ),
                    detail: detail(dm, json!({"contour": ci})),
                });
                continue;
            }
            // one correspondence must serve every master
            if exp.values().any(|e| e.len() != exp[&dm].len()) {
                continue; // the source itself is not point-compatible: not a compiler matter
            }
            let mut best: Option<(Worst, usize)> = None;
            let mut passed = false;
            for (rot, slots) in &cands {
                let mut worst: Option<(Worst, usize)> = None;
                let mut ratio: f64 = 0.0;
                let mut max_err: f64 = 0.0;
                let mut dropped = 0;
                for (&m, e) in &exp {
                    let start: usize = font_contours[&m][..ci].iter().map(|c| c.len()).sum();
                    let pb = &pbound[&m][start..start + font_contours[&m][ci].len()];
                    let mut wm = Worst::default();
                    eval_contour(e, &font_contours[&m][ci], *rot, slots, pb, &mut wm, &format!("master {m}"));
                    if m != dm {
                        ratio = ratio.max(wm.ratio);
                        max_err = max_err.max(wm.max_err);
                    } else {
                        dropped = wm.dropped;
                    }
                    if !wm.what.is_empty() && worst.as_ref().is_none_or(|(w, _)| wm.excess > w.excess) {
                        worst = Some((wm, m));
                    }
                }
                match worst {
                    None => {
                        passed = true;
                        st.max_err_over_bound = st.max_err_over_bound.max(ratio);
                        st.max_err = st.max_err.max(max_err);
                        st.implied_oncurve_points_dropped += dropped as u64;
                        break;
                    }
                    Some(w) => {
                        if best.as_ref().is_none_or(|(bw, _)| w.0.excess < bw.excess) {
                            best = Some(w);
                        }
                    }
                }
            }
            for (&m, e) in &exp {
                st.points_compared += e.len() as u64;
                if m != dm {
                    st.max_bound = st.max_bound.max(pbound[&m].iter().cloned().fold(0.0, f64::max));
                }
            }
            if !passed {
                let (w, m) = best.unwrap();
                findings.push(Finding {
                    class: "coordinate",
                    what: format!("glyph {} contour {ci} {} (best of {} start-point alignments)", g.name, w.what, cands.len()),
                    detail: detail(m, json!({"contour": ci, "err": w.err, "bound": w.bound})),
                });
            }
        }
        st.comparisons_simple += g.layers.len() as u64;
    }
    // a second opinion on the evaluator itself
    if xcheck {
        for g in d.glyphs.iter() {
            if let Some(gid) = names.iter().position(|n| *n == g.name) {
                for &m in g.layers.keys() {
                    crosscheck(bytes, gid as u16, &coords[m], &g.name, st);
                }
            }
        }
    }
    match d.upem {
        1000 => {
            st.iup_omitted_points_upem_1000 += iup_omitted_here;
            st.comparisons_with_iup_allowance_upem_1000 += iup_allow_here;
        }
        2048 => {
            st.iup_omitted_points_upem_2048 += iup_omitted_here;
            st.comparisons_with_iup_allowance_upem_2048 += iup_allow_here;
            st.comparisons_two_or_more_tuples_active_with_iup_upem_2048 += iup_multi_here;
        }
        4096 => {
            st.iup_omitted_points_upem_4096 += iup_omitted_here;
            st.comparisons_with_iup_allowance_upem_4096 += iup_allow_here;
            st.comparisons_two_or_more_tuples_active_with_iup_upem_4096 += iup_multi_here;
        }
        _ => {}
    }
    if route == Route::Ufo {
        st.designs_with_intermediate_region += any_intermediate as u64;
        st.designs_with_sparse_submodel += any_sparse as u64;
        st.designs_with_iup_omitted_points += any_omitted as u64;
        st.designs_with_composites += any_composite as u64;
        st.designs_with_nested_composites += any_nested as u64;
        st.designs_with_layer_master += d.masters.iter().any(|m| matches!(m.kind, dgen::MasterKind::LayerOf(_))) as u64;
        st.designs_keep_direction += opts.keep_direction as u64;
    }
    findings
}

fn crosscheck(bytes: &[u8], gid: u16, coords: &[f64], name: &str, st: &mut Stats) {
    st.skrifa_crosschecks += 1;
    match otvar::crosscheck_skrifa_detail(bytes, gid, coords) {
        Ok(c) if c.ok() => {}
        Ok(c) => vcore::machinery_error(&format!("otvar and skrifa disagree on glyph {name} (gid {gid}) at {coords:?}: {c:?}")),
        Err(e) => vcore::machinery_error(&format!("skrifa cross-check of glyph {name} (gid {gid}) at {coords:?} failed: {e}")),
    }
}

// ------------------------------------------------------------------------------------------- main

/// Sensitivity of the oracle: compile a design, then judge the font against a design whose
/// expectation was falsified in one small way. Every falsification must be reported.
fn selftest() -> ! {
    let mk = |kind, fam, layers: Vec<QLoc>| Case { n: 2, locs: vec![vec![0, 0], vec![4, 0], vec![0, 4], vec![4, 4]], layers, kind, fam, keep_direction: false, mapped: false, upem: 1000, layer_hosts: vec![], xbase: 0 };
    let mut failures = 0;
    let mut run_on = |name: &str, case: &Case, route: Route, falsify: &dyn Fn(&mut Design), want: &str| {
        let (d, opts) = build(case);
        let bytes = compile_design(&d, &opts, route).unwrap_or_else(|e| vcore::machinery_error(&format!("selftest compile: {e:?}")));
        let mut st = Stats::default();
        let clean = judge_font(&d, &opts, route, &bytes, false, true, &mut st);
        let mut bad = d.clone();
        falsify(&mut bad);
        let f = judge_font(&bad, &opts, route, &bytes, false, true, &mut st);
        let hit = f.iter().any(|x| x.class == want);
        println!("selftest {name}: clean findings {}, falsified findings {} ({}) -> {}", clean.len(), f.len(), f.first().map(|x| x.what.as_str()).unwrap_or("-"), if hit && clean.is_empty() { "ok" } else { "MISSED" });
        if !hit || !clean.is_empty() {
            failures += 1;
        }
    };
    // the new dimensions: units per em, the Glyphs route with a partially spelled brace layer,
    // a component 2x2 that varies in one coefficient
    run_on("upem 4096 line/scale: one point of master 3 moved by 2.5", &Case { upem: 4096, ..mk(Kind::Line, Fam::Scale, vec![]) }, Route::Ufo, &|d| d.glyphs[7].layers.get_mut(&3).unwrap().contours[1].points[5].y -= 2.5, "coordinate");
    run_on("glyphs3, brace layer (0.5) of master (0,1) written as one coordinate: expected at the default's second coordinate instead", &Case { layer_hosts: vec![2], ..mk(Kind::Line, Fam::AllMove, vec![vec![2, 4]]) }, Route::Glyphs3Partial, &|d| {
        // what a reader that ignores the associated master would build: the drawing is where (0.5, 0) is
        let v = d.masters[0].loc[1];
        d.masters[4].loc[1] = v;
    }, "coordinate");
    run_on("xform-yy: yScale of master 1 not applied in the expectation", &mk(Kind::XfYY, Fam::AllMove, vec![]), Route::Ufo, &|d| d.glyphs.last_mut().unwrap().layers.get_mut(&1).unwrap().components[0].xform[3] = 1.0, "coordinate");
    run_on("xform-xy: xyScale of master 3 doubled in the expectation", &mk(Kind::XfXY, Fam::SomeStatic, vec![]), Route::Ufo, &|d| d.glyphs.last_mut().unwrap().layers.get_mut(&3).unwrap().components[0].xform[1] *= 2.0, "coordinate");
    let mut run = |name: &str, case: &Case, falsify: &dyn Fn(&mut Design), want: &str| run_on(name, case, Route::Ufo, falsify, want);
    // one coordinate of one non-default master off by 1.5 units
    run("line: one point of master 2 moved by 1.5", &mk(Kind::Line, Fam::AllMove, vec![]), &|d| d.glyphs[7].layers.get_mut(&2).unwrap().contours[0].points[1].x += 1.5, "coordinate");
    // with IUP in play (scale family): a point moved by 2 units
    run("line/scale: one point of master 3 moved by 2", &mk(Kind::Line, Fam::Scale, vec![]), &|d| d.glyphs[7].layers.get_mut(&3).unwrap().contours[1].points[5].y -= 2.0, "coordinate");
    // the default master off by one unit
    run("quadratic: default master point moved by 1", &mk(Kind::Quadratic, Fam::SomeStatic, vec![]), &|d| d.glyphs[3].layers.get_mut(&0).unwrap().contours[0].points[1].y += 1.0, "coordinate");
    // two masters' drawings exchanged
    run("quadratic: masters 1 and 2 exchanged", &mk(Kind::Quadratic, Fam::AllMove, vec![vec![2, 2]]), &|d| {
        let g = &mut d.glyphs[15];
        let (a, b) = (g.layers[&1].clone(), g.layers[&2].clone());
        g.layers.insert(1, b);
        g.layers.insert(2, a);
    }, "coordinate");
    // the layer master's drawing replaced by the interpolation-free default drawing
    run("cubic: layer master drawn like the default", &mk(Kind::Cubic, Fam::AllMove, vec![vec![2, 2]]), &|d| {
        let g = &mut d.glyphs[15];
        let a = g.layers[&0].clone();
        g.layers.insert(4, a);
    }, "coordinate");
    run("composite: offset of master 3 off by 1", &mk(Kind::Composite, Fam::AllMove, vec![]), &|d| d.glyphs.last_mut().unwrap().layers.get_mut(&3).unwrap().components[1].xform[4] += 1.0, "coordinate");
    run("composite: default offset off by 1", &mk(Kind::Nested, Fam::AllMove, vec![]), &|d| d.glyphs.last_mut().unwrap().layers.get_mut(&0).unwrap().components[0].xform[5] -= 1.0, "coordinate");
    run("line: a point inserted", &mk(Kind::Line, Fam::AllMove, vec![]), &|d| {
        for l in d.glyphs[7].layers.values_mut() {
            l.contours[0].points.push(pt(0.0, 200.0, PtKind::Line));
        }
    }, "structure");
    run("line: direction not reversed", &mk(Kind::Line, Fam::AllMove, vec![]), &|d| {
        for l in d.glyphs[7].layers.values_mut() {
            l.contours[1].points.reverse();
        }
    }, "coordinate");
    vcore::cleanup_scratch();
    std::process::exit(if failures == 0 { 0 } else { 1 })
}

fn replay(path: &std::path::Path) -> ! {
    let s = std::fs::read_to_string(path).unwrap_or_else(|e| vcore::machinery_error(&format!("{path:?}: {e}")));
    let v: Value = serde_json::from_str(&s).unwrap_or_else(|e| vcore::machinery_error(&format!("{path:?}: {e}")));
    let r = v.get("replay").cloned().unwrap_or(v);
    let d: Design = serde_json::from_value(r["design"].clone()).unwrap_or_else(|e| vcore::machinery_error(&format!("design: {e}")));
    let opts: fcx::Opts = serde_json::from_value(r["opts"].clone()).unwrap_or_else(|e| vcore::machinery_error(&format!("opts: {e}")));
    let route: Route = r.get("route").and_then(|v| serde_json::from_value(v.clone()).ok()).unwrap_or_default();
    println!("case: {} (source route: {})", r["label"].as_str().unwrap_or("?"), route.name());
    let mut st = Stats::default();
    let out = judge(&d, &opts, route, true, true, &mut st);
    let code = match out {
        Outcome::Rejected(e) => {
            println!("the compiler rejects the design: {e}");
            0
        }
        Outcome::Panicked(e) => {
            println!("the compiler panics: {e}");
            0
        }
        Outcome::Judged(f) => {
            println!("{} (glyph, master) comparisons, {} points", st.comparisons, st.points_compared);
            for x in &f {
                println!("VIOLATION [{}] {}", x.class, x.what);
            }
            if f.is_empty() {
                println!("no violation");
                0
            } else {
                1
            }
        }
    };
    vcore::cleanup_scratch();
    std::process::exit(code)
}

fn main() {
    let args = vcore::parse_args();
    std::panic::set_hook(Box::new(|info| {
        if info.location().is_some_and(|l| l.file().ends_with("c03.rs")) {
            eprintln!("harness panic: {info}");
        }
    }));
    if let Some(p) = &args.replay {
        replay(p);
    }
    let mut rep = Reporter::new("C03", "exploration", &args);
    let (mut cases, notes) = spaces(args.tier);
    // `--stride N`: every Nth design only (sizing aid; the run is then not exhaustive)
    let stride: usize = args.rest.iter().position(|a| a == "--stride").and_then(|i| args.rest.get(i + 1)).and_then(|v| v.parse().ok()).unwrap_or(1).max(1);
    // `--only base|upem|xform|hosted`: one sub-space only (sizing aid; not exhaustive either)
    let only: Option<String> = args.rest.iter().position(|a| a == "--only").and_then(|i| args.rest.get(i + 1)).cloned();
    if let Some(o) = &only {
        cases.retain(|c| {
            let sub = if c.upem != 1000 {
                "upem"
            } else if c.kind.varying().iter().any(|v| *v) {
                "xform"
            } else if !c.layer_hosts.is_empty() {
                "hosted"
            } else {
                "base"
            };
            sub == o
        });
    }
    if stride > 1 {
        cases = cases.into_iter().step_by(stride).collect();
    }
    if args.rest.iter().any(|a| a == "--selftest") {
        selftest();
    }
    // `--case '<Case as JSON>'`: one case of the space through all of its routes, with its counters
    if let Some(i) = args.rest.iter().position(|a| a == "--case") {
        let case: Case = serde_json::from_str(&args.rest[i + 1]).unwrap_or_else(|e| vcore::machinery_error(&format!("--case: {e}")));
        let (d, opts) = build(&case);
        println!("case: {}", case.label());
        let mut bad = false;
        for route in routes_of(&d) {
            let mut st = Stats::default();
            match judge(&d, &opts, route, true, case.kind == Kind::Cubic, &mut st) {
                Outcome::Rejected(e) | Outcome::Panicked(e) => println!("[{}] not compiled: {e}", route.name()),
                Outcome::Judged(f) => {
                    println!(
                        "[{}] comparisons {} points {} gvar tuples {} iup-omitted points {} comparisons with iup allowance {} max err {} max err/bound {}",
                        route.name(), st.comparisons, st.points_compared, st.gvar_tuples, st.iup_omitted_points, st.comparisons_with_iup_allowance, st.max_err, st.max_err_over_bound
                    );
                    for x in &f {
                        println!("VIOLATION [{}] {}", x.class, x.what);
                    }
                    bad |= !f.is_empty();
                }
            }
        }
        vcore::cleanup_scratch();
        std::process::exit(bad as i32);
    }
    if args.rest.iter().any(|a| a == "--count") {
        println!("{} designs: {}", cases.len(), serde_json::to_string(&notes).unwrap());
        // per (axes, sub-space): designs, fonts (all routes of the tier), (glyph, master) comparisons
        let mut t: BTreeMap<(usize, &'static str, usize), [u64; 4]> = BTreeMap::new();
        for c in &cases {
            let e = t.entry((c.n, c.sub(), c.locs.len())).or_default();
            let routes = routes_planned(args.tier, c);
            e[0] += 1;
            e[1] += routes;
            e[2] += c.comparisons();
            e[3] += c.comparisons() * routes;
        }
        let (mut f, mut k) = (0, 0);
        for ((n, sub, full), e) in &t {
            println!("  axes {n} {sub:7} full masters {full} designs {:7} fonts {:7} comparisons ufo {:10} all routes {:10}", e[0], e[1], e[2], e[3]);
            f += e[1];
            k += e[3];
        }
        println!("  total fonts {f} comparisons {k}");
        return;
    }
    let chunk = 8usize;
    let nchunks = cases.len().div_ceil(chunk);
    let started = std::time::Instant::now();
    // a safety net for an overloaded machine; a normal run finishes far below it
    let cap_s: u64 = (args.tier.pick(150.0, 1100.0) * vcore::budget_scale()) as u64;
    let tier = args.tier;
    let results = vcore::par_for(nchunks, vcore::ncores(), |ci| {
        let mut st = Stats::default();
        let mut viol: Vec<(String, String, usize, Route, Value)> = vec![];
        let mut samples: Vec<Value> = vec![];
        let mut rejected: Vec<(String, String)> = vec![];
        for (k, case) in cases[ci * chunk..((ci + 1) * chunk).min(cases.len())].iter().enumerate() {
            let idx = ci * chunk + k;
            if started.elapsed().as_secs() > cap_s {
                st.designs_skipped_by_time_cap += 1;
                continue;
            }
            let (d, opts) = build(case);
            let before = st.clone();
            let mut routes = routes_of(&d);
            if routes.len() as u64 != 1 + case.glyphs_routes().0 as u64 + case.glyphs_routes().1 as u64 {
                vcore::machinery_error(&format!("[{}]: the route prediction of the case and dgen disagree", case.label()));
            }
            if routes.len() == 1 {
                st.designs_not_representable_in_glyphs += 1;
            } else if !glyphs_routes_enabled(tier, case) {
                st.designs_glyphs_route_not_taken_in_this_tier += 1;
                routes.truncate(1);
            }
            // finding classes of the UFO route: a Glyphs-route finding of the same class is the same
            // failing feature and keeps the key; a finding of the Glyphs route alone names the route
            let mut ufo_classes: BTreeSet<&'static str> = BTreeSet::new();
            for route in routes {
            // skrifa second opinion on every 16th design
            // (the static builds of the masters: designs of the cubic kind, UFO route)
            match judge(&d, &opts, route, idx % 16 == 5, case.kind == Kind::Cubic && route == Route::Ufo, &mut st) {
                Outcome::Rejected(e) => rejected.push((format!("{} [{}]", case.label(), route.name()), format!("error: {e}"))),
                Outcome::Panicked(e) => rejected.push((format!("{} [{}]", case.label(), route.name()), format!("panic: {e}"))),
                Outcome::Judged(f) => {
                    let mut seen = BTreeSet::new();
                    for x in f {
                        let mut key = format!("outline-mismatch:{}:{}:{}", case.kind.name(), case.fam.name(), x.class);
                        if case.upem != 1000 {
                            key.push_str(&format!(":upem{}", case.upem));
                        }
                        if route == Route::Ufo {
                            ufo_classes.insert(x.class);
                        } else if !ufo_classes.contains(x.class) {
                            key.push_str(&format!(":{}", route.name()));
                        }
                        if seen.insert(key.clone()) {
                            // the replay (with the serialised design) is built by the main
                            // thread, for the first case of every key only
                            viol.push((key, format!("[{}] [{}] {}", case.label(), route.name(), x.what), idx, route, x.detail));
                        }
                    }
                    if route == Route::Ufo && idx % 997 == 3 && samples.len() < 2 {
                        samples.push(json!({
                            "case": case.label(),
                            "glyphs": d.glyphs.len(),
                            "masters": d.masters.len(),
                            "comparisons": st.comparisons - before.comparisons,
                            "points_compared": st.points_compared - before.points_compared,
                            "gvar_tuples": st.gvar_tuples - before.gvar_tuples,
                        }));
                    }
                }
            }
            }
        }
        (st, viol, samples, rejected)
    });
    let mut total = Stats::default();
    let mut samples: Vec<Value> = vec![];
    let mut rejected: Vec<Value> = vec![];
    let mut reject_classes: BTreeMap<String, u64> = BTreeMap::new();
    let mut reported: BTreeSet<String> = BTreeSet::new();
    for (st, viol, s, rej) in results {
        add_stats(&mut total, &st);
        for (k, w, idx, route, detail) in viol {
            let replay = if reported.insert(k.clone()) {
                let (d, opts) = build(&cases[idx]);
                json!({"label": cases[idx].label(), "case": cases[idx], "opts": opts, "route": route, "finding": detail, "design": serde_json::to_value(&d).unwrap()})
            } else {
                Value::Null
            };
            rep.violation(&k, &w, replay);
        }
        for x in s {
            if samples.len() < 12 {
                samples.push(x);
            }
        }
        for (label, e) in rej {
            let class: String = e.chars().filter(|c| !c.is_ascii_digit()).take(80).collect();
            *reject_classes.entry(class).or_default() += 1;
            if rejected.len() < 8 {
                rejected.push(json!({"case": label, "message": e}));
            }
        }
    }
    rep.set("evaluations", total.compiled);
    rep.set("distinct_nontrivial", total.comparisons_active_variation);
    rep.set(
        "rule",
        "distinct (design, source route, glyph, master) comparisons at a non-default master location at which the glyph has a drawing of its own and at least one gvar tuple of the glyph is active (scalar != 0); every design of the space is distinct by construction, and every route of a design is a different source text compiled into a font of its own",
    );
    rep.set("counts", serde_json::to_value(&total).unwrap());
    rep.set("spaces", notes);
    rep.set(
        "routes",
        json!({
            "fonts_from_designspace_ufo": total.fonts_ufo_route,
            "fonts_from_glyphs3": total.fonts_glyphs_route - total.fonts_glyphs_route_partial_coordinates,
            "fonts_from_glyphs3_with_partial_brace_coordinates": total.fonts_glyphs_route_partial_coordinates,
            "policy": "Glyphs routes for 1-2 axes with <= 5 full masters and 3 axes with <= 3, where dgen says the design is representable",
        }),
    );
    rep.set("samples", samples);
    rep.set("designs_not_compiled", json!({"count": total.rejected + total.panicked, "classes": reject_classes, "examples": rejected}));
    rep.set("exhaustive", total.designs_skipped_by_time_cap == 0 && stride == 1 && only.is_none());
    if stride > 1 {
        rep.set("stride", stride);
    }
    if total.designs_skipped_by_time_cap > 0 {
        eprintln!("[C03] time cap of {cap_s}s hit: {} designs (the largest master sets) were not run", total.designs_skipped_by_time_cap);
    }
    rep.assume("normalized master grid {-1,0,1}^n + (0.5,0,..) (+ a layer master at (0.5,0,..)/(0.25,0,..) or (0.5,0.5,..)): every location is F2Dot14-exact, so instantiation happens exactly at the master (measured: locations_off_master_by_quantisation)");
    rep.assume("closed contours of line / qcurve / cubic segments, two contours per simple glyph; components with the identity 2x2, or (xform kinds) with an orientation-preserving dyadic 2x2 inside (-2,2) that is the same in all masters (stays a composite with exactly that 2x2) or differs between masters in one coefficient / all four (expected as the simple glyph the source resolves to, per master); open contours, single points, flipped and F2Dot14-overflowing 2x2s are not enumerated");
    rep.assume("units per em 1000 everywhere, 2048 and 4096 for the simple kinds x {some-static, scale, all-move} x {no layer master, the first one} (drawings scaled by upem/1000, to half units); the per-coordinate bound does not depend on the em");
    rep.assume("Glyphs 3 route: every design whose axis extremes are at full masters and whose component 2x2s are axis-aligned is also compiled from a .glyphs twin (dgen writer: explicit Axis Mappings, Variable Font Origin, brace layers with associatedMasterId + attr.coordinates) and judged identically; brace layers with only leading coordinates are written only where the omitted trailing axes equal the associated master's (the rule documented at glyphs2fontir process_layer); Glyphs 2, .glyphspackage and bracket layers are not enumerated");
    rep.assume("per-coordinate bound against ot_round(source): 0 at the default master; elsewhere 0.5 (one delta rounding) + 0.5*|scalar| for every active gvar tuple that omits the point (IUP tolerance), which is <= the statement's 0.5 + 0.5*sum(active scalars); component offsets 0.5; measured tightness in counts.max_err_over_bound");
    rep.assume("a run on an overloaded machine stops starting new designs after 150 s (quick) / 1100 s (thorough) (times VERIF_BUDGET_SCALE), largest master sets last, and then reports exhaustive=false with counts.designs_skipped_by_time_cap");
    rep.assume("the start point of a contour is free (contours are compared as cyclic sequences; one rotation must serve all masters); an on-curve point may be left implied only where the instantiated neighbours' midpoint reproduces it within the bound + 0.5");
    rep.assume("cubic sources are compared as curves (sampled symmetric Hausdorff distance, 16 samples per quadratic / 32 per cubic segment), not point for point: the joint cu2qu conversion fixes the structure only");
    rep.assume("a design the compiler refuses is counted (designs_not_compiled), not judged; at masters where a sparse glyph has no drawing nothing is asserted");
    rep.assume("a disagreement between otvar and skrifa on a sampled design is a machinery error (exit 2), never a violation");
    rep.finish()
}
